"""C01 -- Master Boot Image: parse(export(x)) = x and a self-describing header (DESIGN.md section 3, C01)."""
import hashlib
import hmac as pyhmac
import json
import os
import shutil
import struct
import sys

sys.path.insert(0, os.path.dirname(os.path.dirname(os.path.abspath(__file__))))
import vlib
from vlib import VI, VB, VL
import regen_c01

PID = "C01"
sys.set_int_max_str_digits(0)
THEOREMS = ["ivt_inverse", "ivt_words_untouched_elsewhere", "ivt_words_describe", "flags_decode", "len_is_sum_plain_crc",
            "mbi_roundtrip_plain_crc", "mbi_roundtrip_signed_v1", "mbi_roundtrip_signed_v21", "mbi_roundtrip_encrypted", "mbi_roundtrip_bca", "database_offers_classified", "history_export_is_current_state", "repaired_findings_hold", "reloc_table_roundtrip", "reexport_stable", "mro_resolution_all_classes", "wf_class_sweep",
            "class_selection_sweep", "class_selection_refuted", "manifest_flags_and_is_bitwise", "disassemble_cuts_collect",
            "hmac_finalize_inverse"]
MIXIN_IDS = regen_c01.MIXIN_IDS
UNSUPPORTED = {"MixinBcaTable", "MixinBcaObsolete", "MixinFcfObsolete", "MixinCertBlockVx", "MixinBca", "MixinFcf",
               "ExportMixinAppBcaFcf", "ExportMixinAppFcf", "ExportMixinCrcSignBca", "ExportMixinEccSignVx", "MixinManifest"}
IVT_WORDS = [(0x20, 0x2C), (0x34, 0x38)]
KS_SIZE, HMAC_SIZE = 1424, 32
WORKDIR = os.path.join(vlib.WORK, PID)


# ------------------------------------------------------------------ small independent primitives (spec side)
def crc32_mpeg(data, crc=0xFFFFFFFF):
    for b in data:
        crc ^= b << 24
        for _ in range(8):
            crc = ((crc << 1) ^ 0x04C11DB7) & 0xFFFFFFFF if crc & 0x80000000 else (crc << 1) & 0xFFFFFFFF
    return crc


def aes_ecb(key, data):
    from cryptography.hazmat.primitives.ciphers import Cipher, algorithms, modes
    e = Cipher(algorithms.AES(key), modes.ECB()).encryptor()
    return e.update(data) + e.finalize()


def ctr_keystream(key, iv, n):
    ctr = int.from_bytes(iv, "big")
    blocks = b"".join(((ctr + i) % (1 << 128)).to_bytes(16, "big") for i in range((n + 15) // 16 + 1))
    return aes_ecb(key, blocks)[:n]


def outside_ivt(b):
    b = bytearray(b)
    for lo, hi in IVT_WORDS:
        b[lo:hi] = bytes(len(b[lo:hi]))
    return bytes(b)


def pad4(b):
    return b + bytes((-len(b)) % 4)


def w32(b, off):
    return int.from_bytes(b[off:off + 4], "little")


# ------------------------------------------------------------------ database view
class Db:
    def __init__(self, d):
        self.d = d
        self.fams = d["families"]
        self.fidx = {f["family"]: i for i, f in enumerate(self.fams)}
        self.comps, self.cidx = regen_c01.compositions(d)

    def offer_class(self, fam, target, auth):
        f = self.fams[self.fidx[fam]]
        for t, a, cn in f["offers"]:
            if t == target and a == auth:
                return cn, f["classes"][cn]
        raise KeyError((fam, target, auth))

    def comp_index(self, c):
        return self.cidx[(c["image_type"], tuple(c["mixins"]))]


def mixset(c):
    return [m[len("Mbi_"):] for m in c["mixins"]]


def class_value(c):
    return VL([VI(c["image_type"]), VL([VI(MIXIN_IDS.index(m) + 1) for m in mixset(c)])])


def supported(c):
    return not (set(mixset(c)) & UNSUPPORTED)


# ------------------------------------------------------------------ case generation
CERTS_V1 = ["v1_4x2048", "v1_chain"]
CERTS_V21 = ["v21_256_none", "v21_384_none", "v21_256_256", "v21_384_384", "v21_384_256"]
V21_HASH = {"v21_256_none": "sha256", "v21_384_none": "sha384", "v21_256_256": "sha256", "v21_384_384": "sha384",
            "v21_384_256": "sha256"}
LENGTHS_QUICK = [0x38, 0x39, 0x3A, 0x3B, 0x3C, 0x3F, 0x40, 0x41, 0x44, 0x50, 0x64, 0xFF, 0x100, 0x1FF, 0x200, 0x201, 0x3FD,
                 0x400, 0x555, 0x7FF, 0x800]


def rnd_bytes(rng, n):
    return bytes(rng.getrandbits(8) for _ in range(n))


def gen_app(rng, n):
    b = bytearray(rnd_bytes(rng, n))
    if n >= 12 and b[0:4] == b[4:8] == b[8:12]:
        b[0] ^= 1
    return bytes(b)


def gen_opts(rng, db, fam, c, variant):
    """Option set for class c; `variant` steers which optional features are exercised."""
    ms = set(mixset(c))
    f = db.fams[db.fidx[fam]]
    o = {}
    if "MixinLoadAddress" in ms:
        o["load_address"] = rng.choice([0, 0x1000, 0x20000000, 0xFFFFFFFF, rng.getrandbits(32)])
    elif "MixinLoadAddressOptional" in ms and variant % 2:
        o["load_address"] = rng.choice([0x8001000, rng.getrandbits(32)])
    if "MixinImageVersion" in ms:
        o["image_version"] = rng.choice([0, 1, 0xFFFF, rng.getrandbits(16), None])
    if "MixinImageSubType" in ms:
        o["subtype"] = rng.choice(["main", "nbu", "recovery", None])
    if ms & {"MixinFwVersion", "MixinManifestCrc", "MixinManifestDigest"}:
        o["firmware_version"] = rng.choice([0, 1, 0xFFFFFFFF, rng.getrandbits(32), None])
    if "MixinBcaObsolete" in ms:
        o["firmware_version"] = [None, 1, 0xFFFFFFFF, 0x01020304][variant % 4]
    if "MixinFcfObsolete" in ms:
        lab = [None, "OEM_OPEN", None, "OEM_CLOSED_ROP1", "NOT_SET", "OEM_CLOSED_NO_RETURN"][variant % 6]
        if lab:
            o["lifecycle"] = lab
    if "MixinCertBlockVx" in ms:
        o["cert"] = "vx"
        if variant % 4 == 2:
            o["just_header"] = True
        if variant % 4 == 3:
            o["add_cert_hash"] = False
    tzsize = f["tz_size"]
    mand = bool(ms & {"MixinTrustZoneMandatory", "MixinManifestCrc", "MixinManifestDigest"})
    if mand or "MixinTrustZone" in ms:
        kinds = (["default", "custom"] if mand else ["disabled", "default", "custom"]) if tzsize else ["default"]
        k = kinds[variant % len(kinds)]
        o["tz"] = [k, rnd_bytes(rng, tzsize).hex()] if k == "custom" else [k]
    if "MixinHwKey" in ms:
        o["hw_key"] = bool(rng.getrandbits(1))
    if ms & {"MixinHmac", "MixinHmacMandatory"}:
        if "MixinHmacMandatory" in ms or variant % 2:
            o["hmac_key"] = rnd_bytes(rng, 32).hex()
    if "MixinKeyStore" in ms and o.get("hmac_key") and variant % 3 == 0:
        o["key_store"] = rnd_bytes(rng, KS_SIZE).hex()
    if "MixinCtrInitVector" in ms:
        o["ctr_iv"] = rnd_bytes(rng, 16).hex()
    if "MixinRelocTable" in ms and variant % 4 == 3:
        o["reloc"] = [[rnd_bytes(rng, rng.choice([1, 4, 7, 16, 33])).hex(), rng.getrandbits(32)]
                      for _ in range(1 + variant // 4 % 3)]
    if "MixinCertBlockV1" in ms:
        o["cert"] = CERTS_V1[variant % 2]
    if "MixinCertBlockV21" in ms:
        o["cert"] = CERTS_V21[variant % len(CERTS_V21)]
        if "MixinManifestDigest" in ms:
            r = variant % 3
            if r == 1:
                o["digest"] = V21_HASH[o["cert"]]
            elif r == 2:
                o["add_digest"] = True
    return o


def reloc_tail(n_entries, start, version=0):
    return struct.pack("<4I", 0x4C54424C, version, n_entries, start)


def gen_cases(tier, rng, db):
    """-> list of (stream, case).  One representative (family, class) per distinct composition in quick,
    every (family, offer) in thorough."""
    cases = []
    thorough = tier == "thorough"
    seen = set()
    reps = []
    for f in db.fams:
        for t, a, cn in f["offers"]:
            c = f["classes"][cn]
            ci = db.comp_index(c)
            if thorough or ci not in seen:
                reps.append((f["family"], t, a, c, ci in seen))
                seen.add(ci)
    nvar = 4 if thorough else 8
    k = 0
    for fam, t, a, c, dup in reps:
        ms = set(mixset(c))
        n = (8 if dup else 40) if thorough else nvar
        if not supported(c):
            n = min(n, 6)
        for v in range(n):
            ln = LENGTHS_QUICK[k % len(LENGTHS_QUICK)] if (not thorough or v < 4) else (0x38 + (k * 7 + v) % 0x7C9)
            if not supported(c):
                ln = 0xC00 + 64 + 4 * v       # BCA based families need the whole header area
            k += 1
            app = gen_app(rng, ln)
            if not supported(c):
                app = app[:0x40C] + bytes([rng.choice([0xFF, 0xFE, 0x90])]) + app[0x40D:]   # valid FCF life cycle byte
            cases.append(("valid images", {"family": fam, "target": t, "auth": a, "app": app.hex(),
                                           "opts": gen_opts(rng, db, fam, c, v)}))
        if not supported(c):
            if "MixinFcfObsolete" in ms and not dup:
                # payloads whose FCF life-cycle byte is arbitrary, and payloads that end before the FCF area
                for j, ln in enumerate((0x100, 0x40D, 0xC40, 0xC44)):
                    app = bytearray(gen_app(rng, ln))
                    if ln > 0x40C:
                        app[0x40C] = (0x00, 0x2D, 0xD4)[j % 3]
                    cases.append(("FCF life-cycle byte", {"family": fam, "target": t, "auth": a, "app": bytes(app).hex(),
                                                          "opts": gen_opts(rng, db, fam, c, 0)}))
            if not dup:
                # payloads that end inside / before the header area of the BCA based layouts, with and without a life cycle
                if "MixinFcfObsolete" in ms:
                    for j, ln in enumerate((0x100, 0x3C8, 0x3F0, 0x404, 0x40D, 0x85C, 0x860, 0xBFC)):
                        for v in (0, 1):
                            cases.append(("BCA/FCF header area", {"family": fam, "target": t, "auth": a, "app": gen_app(rng, ln).hex(),
                                                                  "opts": gen_opts(rng, db, fam, c, v)}))
                else:
                    # mcxc: BCA tag present / absent, image-type bits of word 0x24 clear (so that parse finds the class)
                    for j, ln in enumerate((0x400, 0x40C, 0x410, 0x500, 0xC40)):
                        for tag in (False, True):
                            app = bytearray(gen_app(rng, ln))
                            app[0x24] &= 0xC0
                            if tag:
                                app[0x3C0:0x3C4] = b"kcfg"
                            cases.append(("BCA/FCF header area", {"family": fam, "target": t, "auth": a, "app": bytes(app).hex(),
                                                                  "opts": gen_opts(rng, db, fam, c, 0)}))
            continue
        # crafted: payload that ends in something resembling a relocation-table marker
        if not dup:
            tails = [reloc_tail(0, 0x40), reloc_tail(1, 0x40), reloc_tail(0, 0x40, version=1), reloc_tail(2, 0)]
            for j, tail in enumerate(tails if "MixinRelocTable" in ms else tails[:1]):
                app = gen_app(rng, 0x80 + 4 * j)[:-16] + tail
                cases.append(("crafted relocation-like tails", {"family": fam, "target": t, "auth": a, "app": app.hex(),
                                                                "opts": gen_opts(rng, db, fam, c, 0)}))
        # relocation tables of 1..3 entries on every class that has the mixin
        if "MixinRelocTable" in ms and not dup:
            for j in range(1, 4):
                o = gen_opts(rng, db, fam, c, 0)
                o["reloc"] = [[rnd_bytes(rng, rng.choice([1, 4, 7, 16])).hex(), rng.getrandbits(32)] for _ in range(j)]
                app = bytearray(gen_app(rng, 0x60 + 4 * j))
                if j == 3:                     # entry-like head: word 0xC == 1, src + size inside the image
                    app[0:16] = struct.pack("<4I", 0x40, 0x12345678, 8, 1)
                cases.append(("relocation tables", {"family": fam, "target": t, "auth": a, "app": bytes(app).hex(), "opts": o}))
        # HMAC classes around the HMAC offset
        if ms & {"MixinHmac", "MixinHmacMandatory"} and not dup:
            for ln in (0x38, 0x3C, 0x40, 0x44):
                for v in (0, 1):
                    cases.append(("short images in HMAC classes", {"family": fam, "target": t, "auth": a,
                                                                  "app": gen_app(rng, ln).hex(),
                                                                  "opts": gen_opts(rng, db, fam, c, v)}))
        # rejected inputs
        if not dup:
            bad = [gen_app(rng, rng.choice([0, 4, 0x34])), gen_app(rng, 0x37), b"\x11\x22\x33\x44" * 20]
            for b in bad:
                cases.append(("rejected inputs", {"family": fam, "target": t, "auth": a, "app": b.hex(),
                                                  "opts": gen_opts(rng, db, fam, c, 1)}))
    return cases


# ------------------------------------------------------------------ object-reuse histories (one builder object, many exports)
def hist_change(rng, db, fam, c, app, o, group):
    """-> (app', opts') after changing the member group `group`, or None when the class has no such member"""
    ms = set(mixset(c))
    tzsize = db.fams[db.fidx[fam]]["tz_size"]
    o = json.loads(json.dumps(o))
    if group == "app":
        n = len(app) // 2
        n2 = rng.choice([x for x in (0x40, 0x44, 0x7C, 0x100, 0x1FD, 0x204, 0x400, n + 4, n + 0x41, max(0x40, n - 0x1C)) if (x + 3) // 4 != (n + 3) // 4])
        return gen_app(rng, n2).hex(), o
    if group == "tz":
        mand = bool(ms & {"MixinTrustZoneMandatory", "MixinManifestCrc", "MixinManifestDigest"})
        if not (mand or "MixinTrustZone" in ms) or not tzsize:
            return None
        kinds = [k for k in (["default", "custom"] if mand else ["disabled", "default", "custom"]) if k != (o.get("tz") or ["default"])[0]]
        k = rng.choice(kinds)
        o["tz"] = [k, rnd_bytes(rng, tzsize).hex()] if k == "custom" else [k]
        return app, o
    if group == "key_store":
        if "MixinKeyStore" not in ms or not o.get("hmac_key"):
            return None
        if o.get("key_store"):
            o.pop("key_store")
        else:
            o["key_store"] = rnd_bytes(rng, KS_SIZE).hex()
        return app, o
    if group == "reloc":
        if "MixinRelocTable" not in ms:
            return None
        if o.get("reloc") and rng.getrandbits(1):
            o.pop("reloc")
        else:
            o["reloc"] = [[rnd_bytes(rng, rng.choice([1, 4, 7, 16, 33])).hex(), rng.getrandbits(32)]
                          for _ in range(rng.choice([1, 2, 3]))]
        return app, o
    if group == "load_address":
        if not ms & {"MixinLoadAddress", "MixinLoadAddressOptional"}:
            return None
        o["load_address"] = rng.choice([x for x in (0x1000, 0x20000000, 0x8001000, rng.getrandbits(32)) if x != o.get("load_address")])
        return app, o
    if group == "hmac_key":
        if not ms & {"MixinHmac", "MixinHmacMandatory"}:
            return None
        if "MixinHmac" in ms and o.get("hmac_key") and not o.get("key_store") and rng.getrandbits(1):
            o.pop("hmac_key")
        else:
            o["hmac_key"] = rnd_bytes(rng, 32).hex()
        return app, o
    if group == "ctr_iv":
        if "MixinCtrInitVector" not in ms:
            return None
        o["ctr_iv"] = rnd_bytes(rng, 16).hex()
        return app, o
    if group == "cert":
        if "MixinCertBlockV1" in ms:
            o["cert"] = CERTS_V1[1 - CERTS_V1.index(o["cert"])]
            return app, o
        if "MixinCertBlockV21" in ms and not o.get("digest") and not o.get("add_digest"):
            o["cert"] = rng.choice([x for x in CERTS_V21 if x != o["cert"]])
            return app, o
        return None
    if group == "image_version":
        if "MixinImageVersion" not in ms:
            return None
        o["image_version"] = rng.choice([x for x in (0, 1, 0xFFFF, rng.getrandbits(16)) if x != o.get("image_version")])
        return app, o
    if group == "hw_key":
        if "MixinHwKey" not in ms:
            return None
        o["hw_key"] = not o.get("hw_key")
        return app, o
    return None


HIST_GROUPS = ["app", "tz", "key_store", "reloc", "load_address", "hmac_key", "ctr_iv", "cert", "image_version", "hw_key"]
LEN_GROUPS = ["app", "tz", "key_store", "reloc", "cert", "hmac_key"]


def gen_histories(tier, rng, db):
    """One builder object, a sequence of 2..5 operations [export | change a member]; fixed histories first
    (export, change of a length-affecting member, export), random ones after."""
    cases = []
    thorough = tier == "thorough"
    seen = set()
    for f in db.fams:
        for t, a, cn in f["offers"]:
            c = f["classes"][cn]
            ci = db.comp_index(c)
            if ci in seen or not supported(c):
                continue
            seen.add(ci)
            fam = f["family"]

            def start(v):
                return gen_app(rng, rng.choice([0x40, 0x64, 0x100, 0x201])).hex(), gen_opts(rng, db, fam, c, v)

            def emit(app0, o0, groups):
                app, o, ops = app0, o0, []
                for g in groups:
                    if g == "export":
                        ops.append(["export"])
                        continue
                    ch = hist_change(rng, db, fam, c, app, o, g)
                    if ch is None:
                        continue
                    app, o = ch
                    ops.append(["set", g, app, o])
                if sum(1 for x in ops if x[0] == "export") >= 1 and len(ops) >= 2:
                    cases.append(("object reuse histories", {"family": fam, "target": t, "auth": a, "app": app0, "opts": o0,
                                                             "history": ops}))
            # fixed: export / change / export for every length-affecting member the class has
            for j, g in enumerate(LEN_GROUPS):
                app0, o0 = start(j)
                if hist_change(rng, db, fam, c, app0, o0, g) is not None:
                    emit(app0, o0, ["export", g, "export"])
            for v in range(8 if thorough else 1):
                app0, o0 = start(v)
                n = rng.choice([1, 2, 3])
                mid = [rng.choice(HIST_GROUPS + ["export"]) for _ in range(n)]
                emit(app0, o0, ["export"] + mid + ["export"])
    return cases


# ------------------------------------------------------------------ model side encoding
def tz_value(tz):
    return VL([VI(tz[0]), VB(bytes.fromhex(tz[1]))])


def cert_value(cb):
    if cb is None or "export" not in cb:
        return VL([])
    b = bytes.fromhex(cb["export"])
    if cb["kind"] == "CertBlockV1":
        return VL([VI(1), VB(b[:20]), VB(b[24:]), VI(cb["signature_size"])])
    return VL([VI(2), VB(b), VI(cb["signature_size"])])


DIGEST = {None: 0, "sha256": 1, "sha384": 2, "sha512": 3}


def mbi_value(ob):
    """Value of the model's input record from the observed settings of the loaded object."""
    def ob_opt(h):
        return VL([]) if h is None else VL([VB(bytes.fromhex(h))])
    rel = ob.get("reloc")
    mf = ob.get("manifest") or {}
    return VL([VB(bytes.fromhex(ob.get("app") or "")), VI(ob.get("load_address") or 0), VI(ob.get("image_version") or 0),
               VI(ob.get("image_subtype") or 0), VI(ob.get("firmware_version") or 0),
               tz_value(ob["tz"]) if "tz" in ob else VL([VI(0), VB(b"")]), VI(1 if ob.get("hw_key") else 0),
               ob_opt(ob.get("key_store")), ob_opt(ob.get("hmac_key")), VB(bytes.fromhex(ob.get("ctr_iv") or "")),
               VL([]) if rel is None else VL([VL([VL([VB(bytes.fromhex(i)), VI(d), VI(fl)]) for i, d, fl in rel])]),
               cert_value(ob.get("cert")), VI(DIGEST[mf.get("digest")])])


def crypto_value(case, res):
    """Primitive outputs for this case computed on the spec side (never through SPSDK)."""
    o = case.get("opts", {})
    sig = bytes.fromhex(res["signed"][0][1]) if res.get("signed") else b""
    dts = bytes.fromhex(res["signed"][0][0]) if res.get("signed") else b""
    image = bytes.fromhex(res.get("image", ""))
    hm = b""
    ob = res.get("input", {})
    if ob.get("hmac_key"):
        key = bytes.fromhex(ob["hmac_key"])
        hm = pyhmac.new(aes_ecb(key, bytes(16)), image[:64], hashlib.sha256).digest()
    ks = b""
    if ob.get("hmac_key") and ob.get("ctr_iv") and "MixinCtrInitVector" in res.get("mixins_short", []):
        key = bytes.fromhex(ob["hmac_key"])
        if ob.get("key_store") is None:
            key = aes_ecb(key, bytes([1] + [0] * 15 + [2] + [0] * 15))
        ks = ctr_keystream(key, bytes.fromhex(ob["ctr_iv"]), len(image))
    dg = b""
    alg = (ob.get("manifest") or {}).get("digest")
    if alg:
        dg = hashlib.new(alg, dts).digest()
    return VL([VB(sig), VB(hm), VB(ks), VB(dg)])

# ------------------------------------------------------------------ BCA / FCF based layouts (mc56f81xxx, mwct20xx, mcxc): spec side
LIFECYCLES = {"NOT_SET": 0xFF, "OEM_OPEN": 0xFE, "OEM_CLOSED_ROP1": 0x90, "OEM_CLOSED_ROP2": 0x95, "OEM_CLOSED_ROP3": 0x9B,
              "OEM_CLOSED_NO_RETURN": 0x6B}
P256_P = 0xFFFFFFFF00000001000000000000000000000000FFFFFFFFFFFFFFFFFFFFFFFF
P256_B = 0x5AC635D8AA3A93E7B3EBBD55769886BC651D06B0CC53B0F63BCE3C3E27D2604B


def p256_on_curve(xy):
    if len(xy) != 64:
        return False
    x, y = int.from_bytes(xy[:32], "big"), int.from_bytes(xy[32:], "big")
    return 0 < x < P256_P and 0 < y < P256_P and (y * y - (x * x * x - 3 * x + P256_B)) % P256_P == 0


def vx_signed_ranges(b):
    return b[:0x360] + b[0x3C0:0x400] + b[0xC00:]


def bca_expected(ob, ms, res, app):
    """The image the documented layout prescribes: the application with every header field the builder owns written AT ITS
    OFFSET.  -> (image, None) or (None, name of the first field that does not fit into the application)."""
    b = bytearray(app)

    def put(name, off, data):
        if off + len(data) > len(b):
            return name
        b[off:off + len(data)] = data
        return None
    if "MixinFcfObsolete" in ms and (ob.get("lifecycle", 0xFF) or 0) != 0xFF:
        bad = put("life-cycle byte 0x40C", 0x40C, bytes([ob["lifecycle"]]))
        if bad:
            return None, bad
    if "MixinBcaObsolete" in ms:
        tot = len(vx_signed_ranges(bytes(b)))
        bad = put("BCA image length 0x3E0", 0x3E0, struct.pack("<I", tot)) or \
            put("BCA firmware version 0x3E4", 0x3E4, struct.pack("<I", ob.get("firmware_version") or 0))
        if bad:
            return None, bad
    if "MixinBca" in ms and ob.get("bca"):
        bad = put("BCA 0x3C0", 0x3C0, bytes.fromhex(ob["bca"]))
        if bad:
            return None, bad
    if "MixinFcf" in ms and ob.get("fcf"):
        bad = put("FCF 0x400", 0x400, bytes.fromhex(ob["fcf"]))
        if bad:
            return None, bad
    if "ExportMixinCrcSignBca" in ms:
        body = bytes(b[0xC00:])
        bad = put("BCA CRC start 0x3C4", 0x3C4, struct.pack("<I", 0xC00)) or \
            put("BCA CRC byte count 0x3C8", 0x3C8, struct.pack("<I", len(body))) or \
            put("BCA CRC value 0x3CC", 0x3CC, struct.pack("<I", crc32_mpeg(body)))
        if bad:
            return None, bad
    if "ExportMixinEccSignVx" in ms:
        if ob.get("just_header"):
            tbs = vx_signed_ranges(bytes(b[:0x800]))
        else:
            tbs = vx_signed_ranges(bytes(b))
        sig = bytes.fromhex(res["signed"][0][1]) if res.get("signed") else b""
        cb = bytes.fromhex((ob.get("cert") or {}).get("export", ""))
        bad = put("image digest 0x360", 0x360, hashlib.sha256(tbs).digest()) or put("signature 0x380", 0x380, sig) or \
            put("ISK certificate 0x410", 0x410, cb + bytes(0x4A0 - 0x410 - len(cb)))
        if not bad and ob.get("add_hash", True):
            ch = bytes.fromhex((ob.get("cert") or {}).get("cert_hash", ""))
            bad = put("ISK certificate hash 0x4A0", 0x4A0, ch + bytes(0x5E0 - 0x4A0 - len(ch)))
        if bad:
            return None, bad
        if ob.get("just_header"):
            return bytes(b[:0x800]), None
    return bytes(b), None


def bx_value(ob):
    def ob_opt(h):
        return VL([]) if h is None else VL([VB(bytes.fromhex(h))])
    cb = ob.get("cert") or {}
    cert = VL([VB(bytes.fromhex(cb["export"])), VB(bytes.fromhex(cb.get("cert_hash", "")))]) if "export" in cb else VL([])
    lc = ob.get("lifecycle")
    return VL([VB(bytes.fromhex(ob.get("app") or "")), VI(0xFF if lc is None else lc), VI(ob.get("firmware_version") or 0), cert,
               VI(1 if ob.get("add_hash", True) else 0), VI(1 if ob.get("just_header") else 0),
               ob_opt(ob.get("bca")), ob_opt(ob.get("fcf"))])


def lit(v):
    """Coq literal; byte strings as lists of primitive 63-bit integers, 7 bytes each (MbiIoModel.B)."""
    t, x = v
    if t == "b":
        return f"B {len(x)} [" + "; ".join(f"{int.from_bytes(x[i:i + 7], 'little')}%uint63" for i in range(0, len(x), 7)) + "]"
    if t == "l":
        return "VList [" + "; ".join("(" + lit(y) + ")" for y in x) + "]"
    return vlib.coq_lit(v)


_CTOK = __import__("re").compile(r"\s*(\[|\]|\(|\)|;|-?\d+(?:%[A-Za-z0-9]+)?|[A-Za-z_][\w.]*)")


def parse_cvalues(text):
    """Parse the terms printed by `Eval vm_compute in (e : cvalue)`."""
    out = []
    for m in __import__("re").finditer(r"(?s)=\s*(.*?)\s*:\s*cvalue\b", text):
        toks = _CTOK.findall(m.group(1))
        pos = [0]

        def nxt():
            t = toks[pos[0]]
            pos[0] += 1
            return t

        def peek():
            return toks[pos[0]] if pos[0] < len(toks) else None

        def num():
            t = nxt()
            if t == "(":
                t = nxt()
                assert nxt() == ")"
                if peek() and peek().startswith("%"):
                    nxt()
            return int(t.split("%")[0])

        def lst(item):
            assert nxt() == "["
            r = []
            if peek() == "]":
                nxt()
                return r
            while True:
                r.append(item())
                t = nxt()
                if t == "]":
                    return r
                assert t == ";", t

        def val():
            t = nxt()
            if t == "(":
                v = val()
                assert nxt() == ")"
                return v
            if t == "CInt":
                return ("i", num())
            if t == "CErr":
                return ("e", num())
            if t == "CBytes":
                n = num()
                ws = lst(num)
                return ("b", b"".join(w.to_bytes(7, "little") for w in ws)[:n])
            if t == "CList":
                return ("l", lst(val))
            raise ValueError("unexpected token " + t)
        out.append(val())
    return out


def run_model(tag, exprs, shard, timeout=1500, jobs=8, extra_imports=""):
    """like vlib.run_model_cases, for expressions of type MbiIoModel.cvalue"""
    import glob
    import subprocess
    import time
    d = os.path.join(vlib.COQ, "Cases")
    os.makedirs(d, exist_ok=True)
    for f in glob.glob(os.path.join(d, f"{tag}_*")) + glob.glob(os.path.join(d, f".{tag}_*")):
        os.remove(f)
    shards = [exprs[i:i + shard] for i in range(0, len(exprs), shard)]
    names = [f"{tag}_{k}" for k in range(len(shards))]
    for name, sh_ in zip(names, shards):
        with open(os.path.join(d, name + ".v"), "w") as f:
            f.write("From Coq Require Import ZArith NArith List Uint63.\nRequire Import Value Bytes MbiMixinModel GenMbi MbiModel MbiIoModel" + extra_imports + ".\n"
                    "Import ListNotations.\nSet Printing Width 2000000000.\nSet Printing Depth 2000000000.\n"
                    + "".join(f"Eval vm_compute in ({e_}).\n" for e_ in sh_))
    results = [None] * len(names)
    running, idx = {}, 0
    while idx < len(names) or running:
        while idx < len(names) and len(running) < jobs:
            n = names[idx]
            running[idx] = subprocess.Popen(
                f"ulimit -s unlimited 2>/dev/null; timeout {timeout} coqc -R . V -w -all Cases/{n}.v > Cases/{n}.out 2>&1",
                shell=True, cwd=vlib.COQ)
            idx += 1
        done = [i for i, p in running.items() if p.poll() is not None]
        if not done:
            time.sleep(0.05)
            continue
        for i in done:
            p = running.pop(i)
            out = open(os.path.join(d, names[i] + ".out")).read()
            if p.returncode != 0:
                raise RuntimeError(f"model evaluation failed ({names[i]}): {out[-2000:]}")
            results[i] = parse_cvalues(out)
    flat = []
    for r, sh_ in zip(results, shards):
        if len(r) != len(sh_):
            raise RuntimeError("model returned wrong number of results")
        flat += r
    for f in glob.glob(os.path.join(d, f"{tag}_*")) + glob.glob(os.path.join(d, f".{tag}_*")):
        os.remove(f)
    return flat


def unvalue(v):
    t, x = v
    if t == "l":
        return [unvalue(y) for y in x]
    if t == "b":
        return x.hex()
    if t == "e":
        return ["e", x]
    return x


def parsed_view(ob, ms):
    """impl observation -> comparable tuple in the model's field order (fields the class does not have are None)."""
    cb = ob.get("cert")
    if cb and "export" in cb:
        b = bytes.fromhex(cb["export"])
        cert = [1, b[:20].hex(), b[24:].hex(), cb["signature_size"]] if cb["kind"] == "CertBlockV1" else \
               [2, b.hex(), cb["signature_size"]]
    else:
        cert = []
    rel = ob.get("reloc")
    return {"app": ob.get("app"), "load": ob.get("load_address"), "imgver": ob.get("image_version"),
            "subtype": ob.get("image_subtype"), "fwver": ob.get("firmware_version"),
            "tz": ob.get("tz"), "hwkey": (1 if ob.get("hw_key") else 0) if "hw_key" in ob else None,
            "ks": ([] if ob.get("key_store") is None else [ob["key_store"]]) if "key_store" in ob else None,
            "hmac": ([] if ob.get("hmac_key") is None else [ob["hmac_key"]]) if "hmac_key" in ob else None,
            "iv": ob.get("ctr_iv"),
            "table": ([] if rel is None else [[[i, d, fl] for i, d, fl in rel]]) if "reloc" in ob else None,
            "cert": cert if "cert" in ob or "MixinCertBlockV1" in ms or "MixinCertBlockV21" in ms else None,
            "digest": DIGEST[(ob.get("manifest") or {}).get("digest")] if ob.get("manifest") else None}


def model_view(mv):
    keys = ["app", "load", "imgver", "subtype", "fwver", "tz", "hwkey", "ks", "hmac", "iv", "table", "cert", "digest"]
    return dict(zip(keys, mv))


# ------------------------------------------------------------------ spec oracles (independent of the Coq model)
def build_outcome(res):
    for st in ("config", "load", "export"):
        v = res.get(st)
        if v != "ok":
            return ("e", v[1] if v else 2, st, (v[2] if v and len(v) > 2 else ""))
    return ("ok",)


def kind_of(ms):
    if "ExportMixinAppTrustZoneCertBlockEncrypt" in ms:
        return "encrypted"
    if "ExportMixinAppTrustZoneCertBlock" in ms:
        return "signed-v1"
    if "ExportMixinAppCertBlockManifest" in ms:
        return "signed-v21"
    if "ExportMixinCrcSign" in ms:
        return "crc"
    if set(ms) & UNSUPPORTED:
        return "bca"
    return "plain"


def errtag(v):
    """exception class + first words of its message (digits dropped): part of the signature of a failing step"""
    if not isinstance(v, (list, tuple)) or len(v) < 3:
        return str(v)
    import re as _re
    txt = _re.sub(r"SPSDK:\s*", "", str(v[2]))
    cls_, _, msg = txt.partition(":")
    words = _re.sub(r"[^A-Za-z ]", " ", msg).split()[:4]
    return cls_.strip() + ("-" + "-".join(words) if words else "")


def diff_regions(a, b, kind):
    """where two images differ: names of the regions (part of the signature of a re-export difference)"""
    if len(a) != len(b):
        return "length"
    regs = set()
    for i in range(len(a)):
        if a[i] != b[i]:
            if 0x20 <= i < 0x24:
                regs.add("ivt20")
            elif 0x24 <= i < 0x28:
                regs.add("ivt24")
            elif 0x28 <= i < 0x2C:
                regs.add("ivt28")
            elif 0x34 <= i < 0x38:
                regs.add("ivt34")
            elif kind == "bca" and 0x3C0 <= i < 0x400:
                regs.add("bca")
            else:
                regs.add("other")
    return "+".join(sorted(regs))


def masked_pair(image, im2, sigs1, sigs2, ob, ms, manifest, isk_resigned):
    """the two images with every signature-dependent byte zeroed (signatures recorded at the signing call; when the ISK
    certificate was signed again -- ECDSA, randomised -- also the manifest CRC / digest derived from it)"""
    a, b = bytearray(image), bytearray(im2)
    if isk_resigned and manifest:
        if "MixinManifestCrc" in ms:
            mo = w32(image, 0x28) + len(bytes.fromhex(ob["cert"]["export"]))
            tl = w32(image, mo + 12)
            for t in (a, b):
                t[mo + tl - 4:mo + tl] = bytes(4)
        dgl = {"sha256": 32, "sha384": 48, "sha512": 64}.get((ob.get("manifest") or {}).get("digest"), 0)
        if dgl:
            for t in (a, b):
                t[len(t) - dgl:] = bytes(dgl)
    for src, tgt, sigs in ((image, a, sigs1), (im2, b, sigs2)):
        for _, s in sigs or []:
            s = bytes.fromhex(s)
            pos = bytes(src).rfind(s)
            if s and pos >= 0:
                tgt[pos:pos + len(s)] = bytes(len(s))
    return a, b


def looks_like_reloc_tail(b):
    return len(b) >= 16 and w32(b, len(b) - 16) == 0x4C54424C and w32(b, len(b) - 12) == 0


def oracle(case, res, db):
    """-> list of (signature, message); empty when the implementation satisfies the property on this case."""
    out = []
    if res.get("reused") and res.get("export") != "ok":
        if res.get("fresh") == "ok":
            out.append((f"history:export-fails[{errtag(res.get('export'))}]:reused-object",
                        f"export no. {case.get('export_no')} of a reused builder object fails ({res.get('export')}), a fresh object "
                        f"with the same settings exports {len(res.get('fresh_image', '')) // 2} bytes"))
        return out
    if build_outcome(res)[0] != "ok":
        bo = build_outcome(res)
        if bo[1] != 1:
            tag = ""
            if "MixinBcaObsolete" in short(res.get("mixins", [])) and len(pad4(bytes.fromhex(case["app"]))) < 0x860:
                tag = ":bca:vx-app-shorter-than-0x860"
            out.append((f"build:crash:{bo[2]}[{errtag(res.get(bo[2]))}]{tag}", f"builder raised a non-SPSDK exception in {bo[2]}: {bo[3]}"))
        return out
    ms = res["mixins_short"]
    kind = kind_of(ms)
    o = case.get("opts", {})
    ob = res["input"]
    image = bytes.fromhex(res["image"])
    app_in = bytes.fromhex(ob["app"])
    app_len = len(app_in)
    has_reloc = "MixinRelocTable" in ms
    table_in = ob.get("reloc")
    hmac_cls = bool(set(ms) & {"MixinHmac", "MixinHmacMandatory"})
    hmac_on = hmac_cls and ob.get("hmac_key")
    manifest = bool(set(ms) & {"MixinManifestCrc", "MixinManifestDigest"})
    # known input classes (see known_findings.d/c01.json)
    cls = []
    if has_reloc and table_in:
        cls.append("reloc-table-present")
    if has_reloc and not table_in and looks_like_reloc_tail(app_in):
        cls.append("reloc-like-tail")
    if hmac_on and res["app_len"] < 64:
        cls.append("hmac-class-app-shorter-than-64")
    if kind == "encrypted" and res["app_len"] == 64:
        cls.append("encrypted-app-len-64")
    if manifest and ob["tz"][0] == 0:
        cls.append("manifest-default-tz")
    if "MixinCertBlockV1" in ms and ob.get("tz", [2])[0] == 1:
        cls.append("certv1-custom-tz")
    if manifest and (ob.get("manifest") or {}).get("digest"):
        cls.append("digest-present")
    if kind == "bca" and "ExportMixinAppFcf" in ms:
        cls.append("appfcf-class")
    if kind == "bca" and "MixinFcfObsolete" in ms and (ob.get("lifecycle", 0xFF) or 0) != 0xFF and len(app_in) < 0x40D:
        cls.append("lifecycle-set-app-ends-before-fcf")
    if kind == "bca" and "MixinFcfObsolete" in ms and 0x3C0 < len(app_in) < 0x3D0:
        cls.append("app-ends-inside-bca")
    if kind == "bca" and "MixinBcaObsolete" in ms and len(app_in) < 0xC00:
        cls.append("vx-app-ends-inside-header")
    if kind == "bca" and "ExportMixinEccSignVx" in ms and not ob.get("add_hash", True):
        cls.append("vx-add-hash-false")
    if kind == "bca" and "MixinBca" in ms and w32(app_in, 0x24) & 0x3F != res["image_type"]:
        cls.append("no-ivt-type-bits")
    if kind == "bca" and "MixinFcfObsolete" in ms and ob.get("lifecycle") == 0xFF and \
            (app_in[0x40C] if len(app_in) > 0x40C else 0) not in (0xFF, 0xFE, 0x90, 0x95, 0x9B, 0x6B):
        cls.append("fcf-lifecycle-byte-not-in-enum")
    sel = res.get("parsed_mixins_short")
    if sel is None:
        # the documented selection rule: the first offer of the family with the image type found in the image
        f = db.fams[db.fidx[case["family"]]]
        ty = f["fixed_image_type"] if f["fixed_image_type"] >= 0 else res["image_type"]
        cn = next((cn for _, _, cn in f["offers"] if f["classes"][cn]["image_type"] == ty), None)
        if cn is not None and cn != res.get("class"):
            sel = short(f["classes"][cn]["mixins"])
            if sorted(sel) != sorted(ms):
                cls.append("image-type-ambiguity(" + "+".join(m for m in sorted(set(ms) ^ set(sel))) + ")")
            sel = None
    if sel is not None and sorted(sel) != sorted(ms) and res.get("parsed_class") != res.get("class"):
        cls.append("image-type-ambiguity(" + "+".join(m for m in sorted(set(ms) ^ set(sel))) + ")")
    if res.get("reused"):
        cls.append("reused-object")
    ctag = ",".join(cls) if cls else "general"

    def fail(what, msg):
        out.append((f"{what}:{kind}:{ctag}", msg))

    # ---- header words describe the bytes emitted
    if "MixinIvt" in ms or "MixinIvtZeroTotalLength" in ms:
        hdr = image
        want_len = 0 if "MixinIvtZeroTotalLength" in ms else len(image)
        if w32(hdr, 0x20) != want_len:
            fail("header:length", f"IVT word 0x20 = {w32(hdr, 0x20)}, emitted {len(image)} bytes")
        fl = w32(hdr, 0x24)
        if fl & 0x3F != res["image_type"]:
            fail("header:type", f"image type field {fl & 0x3F} != {res['image_type']}")
        if "tz" in ob and (fl >> 13) & 3 != ob["tz"][0]:
            fail("header:tz", f"TZ type field {(fl >> 13) & 3} != {ob['tz'][0]}")
        if "image_subtype" in ob and (fl >> 6) & 3 != ob["image_subtype"]:
            fail("header:subtype", f"sub-type field {(fl >> 6) & 3} != {ob['image_subtype']}")
        if "hw_key" in ob and bool(fl & 0x1000) != bool(ob["hw_key"]):
            fail("header:hwkey", "HW-key flag wrong")
        if "key_store" in ob and bool(fl & 0x8000) != bool(ob["key_store"]):
            fail("header:keystore", "key-store flag wrong")
        if "reloc" in ob and bool(fl & 0x800) != bool(table_in):
            fail("header:reloc", "relocation-table flag wrong")
        if "image_version" in ob:
            ver = ob["image_version"] or 0
            got = (fl >> 16) & 0xFFFF if fl & 0x400 else 0
            if got != ver:
                fail("header:version", f"image version field {got} != {ver}")
        la = ob.get("load_address") or 0
        if w32(hdr, 0x34) != la:
            fail("header:load", f"IVT word 0x34 = {w32(hdr, 0x34):#x}, load address {la:#x}")
        w28 = w32(hdr, 0x28)
        # what the *offer* promises (authentication type asked for), not what the class happens to be made of
        if case["auth"] == "plain" and w28 != 0:
            fail("header:crc-cert", f"plain image with word 0x28 = {w28:#x}")
        if case["auth"] == "crc" and kind != "crc":
            fail("header:crc-missing", "the class offered for authentication type CRC does not compute a CRC")
        if case["auth"] in ("signed", "nxp_signed", "encrypted") and kind not in ("signed-v1", "signed-v21", "encrypted", "bca"):
            fail("header:signature-missing", "the class offered for a signed authentication type has no certificate block / signature")
        if kind == "crc":
            want = crc32_mpeg(image[0x2C:], crc32_mpeg(image[:0x28]))
            if w28 != want:
                fail("header:crc", f"IVT word 0x28 = {w28:#x}, CRC-32/MPEG-2 of the other bytes = {want:#x}")
        if kind in ("signed-v1", "signed-v21", "encrypted"):
            cb = bytes.fromhex(ob["cert"]["export"])
            off = w28 + ((HMAC_SIZE + (KS_SIZE if ob.get("key_store") else 0)) if hmac_on else 0)
            if image[off:off + len(cb)] != cb:
                fail("header:cert-offset", f"no certificate block at the offset announced by IVT word 0x28 ({w28:#x})")
    # ---- BCA / FCF based layouts: the image is the application with every header field written at its offset
    if kind == "bca":
        want, bad = bca_expected(ob, ms, res, app_in)
        if want is None:
            fail("header:bca-field-outside-image", f"accepted, but the {bad} lies outside the {len(app_in)}-byte application "
                 f"(image {len(image)} bytes)")
        elif want != image:
            first = next((i for i in range(min(len(want), len(image))) if want[i] != image[i]), min(len(want), len(image)))
            fail("header:bca-layout", f"image differs from the application with its header fields written in place: lengths "
                 f"{len(image)}/{len(want)}, first difference at {first:#x}")
        if "ExportMixinEccSignVx" in ms and res.get("signed"):
            if bytes.fromhex(res["signed"][0][0]) != vx_signed_ranges(image):
                fail("header:vx-signed-range", "the bytes handed to the signature provider are not image[:0x360] + image[0x3C0:0x400] + image[0xC00:]")
    # ---- object reuse: the k-th export of one object = the export of a fresh object with the current settings
    if res.get("reused"):
        if res.get("fresh") != "ok":
            fail(f"history:fresh-fails[{errtag(res.get('fresh'))}]", f"the reused object exports, a fresh object with the same settings does not: {res.get('fresh')}")
            return out
        im2 = bytes.fromhex(res["fresh_image"])
        isk = (ob.get("cert") or {}).get("isk_signature")
        sigs1 = list(res.get("signed") or []) + ([["", isk]] if isk else [])
        a, b = masked_pair(image, im2, sigs1, res.get("fresh_signed") or [], ob, ms, manifest, bool(isk))
        if bytes(a) != bytes(b):
            n = sum(1 for i in range(min(len(a), len(b))) if a[i] != b[i])
            first = next((i for i in range(min(len(a), len(b))) if a[i] != b[i]), min(len(a), len(b)))
            fail(f"history:differs[{diff_regions(bytes(a), bytes(b), kind)}]",
                 f"export no. {case.get('export_no')} of a reused builder object (after {case.get('changed')}) differs from the export of a fresh "
                 f"object with the same settings: lengths {len(a)}/{len(b)}, {n} bytes, first at {first:#x}")
        if res.get("fresh_input") is not None and {k: v for k, v in res["fresh_input"].items() if k not in ("cert", "manifest")} != \
                {k: v for k, v in ob.items() if k not in ("cert", "manifest")}:
            fail("history:settings-differ", "the settings read from the reused object differ from those of the fresh object")
        return out
    # ---- parse(export(x)) = x
    if res.get("parse") != "ok":
        fail(f"roundtrip:parse-fails[{errtag(res.get('parse'))}]", f"SPSDK cannot parse its own export: {res.get('parse')}")
        return out
    if res.get("observe") != "ok":
        fail("roundtrip:parsed-object-broken", f"parsed object cannot be read: {res.get('observe')}")
        return out
    p = res["parsed"]
    app_out = bytes.fromhex(p["app"] or "")
    if kind == "bca":
        if app_out != pad4(image):
            fail("roundtrip:app-not-image", "the application of the parsed object is not the image")
        if ob.get("just_header"):
            pass                      # header-only image (justHeader): the application is not in the image by design
        elif app_out[0xC00:] != app_in[0xC00:] or len(app_out) != len(app_in):
            fail("roundtrip:app", "application data behind the header area differs after parse")
        for key in ("bca", "fcf"):
            if key in ob and key in p and p[key] != ob[key]:
                fail(f"roundtrip:{key}", f"{key.upper()} area differs after parse")
    elif outside_ivt(app_out) != outside_ivt(app_in):
        fail("roundtrip:app", f"application differs after parse outside the IVT words ({len(app_in)} -> {len(app_out)} bytes)")
    for name, key in (("load-address", "load_address"), ("image-version", "image_version"), ("subtype", "image_subtype"),
                      ("firmware-version", "firmware_version"), ("hw-key", "hw_key"), ("key-store", "key_store"),
                      ("ctr-iv", "ctr_iv"), ("tz", "tz"), ("lifecycle", "lifecycle")):
        if key == "lifecycle" and ob.get(key) == 0xFF:
            continue                  # NOT_SET: "keep what the application says", not a setting of its own
        if key in ob:
            if key not in p:
                fail(f"roundtrip:{name}-lost", f"setting {key} = {ob[key]!r} is not recovered by parse (parsed with class {res.get('parsed_class')})")
            elif (p[key] or 0) != (ob[key] or 0) if key != "tz" else p[key] != ob[key]:
                fail(f"roundtrip:{name}", f"setting {key}: {str(ob[key])[:40]!r} -> {str(p[key])[:40]!r}")
    if "reloc" in ob and (p.get("reloc") or None) != (table_in or None):
        fail("roundtrip:reloc", f"relocation table {len(table_in or [])} entries -> {p.get('reloc') if p.get('reloc') is None else len(p['reloc'])}")
    if "cert" in ob and "export" in ob["cert"]:
        a, b = bytes.fromhex(ob["cert"]["export"]), bytes.fromhex((p.get("cert") or {}).get("export", ""))
        if ob["cert"]["kind"] == "CertBlockV1":
            a, b = a[:20] + a[24:], b[:20] + b[24:]
        if a != b:
            fail("roundtrip:cert", "certificate block differs after parse")
    if manifest and (p.get("manifest") or {}).get("digest") != (ob.get("manifest") or {}).get("digest"):
        fail("roundtrip:digest", "manifest digest algorithm differs after parse")
    # ---- re-export reproduces every byte outside the signature
    if kind == "bca" and ob.get("just_header"):
        return out
    if res.get("create_config") != "ok":
        fail(f"create_config:fails[{errtag(res.get('create_config'))}]", f"create_config of the parsed image fails: {res.get('create_config')}")
        return out
    for step, key in (("reexport", "image2"), ("reexport_direct", "image3")):
        if res.get(step) != "ok":
            fail(f"{step}:fails[{errtag(res.get(step))}]", f"the parsed image cannot be exported again: {res.get(step)}")
            continue
        im2 = bytes.fromhex(res[key])
        isk = (ob.get("cert") or {}).get("isk_signature")
        sigs1 = list(res.get("signed") or []) + ([["", isk]] if isk else [])
        sigs2 = list(res.get("signed2" if key == "image2" else "signed3") or []) + ([["", isk]] if isk and key == "image3" else [])
        a, b = masked_pair(image, im2, sigs1, sigs2, ob, ms, manifest, isk and key == "image2")
        if kind == "bca" and "ExportMixinEccSignVx" in ms and isk and key == "image2" and ob.get("add_hash", True):
            for t_ in (a, b):         # hash of the ISK certificate, which was signed again (ECDSA, randomised)
                if len(t_) >= 0x4B0:
                    t_[0x4A0:0x4B0] = bytes(16)
        if bytes(a) != bytes(b):
            n = sum(1 for i in range(min(len(a), len(b))) if a[i] != b[i])
            first = next((i for i in range(min(len(a), len(b))) if a[i] != b[i]), min(len(a), len(b)))
            fail(f"{step}:differs[{diff_regions(bytes(a), bytes(b), kind)}]", f"re-exported image differs outside the signature: lengths {len(a)}/{len(b)}, {n} bytes, first at {first:#x}")
    if res.get("schema2") not in (None, "ok"):
        m = __import__("re").search(r"data\.(\w+)", str(res["schema2"])) or __import__("re").search(r"Missing field\(s\): (\w+)", str(res["schema2"]))
        fail(f"create_config:schema-rejects({m.group(1) if m else '?'})",
             f"configuration written by create_config is refused by the schema: {res['schema2']}")
    return out


# ------------------------------------------------------------------ BCA / FCF based classes: model side
def bca_expr(case, res, c, db):
    """io_bca expression of one case (settings as observed on the loaded object; primitives computed on the spec side)"""
    f = db.fams[db.fidx[case["family"]]]
    if build_outcome(res)[0] == "ok":
        ob = res["input"]
        image = bytes.fromhex(res["image"])
    else:
        # export refused / crashed: the object could still be observed? no -- settings from the case
        o = case["opts"]
        ob = {"app": pad4(bytes.fromhex(case["app"])).hex(), "lifecycle": LIFECYCLES.get(o.get("lifecycle") or "NOT_SET"),
              "firmware_version": o.get("firmware_version") or 0, "add_hash": o.get("add_cert_hash", True),
              "just_header": bool(o.get("just_header")), "bca": None, "fcf": None}
        if o.get("cert"):
            ob["cert"] = {"export": "00" * 136, "cert_hash": "00" * 16}
        image = b""
    sig = bytes.fromhex(res["signed"][0][1]) if res.get("signed") else b""
    dts = bytes.fromhex(res["signed"][0][0]) if res.get("signed") else b""
    kv = VL([VB(sig), VB(hashlib.sha256(dts).digest())])
    pcv, pv = VL([]), VL([])
    if res.get("parsed_class") or (res.get("parse") not in (None, "ok") and "Unsupported MBI type" not in str(res.get("parse"))):
        # the class the documented rule selects (the implementation's own choice when it got that far)
        pcn = res.get("parsed_class")
        if pcn is None:
            ty = f["fixed_image_type"] if f["fixed_image_type"] >= 0 else w32(image, 0x24) & 0x3F
            pcn = next((cn for _, _, cn in f["offers"] if f["classes"][cn]["image_type"] == ty), None)
        if pcn is not None and not supported(f["classes"][pcn]):
            pcv = class_value(f["classes"][pcn])
            bca_area = image[0x3C0:0x400]
            pv = VL([VI(1 if p256_on_curve(image[0x418:0x458]) else 0),
                     VL([VB(bca_area)]) if len(bca_area) == 64 and bca_area[:4] == b"kcfg" else VL([]),
                     VB(image[0x400:0x410]), VB(hashlib.sha256(image[0x410:0x498]).digest()[:16])])
    return (f"io_bca ({db.fidx[case['family']]}) ({lit(class_value(c))}) ({lit(bx_value(ob))}) ({lit(kv)}) "
            f"({lit(pcv)}) ({lit(pv)})")


def bca_correspondence(bexprs, bplan, cases, results, db, stats):
    if not bexprs:
        return 0, []
    mres = run_model("c01bca", bexprs, shard=max(4, len(bexprs) // 8 + 1), timeout=900, jobs=8,
                     extra_imports=" MbiBcaModel MbiBcaIoModel")
    nb, msgs = 0, []
    for idx, mv0 in zip(bplan, mres):
        stream, case = cases[idx]
        res = results[idx]
        bads = []
        bo = build_outcome(res)
        if mv0[0] != "l":
            bads.append(f"model value {str(unvalue(mv0))[:80]}")
            parts = []
        else:
            parts = list(zip(("export", "lens", "select", "parse"), mv0[1]))
        for what, mv in parts:
            if what == "export":
                if bo[0] == "ok":
                    img = bytes.fromhex(res["image"])
                    if mv != ("b", img):
                        if mv[0] == "b":
                            first = next((i for i in range(min(len(mv[1]), len(img))) if mv[1][i] != img[i]), min(len(mv[1]), len(img)))
                            bads.append(f"export differs: model {len(mv[1])} B, impl {len(img)} B, first difference at {first:#x}")
                        else:
                            bads.append(f"export: model {mv}, impl ok")
                elif mv != ("e", bo[1]):
                    bads.append(f"rejection: impl error kind {bo[1]} at {bo[2]} ({bo[3][:80]}), model {str(unvalue(mv))[:60]}")
            elif what == "lens" and bo[0] == "ok":
                if mv[0] != "l" or [x[1] for x in mv[1][:2]] != [res["total_len"], res["app_len"]]:
                    bads.append(f"total_len/app_len: model {unvalue(mv)}, impl {[res['total_len'], res['app_len']]}")
            elif what == "select":
                f = db.fams[db.fidx[case["family"]]]
                if res.get("parsed_class"):
                    want = next(([regen_c01.TARGETS.index(t), regen_c01.AUTHS.index(a)] for t, a, cn in f["offers"]
                                 if cn == res["parsed_class"]), None)
                    if mv[0] != "l" or [x[1] for x in mv[1][:2]] != want:
                        bads.append(f"class selection: model {unvalue(mv)}, impl {res['parsed_class']}")
                elif res.get("parse") != "ok" and "Unsupported MBI type" in str(res.get("parse")) and mv[0] != "e":
                    bads.append(f"class selection: model {unvalue(mv)}, impl finds no class")
            elif what == "parse":
                if mv == ("l", []):
                    continue
                if res.get("parse") != "ok":
                    k = res["parse"][1]
                    if mv != ("e", k):
                        bads.append(f"parse: impl error kind {k} ({res['parse'][2] if len(res['parse']) > 2 else ''}), model {str(unvalue(mv))[:80]}")
                elif mv[0] == "e":
                    bads.append(f"parse: impl ok, model error {mv[1]}")
                elif res.get("observe") == "ok":
                    m = unvalue(mv)
                    p = res["parsed"]
                    mm = {"app": m[0], "lifecycle": m[1], "firmware_version": m[2],
                          "cert": (m[3][0] if m[3] else None), "bca": (m[6][0] if m[6] else None),
                          "fcf": (m[7][0] if m[7] else None)}
                    mm["add_hash"], mm["just_header"] = bool(m[4]), bool(m[5])
                    pp = {k: p[k] for k in ("app", "lifecycle", "firmware_version", "bca", "fcf", "add_hash", "just_header") if k in p}
                    if "cert" in p:
                        pp["cert"] = p["cert"].get("export")
                    dfs = [k for k, v in pp.items() if mm[k] != v]
                    if dfs:
                        bads.append(f"parse result differs in {dfs}")
                    stats[stream]["parsed"] += 1
        for bad in bads:
            nb += 1
            msgs.append(f"[{case['family']} {case['target']}/{case['auth']} app {len(case['app']) // 2} B "
                        f"{ {k: (v if not isinstance(v, (str, list)) or len(str(v)) < 30 else '...') for k, v in case['opts'].items()} }]: {bad}")
    return nb, msgs


# ------------------------------------------------------------------ main
def clean_work():
    """remove the scratch data of a run (proposed_fix_*.diff files written for the lead are kept)"""
    import glob
    for f in glob.glob(os.path.join(WORKDIR, f"impl{os.getpid()}_*")) + glob.glob(os.path.join(WORKDIR, "dump.json")):
        shutil.rmtree(f, ignore_errors=True) if os.path.isdir(f) else os.remove(f)


def short(names):
    return [n[len("Mbi_"):] for n in names]


def same_parse(pv, mv, ms):
    """compare model parse record with the implementation's observation; returns list of differing fields"""
    diffs = []
    for k, v in pv.items():
        if v is None:
            continue
        m = mv[k]
        if k == "tz":
            if [m[0], m[1]] != [v[0], v[1]]:
                diffs.append(k)
        elif k == "cert":
            if m != v:
                diffs.append(k)
        elif m != v:
            diffs.append(k)
    return diffs


def run(tier):
    rep = vlib.Report(PID, tier)
    rng = vlib.Rng(vlib.seed())
    os.makedirs(WORKDIR, exist_ok=True)
    clean_work()
    d = None
    try:
        d = regen_c01.regen()
        rep.obligation("translate:device database + mbi_mixin classes -> Gen/GenMbi.v", True)
    except Exception as ex:  # noqa
        rep.obligation("translate:device database + mbi_mixin classes -> Gen/GenMbi.v", False, repr(ex))
    model_ok, mlog = vlib.coq_make(["Model/MbiIoModel.vo"])
    bca_model_ok, bmlog = vlib.coq_make(["Model/MbiBcaIoModel.vo"]) if model_ok else (False, mlog)
    vlib.check_theorems(rep, PID, THEOREMS, ["Proofs/MbiProofs.vo", "Proofs/MbiRtProofs.vo", "Proofs/MbiKindsProofs.vo", "Proofs/MbiEncProofs.vo", "Proofs/MbiHistProofs.vo", "Proofs/MbiSweepProofs.vo", "Proofs/MbiBcaProofs.vo"])
    vlib.audit(rep)
    if d is None:
        try:
            d = json.load(open(os.path.join(vlib.VERIF, "tools", "props", "c01.dump.json")))
        except Exception:  # noqa
            return rep.finish(rule="", trusted_base=[], checker_cmd="", assumptions=[])
    db = Db(d)
    cases = gen_cases(tier, rng, db) + gen_histories(tier, rng, db)
    vlib.log(f"[C01] {len(cases)} cases over {len(db.comps)} compositions / {len(db.fams)} families")
    # ---- implementation
    CH = 60
    chunks = [cases[i:i + CH] for i in range(0, len(cases), CH)]
    from concurrent.futures import ThreadPoolExecutor

    def run_chunk(ic):
        i, ch = ic
        return vlib.run_impl("c01_impl.py", {"repo": vlib.REPO, "work": os.path.join(WORKDIR, f"impl{os.getpid()}_{i}"),
                                             "cases": [c for _, c in ch]}, timeout=3000)["results"]
    t_impl = __import__("time").time()
    with ThreadPoolExecutor(max_workers=8) as ex:
        results = [r for rs in ex.map(run_chunk, enumerate(chunks)) for r in rs]
    vlib.log(f"[C01] implementation ran {len(results)} cases in {__import__('time').time() - t_impl:.1f} s")
    # ---- object-reuse histories: every export of a history becomes a case of its own (settings = those current at that export)
    for idx in range(len(cases)):
        stream, case = cases[idx]
        if "history" not in case:
            continue
        res = results[idx]
        cur, k, changed = (case["app"], case["opts"]), 0, []
        if res.get("load") != "ok":
            rep.failing("history:load-fails", f"{case['family']} {case['target']}/{case['auth']}: history start settings rejected: {res.get('load')}",
                        {"kind": "impl-oracle", "case": case, "signature": "history:load-fails"})
        for op, e in zip(case["history"], res.get("history") or []):
            if op[0] == "set":
                cur = (op[2], op[3])
                changed.append(op[1])
                if e.get("set") != "ok":
                    rep.failing(f"history:set-fails[{op[1]}]", f"{case['family']} {case['target']}/{case['auth']}: fresh object for the changed member {op[1]} cannot be built: {e.get('set')}",
                                {"kind": "impl-oracle", "case": case, "signature": f"history:set-fails[{op[1]}]"})
                    break
                continue
            k += 1
            sub = {"family": case["family"], "target": case["target"], "auth": case["auth"], "app": cur[0], "opts": cur[1],
                   "export_no": k, "changed": "+".join(changed) or "nothing", "history_case": case}
            r = dict(e)
            r.update({"config": "ok", "load": "ok", "reused": True, "class": res.get("class"), "mixins": res.get("mixins", []),
                      "image_type": res.get("image_type")})
            cases.append((stream, sub))
            results.append(r)
    # ---- oracles + model expressions
    exprs, plan = [], []
    bexprs, bplan = [], []
    stats = {}
    for idx, ((stream, case), res) in enumerate(zip(cases, results)):
        if "history" in case:
            st = stats.setdefault(stream, {"n": 0, "built": 0, "parsed": 0, "distinct": set(), "samples": []})
            st["n"] += 1
            if len(st["samples"]) < 3:
                st["samples"].append({"family": case["family"], "target": case["target"], "auth": case["auth"],
                                      "ops": [op[0] if op[0] == "export" else "set " + op[1] for op in case["history"]]})
            continue
        res["mixins_short"] = short(res.get("mixins", []))
        _, c = db.offer_class(case["family"], case["target"], case["auth"])
        if res.get("parsed_class"):
            f = db.fams[db.fidx[case["family"]]]
            res["parsed_mixins_short"] = short(f["classes"][res["parsed_class"]]["mixins"])
        for sig, msg in oracle(case, res, db):
            if os.environ.get("C01_DEBUG_SIGS"):
                vlib.log(f"  SIG {sig}")
            rep.failing(sig, f"{case['family']} {case['target']}/{case['auth']} app {len(case['app']) // 2} B: {msg}",
                        {"kind": "impl-oracle", "case": case.get("history_case", case), "export_no": case.get("export_no"),
                         "class": res.get("class"), "signature": sig,
                         "steps": {k: res.get(k) for k in ("load", "export", "parse", "observe", "create_config",
                                                           "reexport", "reexport_direct")}})
        st = stats.setdefault(stream, {"n": 0, "built": 0, "parsed": 0, "distinct": set(), "samples": []})
        st["n"] += 0 if res.get("reused") else 1
        if res.get("reused") and res.get("export") != "ok":
            continue
        if len(st["samples"]) < 3 and not res.get("reused"):
            st["samples"].append({"family": case["family"], "target": case["target"], "auth": case["auth"],
                                  "app_len": len(case["app"]) // 2, "opts": {k: (v if not isinstance(v, str) or len(v) < 40 else v[:16] + "...") for k, v in case["opts"].items() if k not in ("tz", "reloc")}})
        if not supported(c) or not model_ok:
            if build_outcome(res)[0] == "ok":
                st["built"] += 1
                st["distinct"].add((res["class"], len(res["image"]), json.dumps(case["opts"], sort_keys=True)[:120]))
            if not supported(c) and bca_model_ok and res.get("load") == "ok":
                bexprs.append(bca_expr(case, res, c, db))
                bplan.append(idx)
            continue
        bo = build_outcome(res)
        if bo[0] == "ok":
            st["built"] += 1
            st["distinct"].add((db.comp_index(c), len(res["image"]), json.dumps(case["opts"], sort_keys=True)[:200]))
            cv = class_value(c)
            kv = crypto_value(case, res)
            f = db.fams[db.fidx[case["family"]]]
            pcv, sigsz, dekv = VL([]), 0, VL([])
            if res.get("parsed_class"):
                pc = f["classes"][res["parsed_class"]]
                if supported(pc):
                    pcv = class_value(pc)
                    sigsz = (res["input"].get("cert") or {}).get("signature_size") or 0
                    dek = res["input"].get("hmac_key") if case.get("dek", True) else None
                    dekv = VL([]) if not dek else VL([VB(bytes.fromhex(dek))])
            exprs.append(f"io_all ({db.fidx[case['family']]}) ({lit(cv)}) ({lit(mbi_value(res['input']))}) ({lit(kv)}) "
                         f"({lit(pcv)}) {f['tz_size']} {sigsz} ({lit(dekv)})")
            plan.append((idx, "all"))
        else:
            # rejected at build time: the model must reject as well (no crypto needed)
            app = pad4(bytes.fromhex(case["app"]))
            o = case["opts"]
            ob = {"app": app.hex(), "load_address": o.get("load_address") if isinstance(o.get("load_address"), int) else 0,
                  "tz": [{"disabled": 2, "default": 0, "custom": 1}[o["tz"][0]], o["tz"][1] if len(o["tz"]) > 1 else ""] if o.get("tz") else [0, ""],
                  "hmac_key": o.get("hmac_key"), "key_store": o.get("key_store"), "ctr_iv": o.get("ctr_iv") or "00" * 16,
                  "cert": None}
            if "MixinCertBlockV1" in res["mixins_short"] or "MixinCertBlockV1" in mixset(c):
                ob["cert"] = {"export": "00" * 64, "kind": "CertBlockV1", "signature_size": 256}
            elif "MixinCertBlockV21" in mixset(c):
                ob["cert"] = {"export": "00" * 64, "kind": "CertBlockV21", "signature_size": 64}
            exprs.append(f"io_case 1 [{lit(class_value(c))}; {lit(mbi_value(ob))}; "
                         f"{lit(VL([VB(b''), VB(b''), VB(b''), VB(b'')]))}]")
            plan.append((idx, "reject"))
    # ---- model
    ndis = 0
    dis_streams = set()
    if model_ok:
        try:
            t_model = __import__("time").time()
            mres = run_model("c01", exprs, shard=max(10, min(60, len(exprs) // 16 + 1)), timeout=1500, jobs=8)
            vlib.log(f"[C01] model evaluated {len(exprs)} expressions in {__import__('time').time() - t_model:.1f} s")
            for (idx, what), mv0 in zip(plan, mres):
                stream, case = cases[idx]
                res = results[idx]
                bads = []
                parts = [(what, mv0)] if what == "reject" else list(zip(("export", "lens", "select", "parse"), mv0[1]))
                for what, mv in parts:
                    bad = None
                    if what == "export":
                        if mv != ("b", bytes.fromhex(res["image"])):
                            img = bytes.fromhex(res["image"])
                            if mv[0] == "b":
                                got = mv[1]
                                first = next((i for i in range(min(len(got), len(img))) if got[i] != img[i]), min(len(got), len(img)))
                                bad = f"export differs: model {len(got)} B, impl {len(img)} B, first difference at {first:#x}"
                            else:
                                bad = f"export: model {mv}, impl ok"
                    elif what == "lens":
                        if mv[0] != "l" or [x[1] for x in mv[1][:2]] != [res["total_len"], res["app_len"]]:
                            bad = f"total_len/app_len: model {unvalue(mv)}, impl {[res['total_len'], res['app_len']]}"
                    elif what == "select":
                        f = db.fams[db.fidx[case["family"]]]
                        if res.get("parsed_class"):
                            want = next(([regen_c01.TARGETS.index(t), regen_c01.AUTHS.index(a)] for t, a, cn in f["offers"]
                                         if cn == res["parsed_class"]), None)
                            if mv[0] != "l" or [x[1] for x in mv[1][:2]] != want:
                                bad = f"class selection: model {unvalue(mv)}, impl {res['parsed_class']}"
                        elif mv[0] != "e" and res.get("parse") != "ok" and "Unsupported MBI type" in str(res.get("parse")):
                            bad = f"class selection: model {unvalue(mv)}, impl finds no class"
                    elif what == "parse":
                        if mv == ("l", []):
                            continue
                        if res.get("parse") != "ok":
                            k = res["parse"][1]
                            if mv != ("e", k):
                                bad = f"parse: impl error kind {k} ({res['parse'][2] if len(res['parse']) > 2 else ''}), model {str(unvalue(mv))[:80]}"
                        elif mv[0] == "e":
                            bad = f"parse: impl ok, model error {mv[1]}"
                        elif res.get("observe") == "ok":
                            pm = res.get("parsed_mixins_short", [])
                            dfs = same_parse(parsed_view(res["parsed"], pm), model_view(unvalue(mv)), pm)
                            if dfs:
                                bad = f"parse result differs in {dfs}"
                        if res.get("parse") == "ok":
                            stats[stream]["parsed"] += 1
                    elif what == "reject":
                        k = build_outcome(res)[1]
                        if mv != ("e", k):
                            bad = f"rejection: impl error kind {k} at {build_outcome(res)[2]} ({build_outcome(res)[3][:80]}), model {str(unvalue(mv))[:60]}"
                    if bad:
                        bads.append(bad)
                for bad in bads:
                    ndis += 1
                    dis_streams.add(stream)
                    if ndis <= int(os.environ.get('C01_DEBUG', '8')):
                        vlib.log(f"  disagreement [{case['family']} {case['target']}/{case['auth']} app {len(case['app']) // 2} B "
                                 f"{ {k: (v if not isinstance(v, (str, list)) or len(str(v)) < 30 else '...') for k, v in case['opts'].items()} }]: {bad}")
            rep.obligation("correspondence:model=implementation (export bytes, lengths, class selection, parse result, rejections)",
                           ndis == 0, f"{ndis} disagreements in streams {sorted(dis_streams)}" if ndis else "")
        except Exception as ex:  # noqa
            rep.obligation("correspondence:model evaluation", False, repr(ex)[-1500:])
    else:
        rep.obligation("correspondence:model builds", False, mlog[-1500:])
    if bca_model_ok:
        try:
            nb, msgs = bca_correspondence(bexprs, bplan, cases, results, db, stats)
            for m_ in msgs[:int(os.environ.get('C01_DEBUG', '8'))]:
                vlib.log("  disagreement " + m_)
            rep.obligation("correspondence:BCA/FCF model=implementation (export bytes, lengths, class selection, parse result, rejections)",
                           nb == 0, f"{nb} disagreements" if nb else "")
        except Exception as ex:  # noqa
            rep.obligation("correspondence:BCA/FCF model evaluation", False, repr(ex)[-1500:])
    else:
        rep.obligation("correspondence:BCA/FCF model builds", False, bmlog[-1500:])
    for name, st in stats.items():
        rep.add_stream(name, st["n"], len(st["distinct"]), samples=st["samples"], exhaustive=False,
                       extra={"built": st["built"], "parsed_back": st["parsed"]})
    clean_work()
    return rep.finish(
        rule="quick: one (family, class) per distinct mixin composition, thorough: every (family, offer) of the database; payload "
             "lengths cover every residue mod 4 and mod 16 and the 512-byte boundaries up to 2 KiB; options drawn from VERIF_SEED; "
             "distinct_nontrivial counts distinct (composition, image length, option set) triples the builder accepted",
        trusted_base=["Coq 8.16.1 kernel + vm_compute", "tools/regen_c01.py (database / class extraction through the SPSDK API)",
                      "hand models Model/MbiModel.v and Model/MbiBcaModel.v (BCA/FCF families) tied by correspondence",
                      "primitive outputs (signature, HMAC, AES-CTR key stream, digest) are inputs of the model: C02/C09",
                      "certificate blocks are byte strings with a length: C03", "CPython semantics of the untranslated code"],
        checker_cmd="coqc -R . V Props/C01/*.v (after make Proofs/MbiProofs.vo Proofs/MbiRtProofs.vo Proofs/MbiKindsProofs.vo Proofs/MbiEncProofs.vo Proofs/MbiHistProofs.vo Proofs/MbiSweepProofs.vo Proofs/MbiBcaProofs.vo)",
        assumptions=["latest revision of every family", "application given as a raw binary file (ELF/S19/HEX loading is C16)",
                     "BCA/FCF based families: BCA / FCF register areas (mcxc) and the ISK public key check (Vx) are inputs of the model (C11/C12, C03/C08)",
                     "X.509 / certificate block content is opaque (length and header words only)"])


if __name__ == "__main__":
    sys.exit(run(sys.argv[1] if len(sys.argv) > 1 else "quick"))
