"""C03 -- Root-of-trust hash and certificate blocks are a pure function of the root keys (DESIGN.md section 3, C03)."""
import hashlib
import itertools
import json
import os
import shutil
import sys

sys.path.insert(0, os.path.dirname(os.path.dirname(os.path.abspath(__file__))))
import vlib
from vlib import VI, VB, VL
import regen_c03

PID = "C03"
THEOREMS = ["paths_agree_v1", "paths_agree_v21", "independent_of_signer", "independent_of_supply",
            "dc_rsa_needs_three_byte_exponent", "leading_zero_safe", "raw_key_roundtrip",
            "certblock_v1_roundtrip", "ahab_v2_rsa_accepted",
            "certblock_v21_roundtrip", "certblock_v21_heuristic_refuted", "certblock_v21_family_data_safe",
            "isk_signed_range", "flags_describe", "ahab_supply_dependence_refuted", "ahab_except_known",
            "hab_fuses_spec", "db_rot_types_known"]
WORK = os.path.join(vlib.WORK, PID)
HERE = os.path.dirname(os.path.abspath(__file__))

# ------------------------------------------------------------------------------------------------ elliptic curves
# NIST curves written from FIPS 186-4 (independent of `cryptography`): y^2 = x^3 - 3x + b over GF(p), base point G of order n
CURVES = {
    256: dict(p=2**256 - 2**224 + 2**192 + 2**96 - 1,
              b=0x5AC635D8AA3A93E7B3EBBD55769886BC651D06B0CC53B0F63BCE3C3E27D2604B,
              gx=0x6B17D1F2E12C4247F8BCE6E563A440F277037D812DEB33A0F4A13945D898C296,
              gy=0x4FE342E2FE1A7F9B8EE7EB4A7C0F9E162BCE33576B315ECECBB6406837BF51F5,
              n=0xFFFFFFFF00000000FFFFFFFFFFFFFFFFBCE6FAADA7179E84F3B9CAC2FC632551),
    384: dict(p=2**384 - 2**128 - 2**96 + 2**32 - 1,
              b=0xB3312FA7E23EE7E4988E056BE3F82D19181D9C6EFE8141120314088F5013875AC656398D8A2ED19D2A85C8EDD3EC2AEF,
              gx=0xAA87CA22BE8B05378EB1C71EF320AD746E1D3B628BA79B9859F741E082542A385502F25DBF55296C3A545E3872760AB7,
              gy=0x3617DE4A96262C6F5D9E98BF9292DC29F8F41DBD289A147CE9DA3113B5F0B8C00A60B1CE1D7E819D7A431D7C90EA0E5F,
              n=0xFFFFFFFFFFFFFFFFFFFFFFFFFFFFFFFFFFFFFFFFFFFFFFFFC7634D81F4372DDF581A0DB248B0A77AECEC196ACCC52973),
    521: dict(p=2**521 - 1,
              b=0x0051953EB9618E1C9A1F929A21A0B68540EEA2DA725B99B315F3B8B489918EF109E156193951EC7E937B1652C0BD3BB1BF073573DF883D2C34F1EF451FD46B503F00,
              gx=0x00C6858E06B70404E9CD9E3ECB662395B4429C648139053FB521F828AF606B4D3DBAA14B5E77EFE75928FE1DC127A2FFA8DE3348B3C1856A429BF97E7E31C2E5BD66,
              gy=0x011839296A789A3BC0045C8A5FB42C7D1BD998F54449579B446817AFBD17273E662C97EE72995EF42640C550B9013FAD0761353C7086A272C24088BE94769FD16650,
              n=int('1' + 'F' * 65 + 'A51868783BF2F966B7FCC0148F709A5D03BB5C9B8899C47AEBB6FB71E91386409', 16)),
}


def ec_add(c, P, Q):
    p = CURVES[c]["p"]
    if P is None:
        return Q
    if Q is None:
        return P
    (x1, y1), (x2, y2) = P, Q
    if x1 == x2:
        if (y1 + y2) % p == 0:
            return None
        lam = (3 * x1 * x1 - 3) * pow(2 * y1, -1, p) % p
    else:
        lam = (y2 - y1) * pow(x2 - x1, -1, p) % p
    x3 = (lam * lam - x1 - x2) % p
    return x3, (lam * (x1 - x3) - y1) % p


def ec_mul(c, k, P):
    R = None
    while k:
        if k & 1:
            R = ec_add(c, R, P)
        P = ec_add(c, P, P)
        k >>= 1
    return R


def ec_pub(c, d):
    return ec_mul(c, d, (CURVES[c]["gx"], CURVES[c]["gy"]))


def ecdsa_verify(c, pub, msg, sig_raw):
    """Plain ECDSA verification (FIPS 186-4 6.4) of r||s over SHA-256/384/512 of msg."""
    n = CURVES[c]["n"]
    h = {256: hashlib.sha256, 384: hashlib.sha384, 521: hashlib.sha512}[c](msg).digest()
    half = len(sig_raw) // 2
    r, s = int.from_bytes(sig_raw[:half], "big"), int.from_bytes(sig_raw[half:], "big")
    if not (0 < r < n and 0 < s < n):
        return False
    e = int.from_bytes(h, "big")
    if len(h) * 8 > n.bit_length():
        e >>= len(h) * 8 - n.bit_length()
    w = pow(s, -1, n)
    X = ec_add(c, ec_mul(c, e * w % n, (CURVES[c]["gx"], CURVES[c]["gy"])), ec_mul(c, r * w % n, pub))
    return X is not None and X[0] % n == r


# ------------------------------------------------------------------------------------------------ keys
def cs_of(c):
    return (c + 7) // 8


def make_keys(rng, thorough):
    """RSA keys from the fixed test pool, ECC keys fresh from the seed (with a search for leading-zero coordinates)."""
    pool = json.load(open(os.path.join(HERE, "c03.keys.json")))["rsa"]
    keys, pub = {}, {}
    for i, k in enumerate(pool):
        kid = f"r{k['bits']}e{k['e']}_{i}"
        keys[kid] = dict(k, k="rsa")
        pub[kid] = ("rsa", int(k["n"], 16), k["e"])
    for c in (256, 384, 521):
        G = (CURVES[c]["gx"], CURVES[c]["gy"])
        n = CURVES[c]["n"]
        cs = cs_of(c)
        lim = 1 << (8 * (cs - 1))
        if c == 521:
            lim = 1 << 512          # top TWO bytes zero (the first byte of a P-521 coordinate holds one bit only)
        want = {"plain": 4 if not thorough else 6, "zx": 2, "zy": 1}
        d = rng.randrange(2, n - 1)
        Q = ec_mul(c, d, G)
        tries = 0
        while any(want.values()) and tries < 4000:
            tries += 1
            kind = "zx" if Q[0] < lim else ("zy" if Q[1] < lim else "plain")
            if want.get(kind):
                want[kind] -= 1
                kid = f"p{c}{kind}_{want[kind]}"
                keys[kid] = {"k": "ecc", "c": c, "d": hex(d)}
                pub[kid] = ("ecc", c, Q[0], Q[1])
                d = rng.randrange(2, n - 1)       # jump: unrelated next key
                Q = ec_mul(c, d, G)
            else:
                d = (d + 1) % n
                Q = ec_add(c, Q, G)
    return keys, pub


def be_min(v):
    return v.to_bytes((v.bit_length() + 7) // 8, "big")


def raw_material(pk):
    """The raw key material the documented constructions hash (written from the numbers)."""
    if pk[0] == "rsa":
        return be_min(pk[1]) + be_min(pk[2])
    cs = cs_of(pk[1])
    return pk[2].to_bytes(cs, "big") + pk[3].to_bytes(cs, "big")


def Hn(bits):
    return {256: hashlib.sha256, 384: hashlib.sha384, 512: hashlib.sha512, 521: hashlib.sha512}[bits]


# ------------------------------------------------------------------------------------------------ documented constructions
def spec_rkh(pk):
    return hashlib.sha256(raw_material(pk)).digest() if pk[0] == "rsa" else Hn(pk[1])(raw_material(pk)).digest()


def spec_v1(pks):
    return hashlib.sha256(b"".join(spec_rkh(p) for p in pks) + bytes(32 * (4 - len(pks)))).digest()


def spec_v21(pks):
    if len(pks) == 1:
        return spec_rkh(pks[0])
    h = hashlib.sha384 if (pks[0][0] == "ecc" and pks[0][1] == 384) else hashlib.sha256
    return h(b"".join(spec_rkh(p) for p in pks)).digest()


AHAB_KS = {("rsa", 2048): (5, 256, 4), ("rsa", 3072): (6, 384, 4), ("rsa", 4096): (7, 512, 4),
           ("ecc", 256): (1, 32, 32), ("ecc", 384): (2, 48, 48), ("ecc", 521): (3, 66, 66)}


def spec_ahab_record(pk, ca, v2, idx):
    """AHAB SRK record as documented in the container format (RM: tag 0xE1, length, algorithm, hash, key size, flags)."""
    if pk[0] == "rsa":
        ksid, l1, l2 = AHAB_KS[("rsa", pk[1].bit_length())]
        alg, hsh, data = 0x22, 0, pk[1].to_bytes(l1, "big") + pk[2].to_bytes(l2, "big")
    else:
        ksid, l1, l2 = AHAB_KS[("ecc", pk[1])]
        alg, hsh = 0x27, {256: 0, 384: 1, 521: 2}[pk[1]]
        data = pk[2].to_bytes(l1, "big") + pk[3].to_bytes(l2, "big")
    if v2:
        blob = bytes([0]) + (8 + len(data)).to_bytes(2, "little") + bytes([0x5D, idx, 0, 0, 0]) + data
        params = [hashlib.sha256, hashlib.sha384, hashlib.sha512][hsh](blob).digest().ljust(64, b"\0")
    else:
        params = data
    return bytes([0xE1]) + (12 + len(params)).to_bytes(2, "little") + bytes([alg, hsh, ksid, 0, 0x80 if ca else 0]) \
        + l1.to_bytes(2, "little") + l2.to_bytes(2, "little") + params


def spec_ahab(pks, ca, v2):
    body = b"".join(spec_ahab_record(p, ca, v2, i) for i, p in enumerate(pks))
    table = bytes([0xD7]) + (4 + len(body)).to_bytes(2, "little") + bytes([0x43 if v2 else 0x42]) + body
    return (hashlib.sha512 if v2 else hashlib.sha256)(table).digest()


def spec_hab(pks_ca):
    """HAB4 SRK fuse value: SHA-256 over the SHA-256 digests of the SRK table entries."""
    out = b""
    for pk, ca in pks_ca:
        if pk[0] == "rsa":
            m, e = be_min(pk[1]), be_min(pk[2])
            body = bytes([0, 0, 0, 0x80 if ca else 0]) + len(m).to_bytes(2, "big") + len(e).to_bytes(2, "big") + m + e
            ent = bytes([0xE1]) + (4 + len(body)).to_bytes(2, "big") + bytes([0x21]) + body
        else:
            cid = {256: 0x4B, 384: 0x4D, 521: 0x4E}[pk[1]]
            body = bytes([0, 0, 0, 0x80 if ca else 0, cid, 0, pk[1] >> 8, pk[1] & 0xFF]) + raw_material(pk)
            ent = bytes([0xE1]) + (4 + len(body)).to_bytes(2, "big") + bytes([0x27]) + body
        out += hashlib.sha256(ent).digest()
    return hashlib.sha256(out).digest()


# ------------------------------------------------------------------------------------------------ encodings
PLAIN_ENCS = ["pub_pem", "pub_der", "cert_pem", "cert_der", "priv_pem", "priv_der", "priv_trad_pem", "obj_pub", "obj_priv",
              "obj_cert", "file:pub_pem", "file:cert_der", "file:priv_pem"]
CA_BYTES_ENCS = ["cert_ca_der", "cert_ca_pem", "file:cert_ca_der"]
FILE_ENCS = ["pub_pem", "pub_der", "raw", "cert_pem", "cert_der", "priv_pem", "priv_der"]       # what a CLI user has on disk
CB21_ENCS = ["pub_pem", "pub_der", "cert_pem", "cert_der", "priv_pem", "priv_der", "priv_trad_pem", "obj_pub", "raw", "raw",
             "cert_ca_der"]                                             # CertBlockV21 takes bytes or PublicKeyEcc objects
CERT_ENCS = ["cert_der", "cert_pem", "obj_cert", "file:cert_der"]
CERT_CA_ENCS = ["cert_ca_der", "cert_ca_pem", "obj_cert_ca", "file:cert_ca_der"]


def supply_id(enc):
    e = enc[5:] if enc.startswith("file:") else enc
    if e == "raw":
        return 1
    if e in ("cert_ca_der", "cert_ca_pem"):
        return 2
    if e == "obj_cert_ca":
        return 3
    return 0


def key_value(pk):
    return VL([VI(0), VI(pk[1]), VI(pk[2])]) if pk[0] == "rsa" else VL([VI(1), VI(pk[1]), VI(pk[2]), VI(pk[3])])


def inputs_value(pub, kes):
    return VL([VL([key_value(pub[k]), VI(supply_id(e))]) for k, e in kes])


ROT_FAMILY = {1: "lpc55s69", 21: "lpc55s36", 3: "mimx9352", 4: "mimx943", 5: "mimxrt1050", 6: "mc56f81866"}


def klass(pk):
    return ("rsa", pk[1].bit_length()) if pk[0] == "rsa" else ("ecc", pk[1])


# ------------------------------------------------------------------------------------------------ case generation
def gen_cases(tier, rng, pub, fam_rows, pfr_rows):
    thorough = tier == "thorough"
    K = lambda pred: sorted(k for k in pub if pred(k))  # noqa: E731
    rsa = {b: K(lambda k, b=b: k.startswith(f"r{b}e65537")) for b in (2048, 3072, 4096)}
    rsa_e3 = K(lambda k: k.startswith("r2048e3"))
    ecc = {c: K(lambda k, c=c: k.startswith(f"p{c}")) for c in (256, 384, 521)}
    zero = {c: [k for k in ecc[c] if "z" in k] for c in ecc}
    streams = {}

    def pick_set(group, n):
        return rng.sample(group, n)

    def enc_mix(n, choices):
        return [rng.choice(choices) for _ in range(n)]

    fam_by_type = {}
    for r in fam_rows:
        fam_by_type.setdefault(regen_c03.ROT_IDS[r["rot_type"]], []).append(r["family"])

    # ---- S1: Rot classes: key sets x orders x encodings
    # (encoding sets are chosen so that many of them reach the model as the same (key, supply) list: the model is then
    #  evaluated once for all of them, while the implementation and the oracles see every encoding)
    rot = []
    groups = [rsa[2048], rsa[3072], rsa[4096], ecc[256], ecc[384], ecc[521]]
    accepted = {1: groups[:3], 21: groups[3:5], 3: groups, 4: groups, 5: groups, 6: []}
    deep = groups if thorough else [rsa[2048], ecc[256], ecc[384], ecc[521]]      # key classes explored in depth in this tier

    def alt(n, other):
        return ["raw" if j % 2 == 0 else rng.choice(other) for j in range(n)]

    for rt in (1, 21, 3, 4, 5, 6):
        fams = fam_by_type.get(rt, [ROT_FAMILY[rt]])
        for g in groups:
            full = g in accepted[rt]
            if full and g in deep:
                sizes = (4, 2) if rt in (3, 4) else (1, 2, 3, 4)
            else:
                sizes = (4, 1) if full and rt not in (3, 4) else (4,)
            for n in sizes:
                for _ in range(2 if thorough and full else 1):
                    ks = pick_set(g, n)
                    zs = zero.get(klass(pub[g[0]])[1])
                    if zs and rng.random() < 0.6:
                        z = rng.choice(zs)
                        if z not in ks:
                            ks[rng.randrange(n)] = z
                    orders = [ks] + ([list(reversed(ks))] if n > 1 and full and g in deep else [])
                    if thorough and n > 2 and full:
                        orders.append(rng.sample(ks, n))
                    for oi, o in enumerate(orders):
                        fam = rng.choice(fams) if thorough else fams[0]
                        if rt == 5:
                            encsets = [["cert_der"] * n, ["cert_ca_pem"] * n, enc_mix(n, CERT_ENCS), enc_mix(n, CERT_CA_ENCS)]
                            if oi == 0:
                                encsets += [["pub_pem"] * n] + ([alt(n, CERT_CA_ENCS)] if n > 1 else [])
                            if n == 4 and oi == 0:
                                encsets += [["raw"] * n, ["obj_cert"] * n]
                        elif not full or (rt in (3, 4) and n != 4):
                            encsets = [["pub_pem"] * n, enc_mix(n, PLAIN_ENCS)]
                        else:
                            encsets = [["pub_pem"] * n, ["raw"] * n, ["cert_ca_der"] * n, enc_mix(n, PLAIN_ENCS), enc_mix(n, CA_BYTES_ENCS)]
                            if oi == 0:
                                encsets += [[e] * n for e in rng.sample(PLAIN_ENCS, 6 if thorough else 3)]
                                encsets += [enc_mix(n, PLAIN_ENCS) for _ in range(3 if thorough else 1)]
                                if rt in (1, 21) and n > 1:
                                    encsets += [alt(n, PLAIN_ENCS)]
                                if n in (1, 4):
                                    encsets += [["obj_cert_ca"] + ["pub_pem"] * (n - 1)]
                        if rt == 6:
                            encsets = encsets[:1]
                        for es in encsets:
                            rot.append({"op": "rot", "rt": rt, "family": fam, "keys": [[k, e] for k, e in zip(o, es)]})
        # irregular sets: empty, five keys, mixed classes, mixed RSA sizes, RSA e = 3
        fam = fams[0]
        irregular = [[], rsa[2048][:4] + rsa[3072][:1], [rsa[2048][0], ecc[256][0]], [ecc[256][0], ecc[384][0]],
                     [rsa[2048][0], rsa[3072][0], rsa[2048][1], rsa[2048][2]], [ecc[256][0], ecc[256][1], ecc[256][2], ecc[521][0]],
                     rsa_e3 + rsa[2048][:3], rsa_e3[:1]]
        for ks in irregular:
            for e in (("cert_der",) if rt == 5 else ("pub_pem", "raw")):
                rot.append({"op": "rot", "rt": rt, "family": fam, "keys": [[k, e] for k in ks]})
    if thorough:      # every family of the database once with a key set its RoT type accepts
        for r in fam_rows:
            rt = regen_c03.ROT_IDS[r["rot_type"]]
            g = {1: rsa[2048], 21: ecc[256], 3: ecc[384], 4: ecc[521], 5: rsa[4096], 6: ecc[256]}[rt]
            rot.append({"op": "rot", "rt": rt, "family": r["family"], "keys": [[k, "cert_der" if rt == 5 else "pub_pem"] for k in g[:4]]})
    streams["Rot classes: key sets x orders x input encodings x rot types"] = rot
    # ---- S2: nxpcrypto rot calculate-hash on files
    cli = []
    for rt in (1, 21, 3, 4, 5, 6):
        for g in groups:
            if g not in accepted[rt] and rng.random() < (0.3 if thorough else 0.7):
                continue
            for n in ((4,) if rt in (3, 4) else (1, 3, 4)):
                if not thorough and n != 4 and (g not in deep or rng.random() < 0.5):
                    continue
                ks = pick_set(g, n)
                plain_files = [e for e in FILE_ENCS if e != "raw"]
                for es in ([enc_mix(n, ["cert_der", "cert_pem"])] if rt == 5 else [enc_mix(n, plain_files), ["raw"] * n]):
                    cli.append({"op": "cli", "rt": rt, "family": ROT_FAMILY[rt], "keys": [[k, e] for k, e in zip(ks, es)]})
    streams["nxpcrypto rot calculate-hash (click CliRunner, keys as files)"] = cli
    # ---- S3: RKHT classes and per-key functions
    rk = []
    for ver in (1, 21):
        for g in groups:
            for n in (1, 2, 4):
                ks = pick_set(g, n)
                rk.append({"op": "rkht", "ver": ver, "keys": [[k, e] for k, e in zip(ks, enc_mix(n, PLAIN_ENCS + ["raw"]))]})
        rk.append({"op": "rkht", "ver": ver, "keys": []})
        rk.append({"op": "rkht", "ver": ver, "keys": [[rsa[2048][0], "obj_cert_ca"]]})
    for k in sorted(pub):
        rk.append({"op": "keyhash", "key": k})
    streams["RKHTv1/RKHTv21.from_keys and per-key hash / raw export / raw re-parse of every key"] = rk
    # ---- S4: certificate block v1
    cb1 = []
    for g in (rsa[2048], rsa[3072], rsa[4096], ecc[256], ecc[384]):
        for n in ((1, 2, 3, 4) if g in deep else (4,)):
            ks = pick_set(g, n)
            for used in range(n):
                if not thorough and n > 2 and used not in (0, n - 1):
                    continue
                cb1.append({"op": "cb1", "keys": ks, "used": used, "build": rng.choice([0, 1, 7, 2**32 - 1]),
                            "flags": rng.choice([0, 0, 5]), "image_length": 0})
        ks = pick_set(g, 3)
        cb1.append({"op": "cb1", "keys": ks, "used": 1, "build": 3, "image_length": rng.choice([1, 12608, 2**32 - 1])})
        cb1.append({"op": "cb1", "keys": ks, "used": 2, "build": 3, "alignment": rng.choice([1, 4, 64, 1024])})
        cb1.append({"op": "cb1", "keys": [ks[0], None, ks[2]], "used": 2})
        cb1.append({"op": "cb1", "keys": [ks[0], ks[1]], "used": 0, "chain": ks[2]})
        cb1.append({"op": "cb1", "keys": [ks[0], ks[0], ks[1]], "used": 1})
    streams["CertBlockV1: build / rkth / fuses / rkh_index / export / parse / re-export"] = cb1
    # ---- S5: certificate block v2.1
    cb21 = []
    lens_fam = [0, 4, 8, 48, 92, 96]
    lens_free = [0, 1, 3, 5, 33, 100, 257]
    for c in (256, 384):
        for n in (1, 2, 3, 4):
            ks = pick_set(ecc[c], n)
            if rng.random() < 0.7:
                ks[rng.randrange(n)] = rng.choice(zero[c])
                if len(set(ks)) < n:
                    ks = pick_set(ecc[c], n)
            for used in range(n):
                encs = enc_mix(n, CB21_ENCS)
                base = {"op": "cb21", "keys": [[k, e] for k, e in zip(ks, encs)], "used": used}
                cb21.append(dict(base, ca_flag=True))
                for ic in (256, 384):
                    isk = rng.choice(ecc[ic] if rng.random() < 0.6 else zero[ic])
                    fam = rng.random() < 0.5
                    ud = bytes(rng.getrandbits(8) for _ in range(rng.choice(lens_fam if fam else lens_free)))
                    cb21.append(dict(base, ca_flag=False, isk=isk, isk_enc=rng.choice(["raw", "pub_pem", "pub_der", "cert_der", "obj_pub"]),
                                     user_data=ud.hex(), constraints=rng.choice([0, 1, 0x80000001, 2**32 - 1]),
                                     family="lpc55s36" if fam else None,
                                     signer="real" if rng.random() < 0.35 else "hash"))
    ks = pick_set(ecc[256], 4)
    base = {"op": "cb21", "keys": [[k, "raw"] for k in ks], "used": 2}
    # every allowed user data length with a family (alignment 4, limit 96), and the rejected neighbours
    for ln in (list(range(0, 101)) if thorough else [0, 4, 5, 96, 97, 100]):
        cb21.append(dict(base, ca_flag=False, isk=ecc[256][0], user_data=(bytes([ln]) * ln).hex(), family="mcxn947"))
    # the 0x4D43 heuristic: user data of 19779 - 12 - 2*coordinate bytes (no family)
    for ic, ln in (((256, 19703), (384, 19671)) if thorough else ((256, 19703),)):
        cb21.append(dict(base, ca_flag=False, isk=ecc[ic][0], user_data=(b"\xa5" * ln).hex(), constraints=0x80000001))
        cb21.append(dict(base, ca_flag=False, isk=ecc[ic][0], user_data=(b"\xa5" * (ln - 1)).hex()))
    # out-of-domain inputs that must be refused or handled as coded
    cb21.append(dict(base, ca_flag=True, used=4))
    cb21.append(dict(base, ca_flag=False))                                      # ISK demanded but not given
    cb21.append(dict(base, ca_flag=False, isk=ecc[521][0], user_data="00112233"))
    cb21.append({"op": "cb21", "keys": [[k, "pub_pem"] for k in rsa[2048][:2]], "used": 0, "ca_flag": True})
    cb21.append({"op": "cb21", "keys": [[k, "raw"] for k in ecc[521][:2]], "used": 0, "ca_flag": True})
    cb21.append({"op": "cb21", "keys": [[ecc[256][0], "raw"], [ecc[384][0], "raw"]], "used": 0, "ca_flag": True})
    cb21.append({"op": "cb21", "keys": [[k, "raw"] for k in ecc[256][:4] + ecc[256][:1]], "used": 0, "ca_flag": True})
    streams["CertBlockV21: calculate / rkth / flags / export / ISK signature / parse / re-export"] = cb21
    # ---- S6: PFR CMPA.export(keys=...): the same key sets for every family of one (RKHT class, register width) pair
    pfr = []
    pfr_sets = {}
    for r in pfr_rows:
        if not r["width"]:
            continue
        cls = (r["rkht"], r["width"])
        if cls not in pfr_sets:
            gs = [rsa[2048], rsa[4096], ecc[256], ecc[384], ecc[521]] if thorough else [rsa[2048], ecc[256], ecc[384], ecc[521]]
            pfr_sets[cls] = [pick_set(g, n) for g in gs for n in ((1, 2, 3, 4) if thorough else (rng.choice([1, 2, 3]), 4))]
        for ks in pfr_sets[cls]:
            pfr.append({"op": "pfr", "family": r["family"], "width": r["width"], "ver": {"RKHTv1": 1, "RKHTv21": 21}[r["rkht"]], "keys": ks})
    streams["PFR: CMPA.export(keys=...) ROTKH field for every family with a ROTKH register"] = pfr
    # ---- S7: debug credential RoT meta
    dc = []
    for fam, kind, gs in (("lpc55s69", 0, [rsa[2048], rsa[4096]]), ("lpc55s36", 1, [ecc[256], ecc[384]]),
                          ("mcxn947", 1, [ecc[256], ecc[384], ecc[521]]), ("mimxrt1189", 2, [ecc[256], ecc[384], ecc[521], rsa[2048]]),
                          ("rw612", 1, [ecc[256]])):
        for g in gs:
            for n in ((4,) if kind == 2 else (1, 2, 4)):
                ks = pick_set(g, n)
                for es in (["pub_pem"] * n, enc_mix(n, ["pub_pem", "pub_der", "cert_der", "priv_pem", "raw"]), ["cert_ca_pem"] * n):
                    dc.append({"op": "dc", "family": fam, "kind": kind, "keys": [[k, e] for k, e in zip(ks, es)],
                               "rot_id": rng.randrange(n), **({"flag_ca": rng.random() < 0.5} if kind == 2 else {})})
    dc.append({"op": "dc", "family": "lpc55s69", "kind": 0, "keys": [[rsa_e3[0], "pub_pem"], [rsa[2048][0], "pub_pem"]], "rot_id": 0})
    streams["Debug credential: RotMeta hash (RSA / ECC / EdgeLock)"] = dc
    # ---- S8: HAB SRK table
    hab = []
    for g in groups:
        for n in (1, 2, 4):
            ks = pick_set(g, n)
            for es in (["cert_der"] * n, ["cert_ca_der"] * n, enc_mix(n, ["cert_der", "cert_ca_der", "cert_pem", "cert_ca_pem"])):
                hab.append({"op": "hab", "keys": [[k, e] for k, e in zip(ks, es)]})
    hab.append({"op": "hab", "keys": [[rsa[2048][0], "cert_der"], [ecc[256][0], "cert_ca_der"]]})
    streams["HAB: SrkTable of SrkItem.from_certificate: fuses / export / parse"] = hab
    # ---- S9: history: second export / recomputation on the same object; a change followed by export vs a fresh object
    hist = []
    for rt in (1, 21, 3, 4, 5):
        g = {1: rsa[2048], 21: ecc[384], 3: ecc[256], 4: ecc[521], 5: rsa[2048]}[rt]
        hist.append({"op": "hist", "kind": "rot", "rt": rt, "family": ROT_FAMILY[rt],
                     "keys": [[k, e] for e in ["cert_der" if rt == 5 else rng.choice(["pub_pem", "raw", "cert_ca_der"])] for k in pick_set(g, 4)]})
    for g in ((rsa[2048], ecc[256]) if not thorough else groups):
        ks = pick_set(g, 3)
        hist.append({"op": "hist", "kind": "hab", "keys": [[k, rng.choice(["cert_der", "cert_ca_der"])] for k in ks[:2]],
                     "append": [ks[2], rng.choice(["cert_der", "cert_ca_der"])]})
        hist.append({"op": "hist", "kind": "cb1", "keys": ks, "used": rng.randrange(3), "build": rng.randrange(1 << 16),
                     "new_image_length": rng.randrange(1, 1 << 24), "new_alignment": rng.choice([1, 4, 32, 64, 256])})
    for c_ in (256, 384):
        for n in ((2, 4) if not thorough else (1, 2, 3, 4)):
            ks = pick_set(ecc[c_], n)
            used, new_used = rng.randrange(n), rng.randrange(n)
            base = {"op": "hist", "kind": "cb21", "keys": [[k, rng.choice(CB21_ENCS)] for k in ks], "used": used, "new_used": new_used}
            hist.append(dict(base))                                                   # CA block, no ISK
            hist.append(dict(base, isk=rng.choice(ecc[rng.choice([256, 384])]), constraints=rng.randrange(1 << 32),
                             user_data=bytes(rng.getrandbits(8) for _ in range(rng.choice([0, 4, 33]))).hex(), signer="hash"))
            hist.append(dict(base, isk=rng.choice(ecc[c_]), user_data="0a0b0c0d", signer="real"))
            hist.append(dict(base, isk=rng.choice(ecc[c_]), user_data="0a0b0c0d", signer="hash", new_used=used,
                             new_user_data=bytes(rng.getrandbits(8) for _ in range(rng.choice([1, 8, 40]))).hex(),
                             new_constraints=rng.randrange(1 << 32)))
    streams["history: export / rkth / calculate_hash twice on one object; change of alignment, image length, SRK entries, used root index + its signer, ISK user data / constraints vs a fresh object"] = hist
    return streams


def malformed_cases(rng, exports21, exports1, thorough):
    """Second phase: damaged certificate blocks (headers, flag words, truncation) for parse."""
    out = []
    for data in exports21[: (60 if thorough else 8)]:
        b = bytearray(data)
        muts = [bytes(b[:k]) for k in (0, 3, 11, 12, 15, 16, len(b) // 2, len(b) - 1)]
        for off in (0, 4, 6, 8, 12, 13, 15):        # magic, version, size, root key record flags
            for val in (0, 1, 2, 3, 0x10, 0x40, 0x80, 0xFF):
                m = bytearray(b)
                if off < len(m):
                    m[off] = val
                    muts.append(bytes(m))
        muts.append(bytes(b) + b"\0" * 7)
        for m in (muts if thorough else rng.sample(muts, 10)):
            out.append({"op": "parse21", "data": m.hex()})
    for data in exports1[: (30 if thorough else 4)]:
        b = bytearray(data)
        muts = [bytes(b[:k]) for k in (0, 31, len(b) - 1)]     # (certificate bytes are X.509, opaque to the model: left intact)
        for off in (0, 4, 6, 8, 12, 16, 20, 28):
            for val in (0, 1, 0x20, 0xFF):
                m = bytearray(b)
                m[off] = val
                muts.append(bytes(m))
        for m in (muts if thorough else rng.sample(muts, 8)):
            out.append({"op": "parse1", "data": m.hex()})
    return out


# ------------------------------------------------------------------------------------------------ impl results -> values
def ov(o):
    """observable ["ok", hex|int|list] / ["e", k, ...] -> value"""
    if o is None:
        return ("e", 98)
    if o[0] == "e":
        return ("e", o[1])
    v = o[1]
    if isinstance(v, str):
        return ("b", bytes.fromhex(v))
    if isinstance(v, bool):
        return ("i", int(v))
    if isinstance(v, int):
        return ("i", v)
    if isinstance(v, list):
        return ("l", [ov(["ok", x]) for x in v])
    raise TypeError(v)


def parsed21_value(p):
    if p[0] == "e":
        return ("e", p[1])
    d = p[1]
    isk = ("l", [])
    if d["has_isk"]:
        isk = ("l", [("i", d["isk_constraints"]), ("i", d["isk_flags"]), ("b", bytes.fromhex(d["isk_pub"])),
                     ("b", bytes.fromhex(d["isk_user_data"])), ("b", bytes.fromhex(d["isk_sig"])), ("i", d["isk_offset_present"])])
    maj, mnr = d["version"].split(".")
    return ("l", [ov(d["rkth"]), ov(d["reexport"]), ("i", d["flags"]), ("i", d["used"]), ("i", d["count"]), ("i", d["ca"]),
                  ("b", bytes.fromhex(d["root_pub"])), ("i", d["cert_block_size"]), ("i", int(maj)), ("i", int(mnr)), isk])


def impl_value(c, r):
    """The implementation's observables in the shape of the model's run_case result."""
    op = c["op"]
    if "harness_error" in r:
        return ("e", 97)
    if op in ("rot",):
        return ("l", [ov(r["hash"]), ov(r["export"])])
    if op == "cli":
        return ov(r["hash"])
    if op == "rkht":
        return ("l", [ov(r["rkth"]), ov(r["export"]), ov(r["rkh"])])
    if op == "keyhash":
        return ("l", [ov(r["calc_key_hash"]), ov(r["key_hash"]), ov(r["export_nxp"]), ov(r["reparse_raw"])])
    if op == "pfr":
        f = r["field"]
        return ("e", f[1]) if f[0] == "e" else ("b", bytes.fromhex(f[1]["field"]))
    if op == "dc":
        return ov(r["hash"])
    if op == "hab":
        return ("l", [ov(r["fuses"]), ov(r.get("export"))]) if r["fuses"][0] != "e" or "export" in r else ("l", [ov(r["fuses"]), ov(r["fuses"])])
    if op == "cb1":
        if r["build"][0] == "e":
            return ("e", r["build"][1])
        p = r.get("parsed")
        if r["export"][0] == "e":
            pv = ("e", 96)
        elif p[0] == "e":
            pv = ("e", p[1])
        else:
            d = p[1]
            maj, mnr = d["version"].split(".")
            pv = ("l", [("b", bytes.fromhex(d["rkth"])), ("i", d["rkh_index"]), ("b", bytes.fromhex(d["reexport"])), ("i", d["build"]),
                        ("i", d["flags"]), ("i", d["image_length"]), ("i", d["ncert"]), ("i", int(maj)), ("i", int(mnr))])
        return ("l", [ov(r["rkth"]), ov(r["fuses"]), ov(r["rkh_index"]), ov(r["rkh"]), ov(r["export"]), pv])
    if op == "cb21":
        if r["build"][0] == "e":
            return ("e", r["build"][1])
        if r["export"][0] == "e":
            return ("e", r["export"][1])
        return ("l", [ov(r["rkth"]), ov(r["flags"]), ov(r["rkr"]), ov(r["export"]), ov(r["signed"]), parsed21_value(r["parsed"])])
    if op == "parse21":
        return parsed21_value(r["parsed"])
    if op == "parse1":
        p = r["parsed"]
        if p[0] == "e":
            return ("e", p[1])
        d = p[1]
        return ("l", [("b", bytes.fromhex(d["rkth"])), ov(d["reexport"]), ("i", d["build"]), ("i", d["flags"]), ("i", d["ncert"])])
    raise ValueError(op)


def model_expr(c, r, pub):
    """Coq term evaluating the model on the same case (None: no model evaluation for this case)."""
    op = c["op"]
    L = lit
    if op == "hist":
        return None
    if op in ("rot", "cli"):
        rt = c["rt"]
        if rt == 5:
            if any(supply_id(e) not in (0, 2, 3) or "cert" not in e for _, e in c["keys"]):
                return None                       # HAB takes certificates only: expected rejection is checked by the oracle
            return f"run_case 2 [VInt 64%Z; {L(inputs_value(pub, c['keys']))}]"
        return f"run_case 1 [VInt {rt}%Z; {L(inputs_value(pub, c['keys']))}]"
    if op == "rkht":
        return f"run_case 3 [VInt {c['ver']}%Z; {L(inputs_value(pub, c['keys']))}]"
    if op == "keyhash":
        return f"run_case 4 [{L(key_value(pub[c['key']]))}]"
    if op == "pfr":
        return f"run_case 5 [VInt {c['ver']}%Z; VInt {c['width']}%Z; {L(VL([key_value(pub[k]) for k in c['keys']]))}]"
    if op == "dc":
        return (f"run_case 9 [VInt {c['kind']}%Z; {L(inputs_value(pub, c['keys']))}; VInt {c['rot_id']}%Z; "
                f"VInt {int(bool(c.get('flag_ca')))}%Z]")
    if op == "hab":
        return f"run_case 2 [VInt 64%Z; {L(inputs_value(pub, c['keys']))}]"
    if op == "cb1":
        if r["build"][0] == "e" or c.get("chain") and False:
            return None
        slots = VL([VL([]) if k is None else key_value(pub[k]) for k in c["keys"]])
        certs = VL([VB(pad4(bytes.fromhex(x))) for x in r["certs"][1]])
        return (f"run_case 6 [{L(slots)}; {L(key_value(pub[c['keys'][c['used']]]))}; VInt {c.get('flags', 0)}%Z; "
                f"VInt {c.get('build', 0)}%Z; VInt {c.get('image_length', 0) or 0}%Z; VInt {c.get('alignment') or 16}%Z; {L(certs)}]")
    if op == "cb21":
        if c.get("signer") == "real":
            return None
        isk = VL([])
        if c.get("isk"):
            isk = VL([VI(c.get("constraints", 0)), key_value(pub[c["isk"]]), VB(bytes.fromhex(c.get("user_data", "")))])
        fam = VL([VI(96), VI(4)]) if c.get("family") else VL([])
        used = c["used"]
        siglen = 2 * cs_of(pub[c["keys"][used][0]][1]) if used < len(c["keys"]) and pub[c["keys"][used][0]][0] == "ecc" else 64
        return (f"run_case 7 [{L(inputs_value(pub, c['keys']))}; VInt {used}%Z; VInt {int(bool(c.get('ca_flag')))}%Z; "
                f"{L(isk)}; {L(fam)}; VInt {siglen}%Z]")
    if op == "parse21":
        return f"run_case 8 [{L(VB(bytes.fromhex(c['data'])))}]"
    if op == "parse1":
        return f"run_case 10 [{L(VB(bytes.fromhex(c['data'])))}]"
    raise ValueError(op)


def lit(v):
    """vlib.coq_lit with hexadecimal literals for big integers (Coq parses decimal literals in quadratic time)."""
    t, x = v
    if t == "i":
        return f"VInt {hex(x)}%Z" if x >= 1 << 32 else vlib.coq_lit(v)
    if t == "l":
        return "VList [" + "; ".join("(" + lit(y) + ")" for y in x) + "]"
    return vlib.coq_lit(v)


def same(a, b):
    if a[0] == "e" or b[0] == "e":
        return a[0] == b[0] and a[1] == b[1]
    if a[0] == "l" and b[0] == "l":
        return len(a[1]) == len(b[1]) and all(same(x, y) for x, y in zip(a[1], b[1]))
    return a == b


# ------------------------------------------------------------------------------------------------ property oracles
def in_domain(rt, pks):
    """Is the key set inside the property's quantifier for this RoT type (so that a hash MUST come out)?"""
    n = len(pks)
    if not 1 <= n <= 4 or len({klass(p) for p in pks}) != 1:
        return False
    kind, size = klass(pks[0])
    if kind == "rsa" and (size not in (2048, 3072, 4096) or any(p[2] != 65537 for p in pks)):
        return False
    if rt == 1:
        return kind == "rsa"
    if rt == 21:
        return kind == "ecc" and size in (256, 384)
    if rt == 3:
        return n == 4
    if rt == 4:
        return n == 4
    if rt == 5:
        return True
    return False


def expected_rot(rt, pks, cas):
    if rt == 1:
        return spec_v1(pks)
    if rt == 21:
        return spec_v21(pks)
    if rt in (3, 4):
        return spec_ahab(pks, cas[0], rt == 4)
    if rt == 5:
        return spec_hab(list(zip(pks, cas)))


def oracle(c, r, pub):
    """None when the implementation's answer satisfies the property on this case, else (signature, message)."""
    op = c["op"]
    if "harness_error" in r:
        return (f"{op}:harness", str(r["harness_error"]))
    if op in ("rot", "cli"):
        rt = c["rt"]
        pks = [pub[k] for k, _ in c["keys"]]
        encs = [e for _, e in c["keys"]]
        h = r["hash"]
        name = regen_c03_name(rt)
        if any(supply_id(e) == 3 for e in encs) and rt != 5:
            if h[0] == "e" and h[1] == 2:
                return (f"{op}:{name}:ca-certificate-object:crash",
                        f"Rot({c['family']}) given a CA Certificate object raises {h[2:]} instead of computing the hash")
        if rt == 5 and any("cert" not in e for e in encs):
            return None if h[0] == "e" and h[1] == 1 else (f"{op}:{name}:non-certificate-accepted", f"{encs} -> {h}")
        if not in_domain(rt, pks):
            if h[0] == "e" and h[1] != 1 and pks:
                return None            # out of the quantifier (e.g. exponent 3, five keys): crashes are reported by correspondence only
            return None
        cas = [supply_id(e) in (2, 3) for e in encs]
        if rt in (3, 4) and len(set(cas)) > 1:
            # same keys, some given as CA certificates: the property demands the CA-independent value; the only excused outcome
            # is the recorded one (finding C03-F1: the records then differ in the CA flag and verify() refuses the table)
            if h[0] == "e" and h[1] == 1:
                return (f"{op}:{name}:ca-certificate-mix-refused",
                        f"{c['family']}: four valid keys are refused when only some of them are given as CA certificates: {c['keys']}")
            if h[0] == "e":
                return (f"{op}:{name}:rejects-valid", f"{c['family']} keys {c['keys']} -> {h}")
            if bytes.fromhex(h[1]) != spec_ahab(pks, False, rt == 4):
                return (f"{op}:{name}:wrong-hash", f"{c['family']} {c['keys']} -> {h[1]}, documented {spec_ahab(pks, False, rt == 4).hex()}")
            return None
        if h[0] == "e":
            if any(supply_id(e) == 1 for e in encs) and False:
                return None
            if rt == 4 and pks[0][0] == "rsa":
                return (f"{op}:{name}:rejects-valid-rsa",
                        f"{c['family']}: four RSA-{pks[0][1].bit_length()} keys are refused ({h}): SRKRecordV2.verify compares the exponent "
                        f"length with the modulus length")
            return (f"{op}:{name}:rejects-valid", f"{c['family']} keys {c['keys']} -> {h}")
        got = bytes.fromhex(h[1])
        if rt in (3, 4):
            plain = spec_ahab(pks, False, rt == 4)
            if got != plain:
                if cas[0] and got == spec_ahab(pks, True, rt == 4):
                    return (f"{op}:{name}:ca-certificate-changes-hash",
                            f"{c['family']}: the same four keys hash to {plain.hex()[:16]}.. when given as keys/leaf certificates "
                            f"and to {got.hex()[:16]}.. when given as CA certificates")
                return (f"{op}:{name}:wrong-hash", f"{c['family']} {c['keys']} -> {got.hex()}, documented {plain.hex()}")
        else:
            want = expected_rot(rt, pks, cas)
            if got != want:
                return (f"{op}:{name}:wrong-hash", f"{c['family']} {c['keys']} -> {got.hex()}, documented {want.hex()}")
        if op == "cli" and r["file"] != r["hash"]:
            return ("cli:file-differs", f"{r['file']} vs {r['hash']}")
    elif op == "keyhash":
        pk = pub[c["key"]]
        if r["export_nxp"][0] == "ok" and bytes.fromhex(r["export_nxp"][1]) != raw_material(pk):
            return ("keyhash:raw-export", f"{c['key']}: {r['export_nxp'][1]} != {raw_material(pk).hex()}")
        if klass(pk) in (("rsa", 2048), ("rsa", 3072), ("rsa", 4096), ("ecc", 256), ("ecc", 384)) and (pk[0] != "rsa" or pk[2] == 65537):
            if r["calc_key_hash"] != ["ok", spec_rkh(pk).hex()]:
                return ("keyhash:calc_key_hash", f"{c['key']}: {r['calc_key_hash']} != {spec_rkh(pk).hex()}")
            if r["reparse_raw"] != ["ok", raw_material(pk).hex()] or r["extract_raw"] != r["reparse_raw"]:
                return ("keyhash:raw-reparse", f"{c['key']}: raw bytes -> key -> raw bytes gives {r['reparse_raw']}")
        if r["cert_public_key_hash"] != r["key_hash"]:
            return ("keyhash:cert-vs-key", f"{c['key']}")
    elif op == "rkht":
        pks = [pub[k] for k, _ in c["keys"]]
        if in_domain(c["ver"], pks):
            want = spec_v1(pks) if c["ver"] == 1 else spec_v21(pks)
            if r["rkth"] != ["ok", want.hex()]:
                return (f"rkht:v{c['ver']}:wrong", f"{c['keys']} -> {r['rkth']}, documented {want.hex()}")
    elif op == "pfr":
        pks = [pub[k] for k in c["keys"]]
        f = r["field"]
        if f[0] == "ok" and f[1]["field"] != r["calc"][1]:
            return ("pfr:field-differs-from-rotkh", f"{c['family']} exported {f[1]} but _calc_rotkh gives {r['calc']}")
        if in_domain(c["ver"], pks) and not (c["ver"] == 21 and 8 * len(spec_v21(pks)) > c["width"]):
            want = (spec_v1(pks) if c["ver"] == 1 else spec_v21(pks)).ljust(c["width"] // 8, b"\0")
            if f[0] == "e" or f[1]["field"] != want.hex():
                return ("pfr:wrong-rotkh", f"{c['family']} {c['keys']} -> {f}, documented {want.hex()}")
    elif op == "dc":
        pks = [pub[k] for k, _ in c["keys"]]
        h = r["hash"]
        kind = c["kind"]
        if kind == 0 and in_domain(1, pks):
            if h != ["ok", spec_v1(pks).hex()]:
                return ("dc:rsa:wrong", f"{c['keys']} -> {h}, documented {spec_v1(pks).hex()}")
        if kind == 1 and in_domain(21, pks):
            if h != ["ok", spec_v21(pks).hex()]:
                return ("dc:ecc:wrong", f"{c['family']} {c['keys']} -> {h}, documented {spec_v21(pks).hex()}")
        if kind == 1 and 2 <= len(pks) <= 4 and all(klass(p) == ("ecc", 521) for p in pks):
            # P-521 credentials (RotMetaEcc with 66-byte coordinates): SHA-512 over the table of SHA-512(X||Y)
            want = hashlib.sha512(b"".join(hashlib.sha512(raw_material(p)).digest() for p in pks)).digest()
            if h != ["ok", want.hex()]:
                return ("dc:ecc-p521:wrong", f"{c['family']} {c['keys']} -> {h}, documented {want.hex()}")
        if kind == 2 and in_domain(3, pks):
            cas = [supply_id(e) == 2 for _, e in c["keys"]]
            fca = bool(c.get("flag_ca"))
            want = spec_ahab(pks, fca, False)
            if h[0] == "e":
                return ("dc:ele:rejects-valid", f"{c['keys']} -> {h}")
            if bytes.fromhex(h[1]) != want:
                if all(cas) and not fca and bytes.fromhex(h[1]) == spec_ahab(pks, True, False):
                    return ("dc:srk_table_ahab:ca-certificate-changes-hash",
                            f"{c['family']}: flag_ca false but CA certificates as rot_meta set the CA flag: {h[1][:16]}.. vs {want.hex()[:16]}..")
                return ("dc:ele:wrong", f"{c['keys']} -> {h[1]}, documented {want.hex()}")
    elif op == "hab":
        pks = [pub[k] for k, _ in c["keys"]]
        cas = [supply_id(e) in (2, 3) for _, e in c["keys"]]
        want = spec_hab(list(zip(pks, cas)))
        if r["fuses"] != ["ok", want.hex()]:
            return ("hab:fuses", f"{c['keys']} -> {r['fuses']}, documented {want.hex()}")
        p = r.get("parsed")
        if p and (p[0] == "e" or p[1]["fuses"] != want.hex() or p[1]["reexport"] != r["export"][1]):
            return ("hab:parse-export", f"{c['keys']}: parse(export) gives {p}")
        words = [int.from_bytes(want[4 * i:4 * i + 4], "little") for i in range(8)]
        if r["fuse_words"] != ["ok", words]:
            return ("hab:fuse-words", f"{r['fuse_words']}")
    elif op == "hist":
        return oracle_hist(c, r, pub)
    elif op == "cb1":
        return oracle_cb1(c, r, pub)
    elif op == "cb21":
        return oracle_cb21(c, r, pub)
    return None


def pad4(b):
    return b + bytes(-len(b) % 4)


def oracle_hist(c, r, pub):
    """History oracles: a second export is an export; a changed object must export like a fresh one."""
    kind = c["kind"]
    if r["build"][0] == "e":
        return (f"history:build-rejected:{kind}", f"{c} -> {r['build']}")
    ok = lambda name: r[name][0] == "ok"  # noqa: E731
    if kind == "rot":
        pks = [pub[k] for k, _ in c["keys"]]
        cas = [supply_id(e) in (2, 3) for _, e in c["keys"]]
        want = expected_rot(c["rt"], pks, cas)
        if c["rt"] in (3, 4) and cas[0]:
            want = spec_ahab(pks, True, c["rt"] == 4)          # the CA dependence itself is reported by the Rot stream (C03-F1)
        if not (r["hash1"] == r["hash2"] == r["hash3"] == ["ok", want.hex()]):
            return ("history:second-export-differs:Rot.calculate_hash", f"{c['family']}: calculate_hash() x3 = {r['hash1']}, {r['hash2']}, {r['hash3']}; documented {want.hex()}")
        if r["export1"] != r["export2"] or not ok("export1"):
            return ("history:second-export-differs:Rot.export", f"{c['family']}: export() twice differs")
    elif kind == "hab":
        pks = [(pub[k], supply_id(e) in (2, 3)) for k, e in c["keys"]]
        if not (r["fuses1"] == r["fuses2"] == ["ok", spec_hab(pks).hex()]) or r["export1"] != r["export2"] or not ok("export1"):
            return ("history:second-export-differs:SrkTable", "export()/export_fuses() twice on one SRK table differ")
        ch = r["changed"]
        wantc = spec_hab(pks + [(pub[c["append"][0]], supply_id(c["append"][1]) in (2, 3))]).hex()
        if ch[0] == "e" or ch[1]["export"] != ch[1]["fresh_export"] or not (ch[1]["fuses"] == ch[1]["fresh_fuses"] == wantc):
            return ("history:stale-after-change:SrkTable.append", f"after append: {ch}")
    elif kind == "cb1":
        pks = [pub[k] for k in c["keys"]]
        want = spec_v1(pks).hex() if all(p[0] == "rsa" or p[1] == 256 for p in pks) else None
        table = hashlib.sha256(b"".join(hashlib.sha256(raw_material(p)).digest() for p in pks).ljust(128, b"\0")).hexdigest()
        if not (r["rkth0"] == r["rkth1"] == r["rkth2"] == ["ok", table]) or (want and want != table):
            return ("history:second-export-differs:CertBlockV1.rkth", f"rkth before/after export: {r['rkth0']}, {r['rkth1']}, {r['rkth2']}; documented {table}")
        if r["export1"] != r["export2"] or not ok("export1"):
            return ("history:second-export-differs:CertBlockV1.export", "export() twice on one block differs")
        ch = r["changed"]
        if ch[0] == "e" or ch[1]["export"] != ch[1]["fresh_export"] or not (ch[1]["rkth"] == ch[1]["fresh_rkth"] == table):
            return ("history:stale-after-change:CertBlockV1.image_length+alignment", f"after image_length={c['new_image_length']}, "
                    f"alignment={c['new_alignment']}: export differs from a fresh block ({ch if ch[0] == 'e' else 'bytes differ'})")
    elif kind == "cb21":
        pks = [pub[k] for k, _ in c["keys"]]
        want = spec_v21(pks).hex()
        if not (r["rkth0"] == r["rkth1"] == r["rkth2"] == ["ok", want]):
            return ("history:second-export-differs:CertBlockV21.rkth", f"rkth before/after export: {r['rkth0']}, {r['rkth1']}, {r['rkth2']}; documented {want}")
        if not ok("export1") or not ok("export2") or not ok("export3"):
            return ("history:second-export-differs:CertBlockV21.export", f"{r['export1'][:2]} {r['export2'][:2]} {r['export3'][:2]}")
        e1, e2, e3 = (bytes.fromhex(r[k][1]) for k in ("export1", "export2", "export3"))
        if e1 != e2:
            return ("history:second-export-differs:CertBlockV21.export", "export() twice on one block differs")
        used = c["used"]
        if c.get("isk"):
            cs = cs_of(pks[used][1])
            if c.get("signer") == "real":
                # fresh ECDSA randomness after the forced re-sign: deterministic region identical, signature valid over the signed range
                msg = e3[12:len(e3) - 2 * cs]
                if e3[:-2 * cs] != e1[:-2 * cs] or not ecdsa_verify(pks[used][1], (pks[used][2], pks[used][3]), msg, e3[-2 * cs:]):
                    return ("history:second-export-differs:CertBlockV21.resign", "after calculate() + forced re-sign the block differs outside the signature or the signature is invalid")
            elif e3 != e1:
                return ("history:second-export-differs:CertBlockV21.resign", "after calculate() + create_isk_signature(force=True) the export differs")
        elif e3 != e1:
            return ("history:second-export-differs:CertBlockV21.export", "export after calculate() differs")
        ch = r.get("changed")
        if ch is not None:
            nu = c["new_used"]
            what = f"used {used} -> {nu} with that root's signer" + (", new user data" if "new_user_data" in c else "") \
                + (", new constraints" if "new_constraints" in c else "") + ", calculate(), create_isk_signature(force=True), export()"
            if ch[0] == "e":
                return ("history:stale-after-change:CertBlockV21", f"{what}: {ch}")
            d = ch[1]
            if d["rkth"] != want or d["fresh_rkth"] != want:
                return ("history:stale-after-change:CertBlockV21.rkth", f"{what}: rkth {d['rkth']}")
            if d["export"] != d["export_again"]:
                return ("history:second-export-differs:CertBlockV21.export-after-change", what)
            got, fresh = bytes.fromhex(d["export"]), bytes.fromhex(d["fresh_export"])
            if c.get("isk") and c.get("signer") == "real":
                cs = cs_of(pks[nu][1])
                if got[:-2 * cs] != fresh[:-2 * cs] or not ecdsa_verify(pks[nu][1], (pks[nu][2], pks[nu][3]), got[12:len(got) - 2 * cs], got[-2 * cs:]):
                    return ("history:stale-after-change:CertBlockV21.used_root_cert+signer",
                            f"{what}: differs from a fresh block outside the signature, or the signature does not verify under root {nu}")
            elif got != fresh:
                return ("history:stale-after-change:CertBlockV21.used_root_cert+signer", f"{what} != export of a fresh block with the new settings")
    return None


def regen_c03_name(rt):
    return {v: k for k, v in regen_c03.ROT_IDS.items()}[rt]


def oracle_cb1(c, r, pub):
    ks = c["keys"]
    pks = [None if k is None else pub[k] for k in ks]
    if r["build"][0] == "e":
        return None
    table = b"".join(bytes(32) if p is None else hashlib.sha256(raw_material(p)).digest() for p in pks).ljust(128, b"\0")
    want = hashlib.sha256(table).digest()
    if r["rkth"] != ["ok", want.hex()]:
        return ("cb1:rkth", f"{ks} used {c['used']}: rkth {r['rkth']}, documented {want.hex()}")
    if r["fuses"] != ["ok", [int.from_bytes(want[4 * i:4 * i + 4], "little") for i in range(8)]]:
        return ("cb1:fuses", f"{r['fuses']}")
    first = ks.index(ks[c["used"]])
    if r["rkh_index"] != ["ok", first]:
        return ("cb1:rkh_index", f"{ks} used {c['used']}: rkh_index {r['rkh_index']}")
    if r["export"][0] == "e":
        return ("cb1:export-rejected", f"{ks} used {c['used']}: {r['export']}")
    data = bytes.fromhex(r["export"][1])
    al = c.get("alignment") or 16
    certs = [pad4(bytes.fromhex(x)) for x in r["certs"][1]]      # certificate entries: DER, zero padded to a multiple of 4
    tbl = b"".join(len(x).to_bytes(4, "little") + x for x in certs)
    exp = (b"cert" + (1).to_bytes(2, "little") + (0).to_bytes(2, "little") + (32).to_bytes(4, "little")
           + c.get("flags", 0).to_bytes(4, "little") + c.get("build", 0).to_bytes(4, "little")
           + (c.get("image_length") or 0).to_bytes(4, "little") + len(certs).to_bytes(4, "little") + len(tbl).to_bytes(4, "little")
           + tbl + table)
    exp += bytes(-len(exp) % al)
    if data != exp:
        return ("cb1:layout", f"{ks}: exported block differs from the documented layout")
    p = r["parsed"]
    if p[0] == "e":
        return ("cb1:parse-rejects-own-export", f"{ks}: {p}")
    d = p[1]
    if d["rkth"] != want.hex() or d["rkh_index"] != first or d["build"] != c.get("build", 0) or d["flags"] != c.get("flags", 0) \
            or d["ncert"] != len(certs):
        return ("cb1:parse-fields", f"{ks}: parsed {dict(d, reexport='...')}")
    if (c.get("image_length") or 0) != d["image_length"]:
        return ("cb1:parse:image_length-lost", f"CertBlockV1.parse drops header.image_length: exported {c.get('image_length')}, "
                                                f"parsed {d['image_length']}; re-export differs from the original")
    if al == 16 and d["reexport"] != r["export"][1]:
        return ("cb1:reexport", f"{ks}: export(parse(export(x))) != export(x)")
    return None


def oracle_cb21(c, r, pub):
    pks = [pub[k] for k, _ in c["keys"]]
    encs = [e for _, e in c["keys"]]
    used = c["used"]
    valid = in_domain(21, pks) and used < len(pks)
    iskp = pub[c["isk"]] if c.get("isk") else None
    ud = bytes.fromhex(c.get("user_data", ""))
    use_isk = bool(iskp) and not c.get("ca_flag")
    if use_isk:
        valid = valid and iskp[0] == "ecc" and iskp[1] in (256, 384)
        if c.get("family") and (len(ud) > 96 or len(ud) % 4):
            return None if r["build"][0] == "e" and r["build"][1] == 1 else ("cb21:isk-user-data-limit", f"len {len(ud)} -> {r['build']}")
    if not c.get("ca_flag") and not iskp:
        return None
    if not valid:
        return None
    if r["build"][0] == "e":
        return ("cb21:rejects-valid", f"{c['keys']} used {used}: {r['build']}")
    want = spec_v21(pks)
    if r["rkth"] != ["ok", want.hex()]:
        return ("cb21:rkth", f"{c['keys']} used {used}: rkth {r['rkth']}, documented {want.hex()}")
    nib = {256: 1, 384: 2}[pks[0][1]]
    flags = (0x80000000 if c.get("ca_flag") else 0) | (used << 8) | (len(pks) << 4) | nib
    if r["flags"] != ["ok", flags]:
        return ("cb21:flags", f"{c['keys']} used {used}: flags {r['flags']} != {flags:#x}")
    rkr = flags.to_bytes(4, "little") + (b"".join(spec_rkh(p) for p in pks) if len(pks) > 1 else b"") + raw_material(pks[used])
    if r["rkr"] != ["ok", rkr.hex()]:
        return ("cb21:root-key-record", "root key record differs from the documented layout")
    if r["export"][0] == "e":
        return ("cb21:export-rejected", f"{r['export']}")
    data = bytes.fromhex(r["export"][1])
    isk_bytes = b""
    if use_isk:
        ipub = raw_material(iskp)
        iflags = (0x80000000 if ud else 0) | {256: 1, 384: 2}[iskp[1]]
        sig_off = 12 + len(ipub) + len(ud)
        head = sig_off.to_bytes(4, "little") + c.get("constraints", 0).to_bytes(4, "little") + iflags.to_bytes(4, "little")
        msg = rkr + head + ipub + ud
        if r["signed"] != ["ok", [msg.hex()]]:
            return ("cb21:isk-signed-range", "the message handed to the signer is not root-key-record || ISK header || ISK key || user data")
        siglen = 2 * cs_of(pks[used][1])
        isk_bytes = data[12 + len(rkr):]
        sig = isk_bytes[sig_off:]
        if isk_bytes[:sig_off] != head + ipub + ud or len(sig) != siglen:
            return ("cb21:isk-layout", "ISK certificate differs from the documented layout")
        if c.get("signer") == "real":
            if not ecdsa_verify(pks[used][1], (pks[used][2], pks[used][3]), msg, sig):
                return ("cb21:isk-signature-invalid", f"ISK signature does not verify under root key {used} over the specified range")
            for j, p in enumerate(pks):
                if j != used and p != pks[used] and ecdsa_verify(p[1], (p[2], p[3]), msg, sig):
                    return ("cb21:isk-signature-wrong-key", f"verifies under root {j}")
        else:
            d = hashlib.sha256(msg).digest()
            if sig != (d * 5)[:siglen]:
                return ("cb21:isk-signature-bytes", "signature in the block is not what the signer returned")
    exp = b"chdr" + (1).to_bytes(2, "little") + (2).to_bytes(2, "little") + (12 + len(rkr) + len(isk_bytes)).to_bytes(4, "little") + rkr + isk_bytes
    if data != exp:
        return ("cb21:layout", "exported block differs from the documented layout")
    p = r["parsed"]
    heur = use_isk and (12 + len(raw_material(iskp)) + len(ud)) & 0xFFFF == 0x4D43
    if p[0] == "e" or p[1]["reexport"] != ["ok", r["export"][1]]:
        if heur and p[0] == "e" and p[1] == 1:
            return ("cb21:parse:0x4D43-heuristic", f"ISK with {len(ud)} bytes of user data: signature offset & 0xFFFF == 0x4D43, "
                                                   f"parse takes the block for an offset-less certificate: {p if p[0] == 'e' else 're-export differs'}")
        return ("cb21:parse-export", f"{c['keys']} used {used}: parse(export(x)) -> {p if p[0] == 'e' else 're-export differs'}")
    d = p[1]
    if d["rkth"] != ["ok", want.hex()]:
        return ("cb21:parsed-rkth", f"{d['rkth']}")
    if (d["flags"], d["used"], d["count"], d["ca"], d["root_pub"]) != (flags, used, len(pks), int(bool(c.get("ca_flag"))), raw_material(pks[used]).hex()):
        return ("cb21:parsed-fields", f"{ {k: v for k, v in d.items() if k != 'reexport'} }")
    if use_isk and (d["isk_constraints"], d["isk_user_data"], d["isk_pub"]) != (c.get("constraints", 0), ud.hex(), raw_material(iskp).hex()):
        return ("cb21:parsed-isk", "ISK fields changed by export/parse")
    return None


# ------------------------------------------------------------------------------------------------ run
def run(tier):
    rep = vlib.Report(PID, tier)
    rng = vlib.Rng(vlib.seed())
    shutil.rmtree(os.path.join(WORK, "files"), ignore_errors=True)      # (proposed_fix_*.diff in WORK are kept)
    os.makedirs(WORK, exist_ok=True)
    extracted = None
    try:
        extracted = regen_c03.regen()
        rep.obligation("translate:rot/cert-block/AHAB/HAB constants + database rot types->Gen/GenRot.v", True)
    except Exception as ex:  # noqa
        rep.obligation("translate:rot/cert-block/AHAB/HAB constants + database rot types->Gen/GenRot.v", False, repr(ex))
    model_ok, mout = vlib.coq_make(["Model/RotModel.vo"])
    vlib.check_theorems(rep, PID, THEOREMS, ["Proofs/RotProofs.vo", "Proofs/RotBlockProofs.vo"])
    if tier == "thorough":
        vlib.coqchk(rep, PID, THEOREMS)
    vlib.audit(rep)
    if extracted is None:
        extracted = vlib.run_impl("c03_impl.py", {"mode": "extract"}, timeout=600)
    keys, pub = make_keys(rng, tier == "thorough")
    streams = gen_cases(tier, rng, pub, extracted["families"], extracted["pfr"])
    only = os.environ.get("VERIF_C03_ONLY")          # development aid: restrict to some operations
    if only:
        streams = {n: [c for c in cs if c["op"] in only.split(",")] for n, cs in streams.items()}
    flat, owner = [], []
    for name, cs in streams.items():
        for c in cs:
            flat.append(c)
            owner.append(name)
    payload = {"keys": keys, "workdir": os.path.join(WORK, "files"), "cases": flat}
    t0 = vlib.time.time()
    impl = vlib.run_impl("c03_impl.py", payload, timeout=3000)
    results = impl["results"]
    vlib.log(f"  implementation: {len(flat)} cases in {vlib.time.time() - t0:.1f} s")
    # public numbers as cryptography derives them must equal the independent curve arithmetic of this check
    for kid, pn in impl["pub"].items():
        mine = pub[kid]
        theirs = ("rsa", int(pn["n"], 16), pn["e"]) if pn["k"] == "rsa" else ("ecc", pn["c"], int(pn["x"], 16), int(pn["y"], 16))
        if mine != theirs:
            rep.obligation(f"fixture:{kid} public numbers", False, f"{mine} vs {theirs}")
    # second phase: damaged blocks made from the implementation's own exports
    ex21 = [bytes.fromhex(r["export"][1]) for c, r in zip(flat, results) if c["op"] == "cb21" and r.get("export", ["e"])[0] == "ok"
            and len(r["export"][1]) < 2000]
    ex1 = [bytes.fromhex(r["export"][1]) for c, r in zip(flat, results) if c["op"] == "cb1" and r.get("export", ["e"])[0] == "ok"]
    rng.shuffle(ex21)
    rng.shuffle(ex1)
    mal = malformed_cases(rng, ex21, ex1, tier == "thorough")
    mal_res = vlib.run_impl("c03_impl.py", dict(payload, cases=mal), timeout=3000)["results"]
    name = "malformed stream: damaged certificate blocks through CertBlockV21.parse / CertBlockV1.parse"
    streams[name] = mal
    flat += mal
    owner += [name] * len(mal)
    results += mal_res
    # ---- property oracles on the implementation's own outputs
    nviol = 0
    for c, r in zip(flat, results):
        o = oracle(c, r, pub)
        if o:
            nviol += 1
            cc = {k: (v if not (isinstance(v, str) and len(v) > 400) else v[:64] + f"...({len(v) // 2} bytes)") for k, v in c.items()}
            rep.failing(o[0], "implementation violates the C03 contract: " + o[1],
                        {"kind": "impl-oracle", "case": cc, "keys": {k: keys[k] for k in _case_keys(c)},
                         "message": o[1], "seed": vlib.seed()})
    # encoding independence inside the run: same (op, rot type, ordered key list, CA class) -> same answer
    groups = {}
    for c, r in zip(flat, results):
        if c["op"] in ("rot", "cli") and c["rt"] != 6:
            encs = [e for _, e in c["keys"]]
            if c["rt"] == 5 and any("cert" not in e for e in encs):
                continue
            ca = tuple(supply_id(e) in (2, 3) for e in encs) if c["rt"] in (3, 4, 5) else ()
            groups.setdefault((c["rt"], tuple(k for k, _ in c["keys"]), ca), []).append((c, r["hash"][:2]))
    for gk, lst in groups.items():
        answers = {json.dumps(h) for _, h in lst}
        if len(answers) > 1 and all(pub[k][0] != "rsa" or pub[k][2] == 65537 for k in gk[1]):
            rep.failing(f"rot:{regen_c03_name(gk[0])}:encoding-dependent", f"the same ordered key list gives {sorted(answers)} depending on the encoding",
                        {"kind": "impl-oracle", "cases": [c for c, _ in lst][:6], "keys": {k: keys[k] for k in gk[1]}})
    # ---- correspondence with the Coq model
    ndis, nmodel, dis_ops = 0, 0, {}
    if model_ok:
        try:
            exprs, idx = [], []
            for i, (c, r) in enumerate(zip(flat, results)):
                e = model_expr(c, r, pub) if "harness_error" not in r else None
                if e is not None:
                    exprs.append(e)
                    idx.append(i)
            nmodel = len(exprs)
            if not exprs:
                raise RuntimeError("no case reaches the model (development filter?)")
            all_exprs, all_idx = exprs, idx
            uniq = {}
            for e in all_exprs:                       # many encodings reach the model as the same (key, supply) input
                uniq.setdefault(e, len(uniq))
            exprs = list(uniq)
            t0 = vlib.time.time()
            # interleave the cases over the shards (neighbouring cases have similar cost)
            nsh = max(1, min(64, len(exprs) // 40))
            order = [j for k in range(nsh) for j in range(k, len(exprs), nsh)]
            per = (len(exprs) + nsh - 1) // nsh
            shuffled = vlib.run_model_cases("c03", "Value RotModel", [exprs[j] for j in order], shard=per, timeout=1500, jobs=8)
            model_res = [None] * len(exprs)
            for j, v in zip(order, shuffled):
                model_res[j] = v
            vlib.log(f"  model: {len(exprs)} distinct evaluations for {nmodel} cases")
            model_res = [model_res[uniq[e]] for e in all_exprs]
            idx = all_idx
            vlib.log(f"  model: {nmodel} cases in {vlib.time.time() - t0:.1f} s")
            for i, mv in zip(idx, model_res):
                c, r = flat[i], results[i]
                iv = impl_value(c, r)
                if c["op"] == "cli" and mv[0] == "l":
                    mv = mv[1][0]
                if c["op"] in ("rot",) and c["rt"] == 5 and mv[0] == "l":
                    pass
                if not same(iv, mv):
                    ndis += 1
                    dis_ops[c["op"]] = dis_ops.get(c["op"], 0) + 1
                    if ndis <= 8:
                        vlib.log(f"  disagreement {c['op']} { {k: v for k, v in c.items() if k not in ('data', 'user_data')} }:\n    impl  {short(iv)}\n    model {short(mv)}")
                    if not oracle(c, r, pub):
                        nm = f"correspondence:{c['op']}"
                        if nm not in rep.broken:
                            rep.broken.append(nm)
            rep.obligation("correspondence:model=implementation on all cases", ndis == 0, f"{ndis} disagreements {dis_ops}" if ndis else "")
        except Exception as ex:  # noqa
            rep.obligation("correspondence:model evaluation", False, repr(ex))
    else:
        rep.obligation("correspondence:model builds", False, mout[-1500:])
    # ---- coverage
    for name, cs in streams.items():
        ids = [i for i, o in enumerate(owner) if o == name]
        okc = [i for i in ids if _accepted(flat[i], results[i])]
        distinct = len({json.dumps([flat[i].get("keys"), flat[i].get("used"), flat[i].get("data", "")[:64], flat[i].get("user_data", "")[:16],
                                    flat[i].get("family"), flat[i].get("rt")], sort_keys=True, default=str) for i in okc})
        rep.add_stream(name, len(ids), distinct,
                       samples=[{k: (v if not isinstance(v, str) or len(v) < 80 else v[:60] + "...") for k, v in flat[i].items()} for i in ids[:3]],
                       exhaustive=False, extra={"rejected_or_error": len(ids) - len(okc)})
    encs_seen = sorted({e for c in flat for _, e in (c.get("keys") if c["op"] in ("rot", "cli", "rkht", "cb21", "dc", "hab") else []) or []})
    shutil.rmtree(os.path.join(WORK, "files"), ignore_errors=True)
    return rep.finish(
        rule="cases are drawn from VERIF_SEED: RSA keys from a fixed pool of test keys (2048/3072/4096, e=65537, one e=3), ECC keys fresh per seed "
             "with a search for leading-zero coordinates; key sets of 1..4 keys x orders x used index x input encodings through every tool path; "
             "distinct_nontrivial counts distinct accepted (key list, parameters) inputs per stream",
        trusted_base=["Coq 8.16.1 kernel + vm_compute", "tools/regen_c03.py (class attributes, struct formats, database entries, ast of the ISK heuristic -> Gallina)",
                      "hand model Model/RotModel.v tied by correspondence", "Crypto/Sha2.v (SHA-256/384/512 from FIPS 180-4, validated on the NIST vectors)",
                      "cryptography/OpenSSL: PEM, DER, X.509 decoding and ECDSA/RSA key objects (black box)",
                      "pure-Python NIST curve arithmetic and hashlib in the check (oracles)"],
        checker_cmd="coqc -R . V Props/C03/*.v (after make Proofs/RotProofs.vo Proofs/RotBlockProofs.vo)",
        assumptions=["PEM/DER/X.509 decoding returns the public numbers of the encoded key (cryptography's parsers)",
                     "NXP raw key bytes are not themselves a valid PEM/DER object",
                     "certificates inside CertBlockV1 are opaque byte strings that form a valid chain (X.509 validation is cryptography's)",
                     "ECC points handed to SPSDK lie on their curve", "header fields fit their struct widths",
                     "the signature provider is a function of the message (ECDSA nonces are outside the model)"],
        extra_cov={"model_evaluations": nmodel, "oracle_hits": nviol, "input_encodings_exercised": encs_seen})


def _case_keys(c):
    ks = []
    for k in c.get("keys") or []:
        k = k[0] if isinstance(k, list) else k
        if k:
            ks.append(k)
    for f in ("isk", "key", "chain"):
        if c.get(f):
            ks.append(c[f])
    return sorted(set(ks))


def _accepted(c, r):
    for f in ("hash", "rkth", "fuses", "build", "calc_key_hash", "field", "parsed", "hash1"):
        if f in r:
            return r[f][0] == "ok"
    return False


def short(v):
    if v[0] == "b":
        return ("b", v[1].hex()[:24] + f"..{len(v[1])}B")
    if v[0] == "l":
        return ("l", [short(x) for x in v[1]])
    return v


if __name__ == "__main__":
    sys.exit(run(sys.argv[1] if len(sys.argv) > 1 else "quick"))
