"""C12 -- per-device configuration areas: template, configuration and binary round trips (DESIGN.md section 3, C12)."""
import concurrent.futures
import json
import os
import re
import sys
import time

sys.path.insert(0, os.path.dirname(os.path.dirname(os.path.abspath(__file__))))
import vlib
from vlib import VI, VB, VS, VL
import regen_c12

sys.set_int_max_str_digits(0)
PID = "C12"
THEOREMS = ["area_export_size", "area_seal_marks", "area_parse_export_id", "registers_parse_export_id", "area_value_in_binary",
            "computed_hold", "computed_methods_meet_relation", "tz_export_size", "tz_parse_export_id", "all_areas_swept",
            "all_areas_wf", "area_config_roundtrip_partial"]
# refutation theorems of recorded findings: (theorem, class of the database sweep that carries the finding)
REFUTED = [("group_value_truncated_refuted", "group-wider-than-its-sub-registers")]
PFR_KINDS = ("cmpa", "cfpa", "romcfg", "cmactable")
SKEY = {"bca": "bca", "fcf": "fcf", "fcb": "fcb_settings", "xmcd": "xmcd_settings", "tz": "trustZonePreset", "fuses": "registers"}
SEAL = b"SEAL"
HEXSTR = re.compile(r"0[xX][0-9A-Fa-f_]+")
WORKERS = 8


class Unmodelled(Exception):
    """a configuration value of a shape the model does not cover (reported, never silently dropped)"""


# ------------------------------------------------------------------ layout helpers (python mirror of find_reg / find_bitfield)
def resolve_reg(lay, key):
    """Registers.find_reg(key, include_group_regs=True): first register (then its sub-registers) whose name, alias or uid is key"""
    for i, r in enumerate(lay["regs"]):
        if key == r["name"] or key in r.get("aliases", []) or key == r["uid"]:
            return (i,), r
        for j, s in enumerate(r["subs"]):
            if key == s["name"] or key in s.get("aliases", []) or key == s["uid"]:
                return (i, j), s
    return None, None


def resolve_field(reg, key):
    for k, f in enumerate(reg["fields"]):
        if key == f["name"] or key == f["uid"]:
            return k
    return None


def enum_const(f, name):
    for (n, v) in f["enums"]:
        if n == name:
            return v
    return None


def py_value_to_int(x):
    """spsdk value_to_int on what YAML delivers (documented grammar; see C20) -- None when it is not a number"""
    if isinstance(x, bool):
        return int(x)
    if isinstance(x, int):
        return x
    if isinstance(x, str):
        s = x.strip().lower()
        m = re.fullmatch(r"(0[box])?([0-9a-f_]+?)([ul]{0,3})", s)
        if not m:
            return None
        base = {"0b": 2, "0o": 8, "0x": 16, None: 10}[m.group(1)]
        body = m.group(2)
        try:
            return int(body, base)
        except ValueError:
            return None
    return None


def mval(x):
    if isinstance(x, bool):
        return VI(int(x))
    if isinstance(x, int):
        return VI(x)
    if isinstance(x, str):
        return VS(x)
    raise Unmodelled(f"configuration value of type {type(x).__name__}")


def pk(v):
    """value -> compact wire format (strings and byte strings as numbers, see Model/AreaModel.v)"""
    k, x = v
    if k == "s":
        if all(ord(ch) < 256 for ch in x):
            return VL([VI(-6), VI(len(x)), VI(int.from_bytes(x.encode("latin-1"), "big"))])
        n = 0
        for ch in x:
            n = (n << 21) | ord(ch)
        return VL([VI(-1), VI(len(x)), VI(n)])
    if k == "b":
        return VL([VI(-2), VI(len(x)), VI(int.from_bytes(x, "big"))])
    if k == "l":
        return VL([pk(y) for y in x])
    return v


def lit(v):
    """Coq literal of a value for an expression wrapped in ( ... )%Z: no scope marks, large numbers in hexadecimal
    (Coq elaborates long decimal numerals and long terms slowly)"""
    k, x = v
    if k == "i":
        if x < 0:
            return f"VInt ({x})"
        return f"VInt {hex(x) if x >= 1 << 40 else x}"
    if k == "l":
        return "VList [" + "; ".join(lit(y) for y in x) + "]"
    if k == "e":
        return f"VErr {x}%N"
    return vlib.coq_lit(v)


NOEXP = VL([VI(-3)])
MARK = ("l", [("i", -4)])


def exp_bytes(res, key):
    if key not in res:
        return NOEXP
    r = res[key]
    return vlib.VE(r["err"]) if "err" in r else pk(VB(bytes.fromhex(r["ok"])))


def exp_snap(res, key):
    return exp_bytes(res, key)


def exp_ints(res, key):
    if key not in res:
        return NOEXP
    r = res[key]
    return vlib.VE(r["err"]) if "err" in r else VL([VI(x) for x in r["ok"]])


def exp_cfg(res, key):
    """the configuration as the model prints it -- only when the implementation delivered plain strings"""
    if key not in res:
        return NOEXP
    r = res[key]
    if "err" in r:
        return vlib.VE(r["err"])
    out = []
    for (name, fl, body) in r["ok"]:
        if fl == 0:
            if not isinstance(body, str):
                return NOEXP
            out.append(VL([VS(name), VI(0), VS(body)]))
        else:
            if not all(isinstance(v, str) for (_, v) in body):
                return NOEXP
            out.append(VL([VS(name), VI(1), VL([VL([VS(fn), VS(v)]) for (fn, v) in body])]))
    return pk(VL(out))


def expected_slots(case, res):
    """what the implementation produced, in the order of the model's answer; a slot equal to an earlier one is sent as a reference"""
    ex = expected_slots_full(case, res)
    out = []
    for i, e in enumerate(ex):
        ref = None
        if e != NOEXP and e[0] == "l":
            for j in range(i):
                if ex[j] == e:
                    ref = j
                    break
        out.append(VL([VI(-5), VI(ref)]) if ref is not None else e)
    return out


def expected_slots_full(case, res):
    kind = case["kind"]
    if "runner" in res or ("load" in res and "err" in res["load"]):
        return []
    if kind == "tz":
        return [exp_bytes(res, "export"), NOEXP, exp_bytes(res, "export2")]
    if case.get("parse_random") is not None:
        if "err" in res.get("parse5", {"err": 0}):
            return []
        return [NOEXP, exp_bytes(res, "export5"), exp_snap(res, "snap5"), exp_cfg(res, "get_config5"), exp_bytes(res, "export6")]
    e3 = exp_bytes(res, "export3") if "err" not in res.get("load3", {}) else vlib.VE(res["load3"]["err"])
    return [NOEXP, exp_snap(res, "snap"), exp_bytes(res, "export"), NOEXP, exp_bytes(res, "export2"), exp_snap(res, "snap2"),
            exp_cfg(res, "get_config"), e3, exp_snap(res, "snap3"), exp_ints(res, "option_words"), exp_ints(res, "option_words3"),
            exp_bytes(res, "sealed"), exp_bytes(res, "rotkh_export"), exp_bytes(res, "crc")]


def unpk(v):
    k, x = v
    if k == "l":
        if len(x) == 3 and x[0] == ("i", -1) and x[1][0] == "i" and x[2][0] == "i":
            n, ln = x[2][1], x[1][1]
            return ("s", "".join(chr((n >> (21 * (ln - 1 - i))) & 0x1FFFFF) for i in range(ln)))
        if len(x) == 3 and x[0] == ("i", -2) and x[1][0] == "i" and x[2][0] == "i":
            return ("b", x[2][1].to_bytes(x[1][1], "big"))
        if len(x) == 3 and x[0] == ("i", -6) and x[1][0] == "i" and x[2][0] == "i":
            return ("s", x[2][1].to_bytes(x[1][1], "big").decode("latin-1"))
        if len(x) == 3 and x[0] in (("i", -7), ("i", -8)) and x[1][0] == "i" and x[2][0] == "l":
            ln, out = x[1][1], b""
            for gi, g in enumerate(x[2][1]):
                out += g[1].to_bytes(min(7, ln - 7 * gi), "big")
            return ("b", out) if x[0][1] == -7 else ("s", out.decode("latin-1"))
        if len(x) == 2 and x[0] == ("i", -9) and x[1][0] == "l":
            return ("s", "".join(chr(c[1]) for c in x[1][1]))
        return ("l", [unpk(y) for y in x])
    return v


def settings_to_model(lay, settings):
    """settings dictionary -> list of model entries [ref, flavour, body, by_name]"""
    out = []
    if not isinstance(settings, dict):
        raise Unmodelled("settings is not a mapping")
    for key, val in settings.items():
        path, reg = resolve_reg(lay, key)
        if path is None:
            raise Unmodelled(f"register {key} not in the layout")
        ref = VL([VI(p) for p in path])
        byname = VI(int(key == reg["name"]))
        if isinstance(val, dict):
            if "value" in val:
                out.append(VL([ref, VI(1), mval(val["value"]), byname]))
                continue
            fl, inner = (2, val["bitfields"]) if "bitfields" in val else (3, val)
            if not isinstance(inner, dict):
                raise Unmodelled("bitfields is not a mapping")
            fs = []
            for fk, fv in inner.items():
                k = resolve_field(reg, fk)
                if k is None:
                    raise Unmodelled(f"bit-field {fk} not in register {key}")
                fs.append(VL([VI(k), mval(fv)]))
            out.append(VL([ref, VI(fl), VL(fs), byname]))
        else:
            out.append(VL([ref, VI(0), mval(val), byname]))
    return out


def reg_range(r):
    return (r["off"], r["off"] + r["w"] // 8)


def get_reg(lay, path):
    return lay["regs"][path[0]] if len(path) == 1 else lay["regs"][path[0]]["subs"][path[1]]


def all_names(lay):
    out = []
    for r in lay["regs"]:
        out.append(r["name"])
        out += [s["name"] for s in r["subs"]]
    return out


def yaml_fragile(name):
    """a string that YAML 1.1 (PyYAML, what load_configuration uses) does not read back as the same string when it is
    written as a plain scalar (Yes/No/On/Off, 00, 1:30 ...)"""
    import yaml
    try:
        return yaml.safe_load(name) != name
    except Exception:  # noqa
        return True


def fragile_enums(lay):
    out = []
    for r in lay["regs"]:
        for x in [r] + r["subs"]:
            for f in x["fields"]:
                out += [n for (n, _) in f["enums"] if yaml_fragile(n)]
    return out


def ambiguous_mask(r):
    """bits of the bit-fields of r that have two enums of the same name with different values"""
    m = 0
    for f in r["fields"]:
        seen = {}
        for (n, v) in f["enums"]:
            seen.setdefault(n, set()).add(v)
        if any(len(s) > 1 for s in seen.values()):
            m |= ((1 << f["w"]) - 1) << f["off"]
    return m


def dupfield_mask(r):
    names = [f["name"] for f in r["fields"]]
    m = 0
    for f in r["fields"]:
        if names.count(f["name"]) > 1:
            m |= ((1 << f["w"]) - 1) << f["off"]
    return m


def covered_mask(r):
    m = 0
    for f in r["fields"]:
        m |= ((1 << f["w"]) - 1) << f["off"]
    return m


def fragile_mask(r):
    m = 0
    for f in r["fields"]:
        if any(yaml_fragile(n) for (n, _) in f["enums"]):
            m |= ((1 << f["w"]) - 1) << f["off"]
    return m


def classify_reg(lay, path, kind):
    """structural input class of a register, for signatures"""
    i = path[0]
    top = lay["regs"][i]
    cls = []
    if top["alt"]:
        cls.append("alt-widths-reversed" if top["rev"] else "alt-widths")
    if top["subs"] and len(top["subs"]) * top["subs"][0]["w"] != top["w"]:
        cls.append("group-wider-than-its-sub-registers")
    if all_names(lay).count(get_reg(lay, path)["name"]) > 1:
        cls.append("duplicate-register-name")
    if kind != "fuses":
        a, b = reg_range(top)
        for k, o in enumerate(lay["regs"]):
            if k != i:
                c, d = reg_range(o)
                if a < d and c < b:
                    cls.append("overlapped-register")
                    break
    return ",".join(cls) if cls else "plain"


def explain_diff(lay, path, a, b, kind, fresh):
    """signature part for a register whose value changed from a to b in a configuration round trip: the causes of the
    recorded findings when b is EXACTLY what they produce, else the structural class of the register + ':other-outcome'"""
    pred, causes = predicted_cfg_roundtrip(lay, path, a, fresh)
    if causes and pred == b:
        return "+".join(sorted(causes))
    return classify_reg(lay, path, kind) + ":other-outcome"


def export_order(lay):
    """indices of the top-level registers in the order BinaryImage writes them (by offset, stable)"""
    return sorted(range(len(lay["regs"])), key=lambda i: lay["regs"][i]["off"])


def readback_outcome(lay, kind, path, want, got, sn, stage, touched):
    """signature part of a configured value that is not read back: the recorded finding(s) when got is EXACTLY what they
    produce (C12-F1 truncating group, C12-F3 reversal under another width, C12-F4 / F1 overlapped bytes), else ':other-outcome'"""
    r = get_reg(lay, path)
    cls = classify_reg(lay, path, kind)
    tags, w1 = [], want
    if len(path) == 1 and r["subs"] and len(r["subs"]) * r["subs"][0]["w"] < r["w"] and not r["rev"]:
        w1 = want & ((1 << (len(r["subs"]) * r["subs"][0]["w"])) - 1)
        tags.append("group-wider-than-its-sub-registers:kept-only-the-existing-sub-registers")
    if len(path) == 1 and r["alt"] and r["rev"] and ("aw", path[0]) in touched:
        nb = touched[("aw", path[0])][1] // 8
        w1 = d9_set(r, int.from_bytes(want.to_bytes(nb, "little"), "big"))          # from the configured number
        tags.append("alt-widths-reversed:reversed-under-the-width-the-value-selects")
    if tags and w1 != want and got == w1:
        return "+".join(tags)
    if stage == "after-export-parse" and len(path) == 1 and kind != "fuses" and "overlapped-register" in cls:
        order = export_order(lay)
        a, b = reg_range(r)
        bo = "big" if lay["big"] else "little"
        wb, gb = w1.to_bytes(b - a, bo), got.to_bytes(b - a, bo)
        ok = True
        for p in range(a, b):
            later = [q for q in order[order.index(path[0]) + 1:] if reg_range(lay["regs"][q])[0] <= p < reg_range(lay["regs"][q])[1]]
            if later:
                q = later[-1]
                qa, qb = reg_range(lay["regs"][q])
                ok &= gb[p - a] == sn[q][0].to_bytes(qb - qa, bo)[p - qa]
            else:
                ok &= gb[p - a] == wb[p - a]
        if ok:
            return "+".join([x for x in tags if w1 != want] + ["overlapped-register:overlapped-bytes-hold-the-later-register"])
    return cls + ":other-outcome"


def fresh_snap(lay):
    return [[fresh_raw(r)] + [s["value"] for s in r["subs"]] for r in lay["regs"]]


def snap_diff_classes(lay, kind, s1, s2, text=False):
    cls = set()
    fr = fresh_snap(lay)
    for i, (x, y) in enumerate(zip(s1, s2)):
        if x != y:
            r = lay["regs"][i]
            if r["subs"]:
                top_cls = explain_diff(lay, (i,), x[0], y[0], kind, fr[i][0])
                if not top_cls.endswith(":other-outcome"):
                    cls.add(top_cls)
                else:
                    sub = {explain_diff(lay, (i, j), p, q, kind, fr[i][1 + j]) for j, (p, q) in enumerate(zip(x[1:], y[1:])) if p != q}
                    cls |= (sub or {top_cls})
            else:
                cls.add(explain_diff(lay, (i,), x[0], y[0], kind, fr[i][0]))
    return "+".join(sorted(cls)) if cls else "no-register-differs"


# ------------------------------------------------------------------ value generation
def rnd_width_value(rng, w):
    c = rng.random()
    if c < 0.12:
        return 0
    if c < 0.24:
        return (1 << w) - 1
    if c < 0.32:
        return 1 << (w - 1)
    if c < 0.40:
        return 1
    return rng.getrandbits(w)


def num_form(rng, v, allow_str=True):
    c = rng.random()
    if not allow_str or c < 0.5:
        return v
    if c < 0.85:
        return hex(v)
    return str(v)


def gen_field_value(rng, f):
    """an in-range configuration value of one bit-field and the bits it must produce"""
    w, cnt = f["w"], (f["cnt"] if f["shr"] else 0)
    if f["enums"] and rng.random() < 0.7:
        n, v = rng.choice(f["enums"])
        pre = v >> cnt
        if 0 <= pre < (1 << w):
            # the first enum of this name is the one the loader finds
            v0 = enum_const(f, n)
            return n, v0 >> cnt
    bits = rnd_width_value(rng, w)
    val = num_form(rng, bits << cnt)
    if isinstance(val, str) and enum_const(f, val) is not None:
        e = enum_const(f, val) >> cnt             # the loader looks the string up among the enum names first
        if 0 <= e < (1 << w):
            return val, e
        return bits << cnt, bits
    return val, bits


def gen_settings(rng, lay, d, density):
    """random in-range settings for the registers the template offers; returns (settings, expected)
    expected: {path: raw value the register must hold} for registers whose final value the settings determine completely"""
    kind = d["kind"]
    settings, touched = {}, {}
    skip = set()
    if d.get("tag_reg") is not None:
        skip.add(d["tag_reg"])
    names_seen = set()
    for i, r in enumerate(lay["regs"]):
        if r["hidden"] or i in skip:
            continue
        if kind == "xmcd" and i < d.get("header_regs", 0):
            # header: structural bit-fields stay as the template has them
            inner = {}
            for f in r["fields"]:
                if f["name"] == "instance" and rng.random() < 0.5:
                    inner["instance"] = num_form(rng, rng.getrandbits(f["w"]))
            settings[r["name"]] = inner
            continue
        if rng.random() > density:
            continue
        if r["name"] in names_seen or resolve_reg(lay, r["name"])[0] != (i,):
            continue            # a name that the loader resolves to another register
        names_seen.add(r["name"])
        vis = [(k, f) for k, f in enumerate(r["fields"]) if not f["hidden"]]
        if r["subs"] and rng.random() < 0.3:
            # address the sub-registers instead of the group
            for j, s in enumerate(r["subs"]):
                if s["hidden"] or resolve_reg(lay, s["name"])[0] != (i, j) or s["name"] in settings:
                    continue
                v = rnd_width_value(rng, s["w"])
                settings[s["name"]] = num_form(rng, v)
                touched[(i, j)] = ("scalar", v)
            continue
        c = rng.random()
        if vis and c < 0.85:
            inner, exp = {}, []
            for k, f in vis:
                if rng.random() < 0.8 and resolve_field(r, f["name"]) == k:
                    val, bits = gen_field_value(rng, f)
                    inner[f["name"]] = val
                    exp.append((k, bits))
            if rng.random() < 0.08:
                settings[r["name"]] = {"bitfields": inner}
                touched[(i,)] = ("fields2", exp)
            else:
                settings[r["name"]] = inner
                touched[(i,)] = ("fields", exp)
        else:
            w = r["w"]
            aw = w
            if r["alt"] and rng.random() < 0.5:
                aw = rng.choice(r["alt"])
            v = rnd_width_value(rng, aw)
            if r["alt"]:
                # the digit count says which of the alternative widths is meant (what the template prints)
                form = format(v, "0%dX" % (aw // 4)) if r["hex"] else "0x" + format(v, "0%dX" % (aw // 4))
                touched[("aw", i)] = ("aw", aw)
            elif r["hex"]:
                form = format(v, "0%dX" % (aw // 4)) if rng.random() < 0.8 else v
            else:
                form = num_form(rng, v)
            if vis and rng.random() < 0.3:
                settings[r["name"]] = {"value": form}
                touched[(i,)] = ("value", v)
            else:
                settings[r["name"]] = form
                touched[(i,)] = ("scalar", v)
    return settings, touched


def alt_width_of(r, v):
    """Register.get_alt_width: the smallest alternative width the value fits in (else the full width)"""
    n = max(1, (v.bit_length() + 7) // 8)
    for a in sorted(r["alt"]):
        if n <= a // 8:
            return a
    return r["w"]


def d9_set(r, x):
    """the recorded outcome D9 / C12-F3 of set_value(x, raw=False) on a reversed register with alternative widths:
    the bytes are reversed under the width selected by the VALUE"""
    aw = alt_width_of(r, x)
    return int.from_bytes(x.to_bytes(aw // 8, "big"), "little")


def d9_get(r, raw):
    aw = alt_width_of(r, raw)
    return int.from_bytes(raw.to_bytes(aw // 8, "little"), "big")


def predicted_cfg_roundtrip(lay, path, a, fresh):
    """the recorded outcomes of get_config -> load on one register holding a (C12-F3, C12-F7): (predicted value, causes)"""
    r = get_reg(lay, path)
    causes = set()
    if r["alt"] and r["rev"] and not r["fields"]:
        b = d9_set(r, d9_get(r, a)) if d9_get(r, a) < (1 << r["w"]) else None
        return b, ({"alt-widths-reversed:reversed-under-the-width-the-value-selects"} if b is not None and b != a else set())
    if not r["fields"]:
        return a, causes
    b = a
    names = [f["name"] for f in r["fields"]]
    val = lambda v, f: (v >> f["off"]) & ((1 << f["w"]) - 1)
    put = lambda v, f, x: (v & ~(((1 << f["w"]) - 1) << f["off"])) | ((x & ((1 << f["w"]) - 1)) << f["off"])
    for k, f in enumerate(r["fields"]):
        old = val(a, f)
        if names.count(f["name"]) > 1:
            first = names.index(f["name"])
            last = len(names) - 1 - names[::-1].index(f["name"])
            new = val(a, r["fields"][last]) if k == first else val(fresh, f)
            if k == first and new >= (1 << f["w"]):
                return None, causes
            if new != old:
                causes.add("duplicate-bit-field-names")
            b = put(b, f, new)
            continue
        # written as the name of the first enum with this value, read as the first enum of that name
        nm = next((n for (n, v) in f["enums"] if v == (old << (f["cnt"] if f["shr"] else 0))), None)
        if nm is not None:
            c0 = enum_const(f, nm) >> (f["cnt"] if f["shr"] else 0)
            if c0 != old:
                causes.add("ambiguous-enum-names")
                b = put(b, f, c0)
    unc = ((1 << r["w"]) - 1) & ~covered_mask(r)
    if (a ^ fresh) & unc:
        causes.add("bits-outside-every-bit-field")
        b = (b & ~unc) | (fresh & unc)
    return b, causes


def byte_reverse(v, nbytes):
    return int.from_bytes(v.to_bytes(nbytes, "big"), "little")


def fresh_raw(r):
    if r.get("subs"):
        acc = 0
        w = r["subs"][0]["w"]
        n = len(r["subs"])
        for idx, s in enumerate(r["subs"], start=1):
            pos = (r["w"] - idx * w) if r["rev_sub"] else (idx - 1) * w
            acc |= s["value"] << pos
        return acc
    return r["value"]


def expected_raw(lay, d, touched, computed_apply):
    """what the property demands of the raw register values after loading (None: not determined by this oracle)"""
    exp = {}
    for path, (how, x) in touched.items():
        if how == "aw":
            continue
        r = lay["regs"][path[0]] if len(path) == 1 else lay["regs"][path[0]]["subs"][path[1]]
        nb = r["w"] // 8
        if how in ("scalar", "value"):
            if r["rev"]:
                if r["alt"]:
                    # the hex string of aw/4 digits is the content of the first aw/8 bytes of the register
                    nb = touched[("aw", path[0])][1] // 8
                exp[path] = byte_reverse(x, nb)
            else:
                exp[path] = x
        else:
            if r["rev"]:
                continue
            raw = fresh_raw(r)
            for (k, bits) in x:
                f = r["fields"][k]
                mask = ((1 << f["w"]) - 1) << f["off"]
                raw = (raw & ~mask) | ((bits << f["off"]) & mask)
            exp[path] = raw
    # computed fields of PFR areas
    for c in d.get("computed", []):
        p = (c["reg"][0],)
        if p in touched and p in exp:
            how, x = touched[p]
            compute = how == "value" or how == "fields2" or (how == "fields" and all(k != c["field"] for (k, _) in x))
            if compute:
                exp[p] = computed_apply(c["method"], exp[p])
    # a sub-register written after its group (or the other way round) is not tracked
    tops = {p[0] for p in touched if len(p) == 2 and p[0] != "aw"}
    for p in list(exp):
        if len(p) == 1 and p[0] in tops:
            del exp[p]
    return exp


def spec_computed(method, v):
    """the documented relation, written independently of the source"""
    if method == "pfr_reg_inverse_high_half":
        lo = v & 0xFFFF
        return lo | ((~lo & 0xFFFF) << 16)
    if method == "pfr_reg_inverse_lower_8_bits":
        lo = v & 0xFF
        return (v & 0xFFFF00FF) | ((~lo & 0xFF) << 8)
    raise KeyError(method)


def computed_holds(method, v):
    if method == "pfr_reg_inverse_high_half":
        return (v >> 16) & 0xFFFF == (~v) & 0xFFFF
    if method == "pfr_reg_inverse_lower_8_bits":
        return (v >> 8) & 0xFF == (~v) & 0xFF
    raise KeyError(method)


def crc32_mpeg2(data):
    """CRC-32/MPEG-2 bit by bit (poly 04C11DB7, init FFFFFFFF, no reflection, no final xor)"""
    reg = 0xFFFFFFFF
    for b in data:
        reg ^= b << 24
        for _ in range(8):
            reg = ((reg << 1) ^ 0x04C11DB7) & 0xFFFFFFFF if reg & 0x80000000 else (reg << 1) & 0xFFFFFFFF
    return reg


# ------------------------------------------------------------------ cases
def doc_size(d, lay):
    k = d["kind"]
    if k in PFR_KINDS or k in ("bca", "fcf", "fcb"):
        return d["size"]
    return None


def layout_end(lay):
    return max([reg_range(r)[1] for r in lay["regs"]] + [0])


def make_cases(tier, rng, R):
    """R: result of regen (layouts, instances, amap, model_layouts)"""
    layouts, inst = R["layouts"], R["instances"]
    thorough = tier == "thorough"
    by_layout = {}
    for row in inst:
        by_layout.setdefault(row[4], []).append(row)
    cases = []
    for li, rows in sorted(by_layout.items()):
        d = layouts[li]
        kind = d["kind"]
        # template scenario: every instance in thorough, the first instance of every layout (and the last, for the text
        # round trip) in quick
        trows = rows if thorough else [rows[0]]
        for n, row in enumerate(trows):
            cases.append({"scenario": "template", "kind": kind, "family": row[1], "rev": row[2], "sub": row[3], "layout": li,
                          "text": int(thorough and n == 0)})
        if kind == "tz":
            n = 24 if thorough else 2
            for q in range(n):
                row = rows[q % len(rows)]
                customs = {}
                for (name, dflt) in d["presets"]:
                    if rng.random() < (0.15 if q else 1.0):
                        v = rnd_width_value(rng, 32)
                        customs[name] = num_form(rng, v)
                c = {"scenario": "values", "kind": kind, "family": row[1], "rev": row[2], "sub": row[3], "layout": li,
                     "settings": customs}
                if q == n - 1:
                    c["history"] = 1
                    c["settings2"] = {name: num_form(rng, rnd_width_value(rng, 32)) for (name, _) in d["presets"] if rng.random() < 0.2}
                cases.append(c)
            continue
        lay, _ = R["model_layouts"][li]
        slow = kind in ("xmcd", "fcb")      # their get_config already goes through the YAML text, their loaders validate
        nvals = ((12 if slow else 40) if thorough else (2 if slow else 3))
        for q in range(nvals):
            row = rows[(q * 7) % len(rows)]
            density = [1.0, 0.5, 0.15][q % 3]
            settings, touched = gen_settings(rng, lay, d, density)
            if thorough:
                validate, text = int(q % 4 == 0), int(q % 4 == 1 and not slow)
            else:
                validate = int(q == 0 and kind != "xmcd" and li % 3 == 0)
                text = int(q == 1 and not slow and (kind != "fuses" or li % 3 == 1))
            c = {"scenario": "values", "kind": kind, "family": row[1], "rev": row[2], "sub": row[3], "layout": li,
                 "settings": settings, "touched": touched, "validate": validate, "text": text}
            if q == nvals - 1 or (thorough and q % 5 == 3):
                # the same object exported repeatedly, changed through the public API, exported again
                c["history"] = 1
                s2, _ = gen_settings(rng, lay, d, 0.25)
                if kind == "xmcd":
                    s2.pop(lay["regs"][0]["name"], None)           # the header stays as loaded
                    _, opt = R["model_layouts"][li]
                    if opt:                                           # the layout-affecting member: optionSize 0 <-> 1
                        cur = settings.get("configOption0")
                        was0 = isinstance(cur, dict) and py_value_to_int(cur.get("optionSize", 1)) == 0
                        s2["configOption0"] = {"optionSize": 1 if was0 else 0}
                c["settings2"] = s2
                c["keys"] = int(kind == "cmpa" and d.get("rotkh") is not None and (thorough or li % 2 == 0))
            if kind in PFR_KINDS:
                c["seal"] = 1
                if d.get("rotkh") is not None:
                    r = lay["regs"][d["rotkh"]]
                    widths = sorted(set([r["w"]] + list(r["alt"])))
                    nb = rng.choice(widths) // 8
                    rk = bytearray(rng.getrandbits(8) for _ in range(nb))
                    m = q % 3
                    if m == 1:
                        rk[0] = 0               # leading zero byte
                    if m == 2 and nb > 32:
                        rk[:nb - 32] = bytes(nb - 32)   # a long hash that fits the smaller width
                    c["rotkh"] = bytes(rk).hex()
            cases.append(c)
        # the area's parser on arbitrary binaries (the fuse map has no binary form)
        if kind == "fuses":
            continue
        nrand = (10 if thorough else 1)
        for q in range(nrand):
            row = rows[(q * 5 + 1) % len(rows)]
            size = max(doc_size(d, lay) or 0, layout_end(lay))
            fill = d.get("fill", 0)
            blob = bytearray((rng.getrandbits(8) if rng.random() < (0.5 if q % 2 == 0 else 1.0) else fill) for _ in range(size))
            fix_structural(d, lay, blob, rng)
            cases.append({"scenario": "values", "kind": kind, "family": row[1], "rev": row[2], "sub": row[3], "layout": li,
                          "settings": ({lay["regs"][0]["name"]: {}} if kind == "xmcd" else {}), "touched": {},
                          "parse_random": bytes(blob).hex()})
    return cases


def put_field(blob, lay, i, fname, value):
    r = lay["regs"][i]
    k = resolve_field(r, fname)
    if k is None:
        return
    f = r["fields"][k]
    a, b = reg_range(r)
    order = "big" if lay["big"] else "little"
    v = int.from_bytes(blob[a:b], order)
    mask = ((1 << f["w"]) - 1) << f["off"]
    v = (v & ~mask) | ((value << f["off"]) & mask)
    blob[a:b] = v.to_bytes(b - a, order)


def get_field(blob, lay, i, fname):
    r = lay["regs"][i]
    f = r["fields"][resolve_field(r, fname)]
    a, b = reg_range(r)
    v = int.from_bytes(blob[a:b], "big" if lay["big"] else "little")
    return (v >> f["off"]) & ((1 << f["w"]) - 1)


def fix_structural(d, lay, blob, rng):
    """make a random binary a well-formed instance of its area: tags, the self-describing XMCD header, computed fields"""
    k = d["kind"]
    if d.get("tag") is not None:
        a, b = reg_range(lay["regs"][d["tag_reg"]])
        blob[a:b] = bytes.fromhex(d["tag"])
    if k == "xmcd":
        h = lay["regs"][0]
        a, b = reg_range(h)
        blob[a:b] = h["value"].to_bytes(b - a, "little")
        names = [r["name"] for r in lay["regs"]]
        size = len(blob)
        if "configOption0" in names and "configOption1" in names and resolve_field(lay["regs"][names.index("configOption0")], "optionSize") is not None:
            if get_field(blob, lay, names.index("configOption0"), "optionSize") == 0:
                size = reg_range(lay["regs"][names.index("configOption1")])[0]
                del blob[size:]
        put_field(blob, lay, 0, "configurationBlockSize", size)
    if k in PFR_KINDS and rng.random() < 0.7:
        for c in d.get("computed", []):
            r = lay["regs"][c["reg"][0]]
            a, b = reg_range(r)
            v = int.from_bytes(blob[a:b], "little")
            blob[a:b] = spec_computed(c["method"], v).to_bytes(b - a, "little")


# ------------------------------------------------------------------ model side
def model_expr(case, R, res):
    li = case["layout"]
    kind, idx = R["amap"][li]
    d = R["layouts"][li]
    exps = lit(VL(expected_slots(case, res)))
    if kind == "tz":
        names = [n for (n, _) in d["presets"]]
        cu = []
        for k_, v_ in case["model_settings"].items():
            if k_ not in names:
                raise Unmodelled("unknown preset name")
            cu.append(VL([VI(names.index(k_)), mval(v_)]))
        return f"(run_tz tz_{idx} [{lit(pk(VL(cu)))}; {exps}])%Z"
    lay, _ = R["model_layouts"][li]
    if case.get("parse_random") is not None:
        return f"(run_area area_{idx} 2 [{lit(pk(VB(bytes.fromhex(case['parse_random']))))}; {exps}])%Z"
    entries = settings_to_model(lay, case["model_settings"])
    rot = bytes.fromhex(case["rotkh"]) if case.get("rotkh") else b""
    return (f"(run_area area_{idx} 1 [{lit(pk(VL(entries)))}; VInt {int(bool(case.get('seal')))}; "
            f"{lit(pk(VB(rot)))}; {exps}])%Z")


def canon_cfg_value(v, hexreg=False):
    if isinstance(v, bool):
        return ("i", int(v))
    if isinstance(v, int):
        return ("i", v)
    if isinstance(v, str):
        if HEXSTR.fullmatch(v):
            return ("i", int(v.replace("_", ""), 16))
        if hexreg and re.fullmatch(r"[0-9A-Fa-f]+", v):
            return ("i", int(v, 16))
        return ("s", v)
    return ("?", repr(v))


def canon_cfg(lay, items):
    """[[name, 0, v] | [name, 1, [[field, v]...]]] -> comparable"""
    out = []
    for it in items:
        name, fl, body = it
        _, reg = resolve_reg(lay, name)
        if fl == 0:
            out.append((name, 0, canon_cfg_value(body, bool(reg and reg["hex"]))))
        else:
            out.append((name, 1, tuple((fn, canon_cfg_value(v)) for (fn, v) in body)))
    return out


def model_cfg_items(v):
    """the configuration printed by the model -> the items format"""
    out = []
    for e in v[1]:
        name, fl, body = e[1][0][1], e[1][1][1], e[1][2]
        if fl == 0:
            out.append([name, 0, body[1]])
        else:
            out.append([name, 1, [[p[1][0][1], p[1][1][1]] for p in body[1]]])
    return out


def impl_slot(res, key, conv=lambda x: x):
    """('ok', value) | ('e', kind) | None (absent)"""
    if key not in res:
        return None
    r = res[key]
    if "err" in r:
        return ("e", r["err"])
    return ("ok", conv(r["ok"]))


def model_slot(v, conv=lambda x: x):
    if v == MARK:
        return "same"           # the model found its value equal to what the implementation produced
    if v[0] == "e":
        return ("e", v[1])
    return ("ok", conv(v))


def mbytes(v):
    return v[1].hex() if v[0] == "b" else None


def mints(v):
    return [x[1] for x in v[1]]


def msnap(v):
    return v[1].hex() if v[0] == "b" else None


def decode_snap(lay, hexstr):
    """snapshot bytes -> [[top raw, sub raws...] per register]"""
    b = bytes.fromhex(hexstr)
    out, pos = [], 0
    for r in lay["regs"]:
        row = []
        for x in [r] + r["subs"]:
            n = x["w"] // 8
            row.append(int.from_bytes(b[pos:pos + n], "big"))
            pos += n
        out.append(row)
    if pos != len(b):
        raise ValueError("snapshot length does not match the layout")
    return out


# ------------------------------------------------------------------ implementation side
def run_impl_parallel(cases, timeout=3000):
    """cases -> results, over several implementation processes"""
    if not cases:
        return []
    n = min(WORKERS, max(1, len(cases) // 4))
    # longest first, round robin: keeps the expensive instances spread
    order = sorted(range(len(cases)), key=lambda i: -(3 if cases[i]["scenario"] == "template" else 1 + 2 * bool(cases[i].get("validate")) + 2 * bool(cases[i].get("text"))))
    chunks = [[] for _ in range(n)]
    for pos, i in enumerate(order):
        chunks[pos % n].append((i, cases[i]))

    def work(chunk):
        payload = {"op": "run", "cases": [{k: v for k, v in c.items() if k not in ("touched", "layout", "model_settings")} for (_, c) in chunk]}
        return vlib.run_impl("c12_impl.py", payload, timeout=timeout)["results"]

    out = [None] * len(cases)
    with concurrent.futures.ThreadPoolExecutor(max_workers=n) as ex:
        for chunk, res in zip(chunks, ex.map(work, chunks)):
            for (i, _), r in zip(chunk, res):
                out[i] = r
    return out


def diff_bytes(a, other):
    if "err" in other:
        return f"error {other}"
    b = bytes.fromhex(other["ok"])
    if len(a) != len(b):
        return f"lengths {len(a)} / {len(b)}"
    for i, (x, y) in enumerate(zip(a, b)):
        if x != y:
            return f"first difference at {i:#x}: {x:#04x} / {y:#04x}"
    return "equal"


def check_fuse_script(lay, case, res):
    """every fuse named in the configuration is programmed with its raw value"""
    text = res["script"]["ok"]
    words = {}
    for m in re.finditer(r"(?:efuse-program-once\s+(\d+)\s+0x([0-9A-Fa-f]+)|write-fuse --index (\d+) --data 0x([0-9A-Fa-f]+))", text):
        idx = int(m.group(1) or m.group(3))
        words[idx] = int(m.group(2) or m.group(4), 16)
    sn = res["snap"]["ok"]
    settings = case.get("settings") if case["scenario"] == "values" else None
    if settings is None:
        return None
    for key in settings:
        path, r = resolve_reg(lay, key)
        if path is None:
            continue
        targets = [(path, r)] if not r.get("subs") else [((path[0], j), s) for j, s in enumerate(r["subs"])]
        for p, t in targets:
            if t.get("otp") is None:
                continue
            want = sn[p[0]][0] if len(p) == 1 else sn[p[0]][1 + p[1]]
            if words.get(t["otp"]) != want:
                return f"fuse {t['name']} (OTP index {t['otp']}) holds {want:#x} but the script programs {words.get(t['otp'])}"
    return None


def layout_class(d, lay, what):
    """input class of a whole layout for the given kind of failure (specific signatures for known findings)"""
    k = d["kind"]
    if what == "tz-yaml":
        return "preset-name-longer-than-the-yaml-line" if max(len(n) for (n, _) in d["presets"]) > 70 else "plain"
    if what == "schema":
        return "enum-name-not-a-yaml-string" if fragile_enums(lay) else "plain"
    if what == "memcfg-count":
        r0 = [r for r in lay["regs"] if not r["hidden"]][:1]
        if d.get("rule") == "OptionSize" and r0 and resolve_field(r0[0], "OptionSize") is None:
            return "rule-OptionSize-without-OptionSize-bit-field"
        return f"rule-{d.get('rule')}"
    if what == "own-config":
        names = all_names(lay)
        return "duplicate-register-names" if len(set(names)) != len(names) else "plain"
    if what == "size":
        ds = doc_size(d, lay)
        return "registers-beyond-documented-size" if ds is not None and layout_end(lay) > ds else "plain"
    if what == "tag":
        if d.get("tag") is not None:
            r = lay["regs"][d["tag_reg"]]
            if r["value"].to_bytes(r["w"] // 8, "big" if lay["big"] else "little") != bytes.fromhex(d["tag"]):
                return "tag-register-resets-to-another-value"
        return "plain"
    return "plain"


def sweep_problems(d, lay):
    """Python mirror of wf_area_b / known_class_b (Proofs/AreaProofs.v): (problems, known classes) of one layout"""
    probs, known = [], set()
    sized = bool(d.get("sized"))
    size = d.get("size", 0)

    def chk_sreg(x, top):
        w = x["w"]
        if w <= 0 or w % 8:
            probs.append(f"{x['name']}: width {w}")
            return
        if not 0 <= x["value"] < 1 << w or not 0 <= x["reset"] < 1 << w:
            probs.append(f"{x['name']}: value or reset value outside {w} bits")
        if x["alt"]:
            if not top:
                probs.append(f"{x['name']}: sub-register with alternative widths")
            elif any(a <= 0 or a > w or a % 8 for a in x["alt"]):
                probs.append(f"{x['name']}: alternative widths {x['alt']} of a {w}-bit register")
            else:
                known.add("alternative-widths")
        fs = x["fields"]
        for f in fs:
            if f["off"] < 0 or f["w"] <= 0 or f["off"] + f["w"] > w or f["cnt"] < 0:
                probs.append(f"{x['name']}.{f['name']}: bit-field [{f['off']}, {f['off'] + f['w']}) outside the {w}-bit register")
        for a in range(len(fs)):
            for b in range(a + 1, len(fs)):
                if not (fs[a]["off"] + fs[a]["w"] <= fs[b]["off"] or fs[b]["off"] + fs[b]["w"] <= fs[a]["off"]):
                    probs.append(f"{x['name']}: bit-fields {fs[a]['name']} and {fs[b]['name']} overlap")

    for r in lay["regs"]:
        chk_sreg(r, True)
        for s in r["subs"]:
            chk_sreg(s, False)
        if r["subs"]:
            if any(s["w"] != r["subs"][0]["w"] for s in r["subs"]):
                probs.append(f"{r['name']}: sub-registers of different widths")
            elif len(r["subs"]) * r["subs"][0]["w"] < r["w"]:
                known.add("group-wider-than-its-sub-registers")
            elif len(r["subs"]) * r["subs"][0]["w"] > r["w"]:
                probs.append(f"{r['name']}: group narrower than its sub-registers")
            if r["value"] != 0:
                probs.append(f"{r['name']}: group register with an own value")
        a, b = reg_range(r)
        if a < 0 or (sized and b > size):
            probs.append(f"{r['name']}: bytes [{a}, {b}) outside the {size}-byte binary")
    if size < 0 or (sized and (size <= 0 or d["kind"] not in PFR_KINDS)):
        probs.append("size / kind")
    if not 0 <= d.get("fill", 0) <= 255:
        probs.append("fill")
    seen = set()
    for c in d.get("computed", []):
        i = c["reg"][0]
        r = lay["regs"][i]
        if i in seen:
            probs.append(f"{r['name']}: two computed fields")
        seen.add(i)
        if r["w"] != 32 or c["method"] not in ("pfr_reg_inverse_high_half", "pfr_reg_inverse_lower_8_bits"):
            probs.append(f"{r['name']}: computed field on a {r['w']}-bit register / method {c['method']}")
            continue
        a, b = reg_range(r)
        for k, o in enumerate(lay["regs"]):
            if k != i and a < reg_range(o)[1] and reg_range(o)[0] < b:
                probs.append(f"{r['name']}: register with a computed field overlaps {o['name']}")
        f = r["fields"][c["field"]]
        want = (16, 16) if c["method"] == "pfr_reg_inverse_high_half" else (8, 8)
        if (f["off"], f["w"]) != want:
            probs.append(f"{r['name']}.{f['name']}: computed bit-field at [{f['off']}, {f['off'] + f['w']}), the method fills "
                         f"[{want[0]}, {want[0] + want[1]})")
    if d.get("seal"):
        s, n = d["seal"]
        if s < 0 or n < 0 or s + 4 * n > size:
            probs.append("seal words outside the binary")
    if not sized and size:
        end = layout_end(lay)
        if end > size:
            known.add("registers-beyond-documented-size")
        elif end != size:
            probs.append(f"register file of {end} bytes, documented size {size}")
    return probs, known


def sweep(rep, R):
    """when the sweep theorem fails the offending database entry is the replay; also the measured class counts"""
    counts = {"well-formed": 0}
    for li, d in enumerate(R["layouts"]):
        if d["kind"] == "tz":
            continue
        lay, _ = R["model_layouts"][li]
        probs, known = sweep_problems(d, lay)
        users = [i for i in R["instances"] if i[4] == li]
        if probs and rep is not None:
            rep.failing(f"sweep:{d['kind']}:malformed-layout", f"{d['kind']} {users[0][1]}/{users[0][2]}{('/' + users[0][3]) if users[0][3] else ''} "
                        f"({len(users)} instances): {probs[0]}",
                        {"kind": "database-sweep", "instances": users[:20], "problems": probs[:20]})
        if known:
            for k in known:
                counts[k] = counts.get(k, 0) + 1
        elif not probs:
            counts["well-formed"] += 1
            if all(not r["fields"] or covered_mask(r) == (1 << r["w"]) - 1 for r in lay["regs"]):
                counts["well-formed and tiled by bit-fields"] = counts.get("well-formed and tiled by bit-fields", 0) + 1
    return counts


def history_oracle(case, res, fail):
    """one object, several exports: byte-identical repeats; an export after a change equals the export of a twin that was
    changed without having exported before"""
    h = res.get("history")
    if not h:
        return 0
    kind = case["kind"]
    ops0 = [f"load_from_config({kind} {case['family']}/{case['rev']}/{case['sub']}, settings)"]
    n = 0

    def same(a_, b_, what, ops, sig="second-export-differs"):
        nonlocal n
        if a_ not in h or b_ not in h:
            return
        n += 1
        x, y = h[a_], h[b_]
        if x != y:
            det = diff_bytes(bytes.fromhex(x["ok"]), y) if "ok" in x else f"{x} / {y}"
            fail(f"history:{sig}:{kind}:{what}", f"{what}: {det}", {"operations": ops0 + ops, "first": x, "second": y})

    if "load" in h:
        return 0
    same("e1", "e2", "export", ["export()", "export()"])
    same("s1", "s2", "export-sealed", ["export()", "export()", "export(add_seal=True)", "export(add_seal=True)"])
    same("e1", "e3", "export-after-sealed-export", ["export()", "export(add_seal=True) x2", "export()"])
    same("r1", "r2", "export-rotkh", ["export(rotkh=h)", "export(rotkh=h)"])
    same("r_fresh", "r1", "export-rotkh", ["fresh object: export(rotkh=h)"])
    same("k1", "k2", "export-keys", ["export(keys=[k0, k1])", "export(keys=[k0, k1])"])
    same("k_fresh", "k1", "export-keys", ["fresh object: export(keys=[k0, k1])"])
    same("p1", "p2", "parse-export", ["parse(export()).export()", "the same parsed object: export()"])
    if "change" in h:
        n += 1
        fail(f"history:change-rejected:{kind}", f"in-range settings were rejected by a live object: {h['change']}",
             {"operations": ops0 + ["export()", "apply settings2"], "settings2": case.get("settings2")})
        return n
    chg = ["export()", "export()", "apply settings2 through the public API", "export()"]
    same("m1", "m2", "export-after-change", chg + ["export()"])
    same("twin", "m1", "export", ["twin: load_from_config(settings); apply settings2; export()"] + chg, sig="stale-after-change")
    if kind == "xmcd" and "ok" in h.get("m1", {}):
        # the layout-affecting member (optionSize) was changed: the block must still describe itself
        n += 1
        m1 = bytes.fromhex(h["m1"]["ok"])
        size_field = int.from_bytes(m1[0:4], "little") & 0xFFF
        rl = h.get("m_reload", {})
        if size_field != len(m1) or h.get("m_verify_errors", {}).get("ok") != 0:
            e1 = bytes.fromhex(h["e1"]["ok"]) if "ok" in h.get("e1", {}) else b""
            tag = "header-keeps-the-size-of-the-earlier-layout" if (size_field == len(e1) != len(m1) and m1[4:] == bytes.fromhex(h["twin"]["ok"])[4:len(m1)]
                                                                    and len(bytes.fromhex(h["twin"]["ok"])) == len(m1)) else "other-outcome"
            fail(f"history:stale-after-change:{kind}:header-size:{tag}", f"after optionSize was changed on a loaded object the exported block has "
                 f"{len(m1)} bytes but its header says {size_field} (verify errors: {h.get('m_verify_errors')}); a fresh object loaded with the "
                 f"resulting configuration exports {rl.get('ok', rl)}",
                 {"operations": ops0 + chg, "settings2": case.get("settings2"), "export": h["m1"]["ok"]})
    return n


def apply_oracles(rep, case, res, R):
    """spec oracles on the implementation's own outputs; returns the number of checks made"""
    d = R["layouts"][case["layout"]]
    kind = case["kind"]
    where = f"{kind} {case['family']}/{case['rev']}" + (f"/{case['sub']}" if case["sub"] else "")
    nchecks = 0

    def fail(sig, what, extra=None):
        rp = {"kind": "impl-oracle", "case": {k: v for k, v in case.items() if k not in ("touched", "model_settings")}}
        if extra:
            rp.update(extra)
        rep.failing(sig, f"{where}: {what}", rp)

    if "runner" in res:
        fail(f"runner:{kind}:crash", f"the area could not be driven at all: {res['runner']}")
        return 1
    scen = case["scenario"]
    lay = None if kind == "tz" else R["model_layouts"][case["layout"]][0]
    if lay is not None:
        res = dict(res)
        for k_ in ("snap", "snap2", "snap3", "snap4", "snap5", "snap6"):
            if k_ in res and "ok" in res[k_]:
                res[k_] = {"ok": decode_snap(lay, res[k_]["ok"])}
    if scen == "template":
        for stage, text in (("template", "template generation failed"), ("yaml", "the template is not a YAML mapping"),
                            ("schema", "the template does not satisfy the area's own validation schema")):
            nchecks += 1
            if stage in res and "err" in res[stage]:
                cls = "plain"
                if kind == "tz" and stage == "yaml":
                    cls = layout_class(d, lay, "tz-yaml")
                elif stage == "schema" and kind != "tz":
                    cls = layout_class(d, lay, "schema")
                fail(f"template:{kind}:{stage}:{cls}", f"{text}: {res[stage]}")
                if stage != "schema":
                    return nchecks
    if "load" in res and "err" in res["load"]:
        nchecks += 1
        if scen == "template":
            cls = layout_class(d, lay, "schema") if ("err" in res.get("schema", {}) and kind in ("fuses", "xmcd")) else "plain"
            fail(f"template:{kind}:load:{cls}", f"the template does not load: {res['load']}")
        else:
            fail(f"load:{kind}:in-range-values-rejected", f"in-range settings were rejected: {res['load']}",
                 {"settings": case.get("settings")})
        return nchecks
    if scen == "values" and "schema" in res and "err" in res["schema"]:
        nchecks += 1
        fail(f"schema:{kind}:in-range-values-rejected", f"in-range settings fail the area's validation schema: {res['schema']}")
    if kind == "tz":
        e1 = res.get("export", {})
        nchecks += 3
        if "err" in e1:
            fail(f"export:{kind}:failed", f"export failed: {e1}")
            return nchecks
        b = bytes.fromhex(e1["ok"])
        if len(b) != d["size"]:
            fail(f"size:{kind}", f"exported {len(b)} bytes, documented {d['size']}")
        # every word is the configured or the preset value
        src = case.get("settings") if scen == "values" else (res.get("template_cfg", {}) or {}).get("trustZonePreset", {})
        for i, (n, dflt) in enumerate(d["presets"]):
            want = py_value_to_int(src.get(n, dflt)) if isinstance(src, dict) else None
            got = int.from_bytes(b[4 * i:4 * i + 4], "little")
            if want is not None and want != got:
                fail(f"value-readback:{kind}", f"preset {n}: configured {want:#x}, exported word {got:#x}")
                break
        if "err" in res.get("parse", {"err": 0}):
            fail(f"parse:{kind}:rejects-own-export", f"from_binary rejects the exported data: {res.get('parse')}")
        elif res.get("export2", {}).get("ok") != e1["ok"]:
            fail(f"roundtrip:{kind}:parse-export", "from_binary(export).export() differs from export")
        if res.get("export3", {}).get("ok") != e1["ok"]:
            fail(f"roundtrip:{kind}:config", "the customisations read back from the binary export differently")
        nchecks += history_oracle(case, res, fail)
        return nchecks
    e1 = res.get("export", {})
    nchecks += 1
    if "err" in e1:
        fail(f"export:{kind}:failed", f"export failed: {e1}")
        return nchecks
    b1 = bytes.fromhex(e1["ok"])
    # documented size
    nchecks += 1
    ds = doc_size(d, lay)
    if kind == "xmcd":
        ds = int.from_bytes(b1[0:4], "little") & 0xFFF if len(b1) >= 4 else -1
    if kind == "memcfg":
        ds = 4 * len(lay["regs"])
    if ds is not None and len(b1) != ds:
        cls = layout_class(d, lay, "size")
        if cls != "plain" and len(b1) != layout_end(lay):
            cls += ":other-length"
        fail(f"size:{kind}:{cls}", f"exported {len(b1)} bytes, documented size {ds}")
    # the area's own parser accepts the export and re-exports it identically
    if kind != "fuses":
        nchecks += 1
        if "parse" in res and "err" in res["parse"]:
            cls = layout_class(d, lay, "tag")
            if cls != "plain":
                ta, tb = reg_range(lay["regs"][d["tag_reg"]])
                if res["parse"]["err"] != 1 or b1[ta:tb] == bytes.fromhex(d["tag"]):
                    cls += ":other-outcome"
            fail(f"parse:{kind}:rejects-own-export:{cls}", f"the area's parser rejects the exported binary: {res['parse']}")
        elif "export2" in res:
            if res["export2"].get("ok") != e1["ok"]:
                cls = snap_diff_classes(lay, kind, res["snap"]["ok"], res["snap2"]["ok"]) if "ok" in res.get("snap", {}) and "ok" in res.get("snap2", {}) else "?"
                fail(f"roundtrip:{kind}:parse-export:{cls}", "parse(export).export() differs from export: " + diff_bytes(b1, res["export2"]))
    # computed fields in the exported bytes
    comp_ok = True
    for c in d.get("computed", []):
        r = lay["regs"][c["reg"][0]]
        a, bnd = reg_range(r)
        v = int.from_bytes(b1[a:bnd], "little")
        holds = computed_holds(c["method"], v)
        comp_ok &= holds
        p = (c["reg"][0],)
        t = case.get("touched", {}).get(p)
        demanded = False
        if scen == "template":
            demanded = True          # the template names every register as a mapping without the computed bit-field
        elif t:
            how, x = t
            demanded = how in ("value", "fields2") or (how == "fields" and all(k != c["field"] for (k, _) in x))
        if demanded:
            nchecks += 1
            if not holds:
                fail(f"computed:{kind}:{c['method']}", f"computed field {c['field_name']} of {c['reg_name']} does not hold in the "
                     f"exported binary: register value {v:#010x}")
    # configured values are in the object and survive export -> parse
    if scen == "values" and case.get("touched"):
        exp = expected_raw(lay, d, case["touched"], spec_computed)
        _, opt = R["model_layouts"][case["layout"]]
        for snapkey, stage in (("snap", "after-load"), ("snap2", "after-export-parse")):
            sn = res.get(snapkey, {}).get("ok")
            if sn is None:
                continue
            for path, want in sorted(exp.items()):
                if opt and stage == "after-export-parse" and path == (opt[2],):
                    f = lay["regs"][opt[0]]["fields"][opt[1]]
                    if (sn[opt[0]][0] >> f["off"]) & ((1 << f["w"]) - 1) == 0:
                        continue     # XMCD: configOption1 is not part of the block while optionSize is 0
                nchecks += 1
                got = sn[path[0]][0] if len(path) == 1 else sn[path[0]][1 + path[1]]
                if got != want:
                    r = get_reg(lay, path)
                    fail(f"value-readback:{kind}:{stage}:{readback_outcome(lay, kind, path, want, got, sn, stage, case['touched'])}",
                         f"register {r['name']} was configured to hold {want:#x} but holds {got:#x} {stage.replace('-', ' ')}",
                         {"register": r["name"]})
                    break
    # configuration round trip
    if "get_config" in res:
        nchecks += 1
        if "err" in res["get_config"]:
            cls = layout_class(d, lay, "memcfg-count") if kind == "memcfg" else "plain"
            fail(f"config:{kind}:get_config-failed:{cls}", f"get_config failed: {res['get_config']}")
        elif "load3" in res and "err" in res["load3"]:
            fail(f"config:{kind}:own-config-rejected:{layout_class(d, lay, 'own-config')}:{'spsdk-error' if res['load3']['err'] == 1 else 'crash'}",
                 f"the configuration produced by get_config does not load: {res['load3']}")
        elif kind == "memcfg":
            if res.get("option_words3") != res.get("option_words"):
                cls = "?"
                w1, w3 = res.get("option_words", {}).get("ok"), res.get("option_words3", {}).get("ok")
                if isinstance(w1, list) and isinstance(w3, list) and len(w1) == len(w3):
                    vis = [i for i, r in enumerate(lay["regs"]) if not r["hidden"]]
                    cls = "+".join(sorted({explain_diff(lay, (vis[n],), a_, b_, kind, fresh_raw(lay["regs"][vis[n]])) for n, (a_, b_) in enumerate(zip(w1, w3)) if a_ != b_}))
                fail(f"roundtrip:{kind}:config:{cls}", f"option words {res.get('option_words')} -> {res.get('option_words3')}")
        elif comp_ok and "export3" in res and res["export3"].get("ok") != e1["ok"]:
            cls = snap_diff_classes(lay, kind, res["snap"]["ok"], res["snap3"]["ok"]) \
                if "ok" in res.get("snap", {}) and "ok" in res.get("snap3", {}) else "?"
            fail(f"roundtrip:{kind}:config:{cls}", "load(get_config()).export() differs from export: " + diff_bytes(b1, res["export3"]))
        if "export4" in res:
            nchecks += 1
            if "err" in res.get("schema4", {}):
                fail(f"config-text:{kind}:schema:{layout_class(d, lay, 'schema')}",
                     f"the YAML configuration written for the object fails the area's schema: {res['schema4']}")
            elif comp_ok and kind != "memcfg" and res["export4"].get("ok") != e1["ok"]:
                cls = "?"
                if "ok" in res.get("snap", {}) and "ok" in res.get("snap4", {}):
                    cls = snap_diff_classes(lay, kind, res["snap"]["ok"], res["snap4"]["ok"], text=True)
                fail(f"roundtrip:{kind}:config-text:{cls}", "the YAML configuration written for the object loads to a different binary: "
                     + diff_bytes(b1, res["export4"]))
        if "config_text" in res and "err" in res["config_text"]:
            fail(f"config-text:{kind}:failed", f"writing the configuration failed: {res['config_text']}")
    # seal
    if "sealed" in res:
        nchecks += 1
        if "err" in res["sealed"]:
            fail(f"seal:{kind}:failed", f"export(add_seal=True) failed: {res['sealed']}")
        else:
            s = bytes.fromhex(res["sealed"]["ok"])
            want = bytearray(b1)
            if d.get("seal"):
                a, n = d["seal"]
                want[a:a + 4 * n] = SEAL * n
            if s != bytes(want):
                fail(f"seal:{kind}:wrong", "the sealed binary is not the plain binary with the seal words set: " + diff_bytes(bytes(want), res["sealed"]))
    if "rotkh_export" in res:
        nchecks += 1
        rk = bytes.fromhex(case["rotkh"])
        r = lay["regs"][d["rotkh"]]
        a, bnd = reg_range(r)
        cls = classify_reg(lay, (d["rotkh"],), kind)
        lead = "leading-zero-bytes" if rk[:1] == b"\0" else "no-leading-zero"
        if "err" in res["rotkh_export"]:
            fail(f"rotkh:{kind}:rejected:{cls}:{lead}", f"export(rotkh=<{len(rk)} bytes>) failed: {res['rotkh_export']}")
        else:
            s = bytes.fromhex(res["rotkh_export"]["ok"])
            want = bytearray(b1)
            want[a:bnd] = rk.ljust(bnd - a, b"\0")
            if s != bytes(want):
                d9 = bytearray(b1)
                if r["alt"] and r["rev"] and int.from_bytes(rk, "big") < (1 << r["w"]):
                    d9[a:bnd] = d9_set(r, int.from_bytes(rk, "big")).to_bytes(bnd - a, "little")
                    if s == bytes(d9):
                        lead += ":placed-under-the-width-the-value-selects"
                fail(f"rotkh:{kind}:wrong:{cls}:{lead}", f"the ROTKH bytes {rk.hex()} are not what the exported binary holds at {a:#x}: "
                     + s[a:bnd].hex())
    if kind == "xmcd":
        nchecks += 2
        if res.get("verify_errors", {}).get("ok") != 0:
            fail(f"verify:{kind}", f"XMCD.verify() reports errors on the object it loaded: {res.get('verify_errors')}")
        crc = res.get("crc", {}).get("ok")
        if crc is None or int(crc, 16) != crc32_mpeg2(b1):
            fail(f"crc:{kind}", f"XMCD.crc {crc} is not CRC-32/MPEG-2 of the exported block ({crc32_mpeg2(b1):08x})")
    if kind == "fuses" and "script" in res and "ok" in res["script"] and "ok" in res.get("snap", {}):
        nchecks += 1
        bad = check_fuse_script(lay, case, res)
        if bad:
            fail(f"fuse-script:{kind}", bad)
    nchecks += history_oracle(case, res, fail)
    # the parser on an arbitrary binary
    if case.get("parse_random") is not None:
        rb = bytes.fromhex(case["parse_random"])
        nchecks += 1
        if "err" in res.get("parse5", {}):
            fail(f"parse:{kind}:rejects-well-formed-binary", f"the parser rejects a binary of the documented size: {res['parse5']}")
        elif "export5" in res:
            if "err" in res["export5"]:
                fail(f"export:{kind}:failed-after-parse", f"{res['export5']}")
            else:
                b5 = bytes.fromhex(res["export5"]["ok"])
                # every byte that belongs to a visible register and to no other register must come back
                owner = {}
                for i, r in enumerate(lay["regs"]):
                    a, bnd = reg_range(r)
                    for p in range(a, bnd):
                        owner.setdefault(p, []).append(i)
                for p in range(min(len(rb), len(b5))):
                    o = owner.get(p, [])
                    if len(o) == 1 and not lay["regs"][o[0]]["hidden"] and rb[p] != b5[p]:
                        r = lay["regs"][o[0]]
                        cls = classify_reg(lay, (o[0],), kind) + ":other-outcome"
                        if r["subs"] and len(r["subs"]) * r["subs"][0]["w"] != r["w"] and not lay["big"] \
                                and p - r["off"] >= len(r["subs"]) * r["subs"][0]["w"] // 8 and b5[p] == 0:
                            cls = "group-wider-than-its-sub-registers:byte-beyond-the-existing-sub-registers-exported-as-zero"
                        fail(f"roundtrip:{kind}:binary:{cls}",
                             f"byte {p:#x} of register {r['name']}: parsed {rb[p]:#04x}, exported {b5[p]:#04x}")
                        break
                comp5 = all(computed_holds(c["method"], int.from_bytes(b5[reg_range(lay["regs"][c["reg"][0]])[0]:reg_range(lay["regs"][c["reg"][0]])[1]], "little"))
                            for c in d.get("computed", []))
                if "get_config5" in res and "err" in res["get_config5"]:
                    cls = layout_class(d, lay, "memcfg-count") if kind == "memcfg" else "plain"
                    fail(f"config:{kind}:get_config-failed:{cls}", f"get_config of a parsed binary failed: {res['get_config5']}")
                elif "export6" in res and "err" in res["export6"]:
                    fail(f"config:{kind}:own-config-rejected:{layout_class(d, lay, 'own-config')}:{'spsdk-error' if res['export6']['err'] == 1 else 'crash'}",
                         f"the configuration of a parsed binary does not load: {res['export6']}")
                elif comp5 and kind != "memcfg" and "export6" in res and res["export6"].get("ok") != res["export5"]["ok"]:
                    cls = snap_diff_classes(lay, kind, res["snap5"]["ok"], res["snap6"]["ok"]) \
                        if "ok" in res.get("snap5", {}) and "ok" in res.get("snap6", {}) else "?"
                    fail(f"roundtrip:{kind}:config:{cls}", "load(get_config()) of a parsed binary exports differently: " + diff_bytes(b5, res["export6"]))
    return nchecks


def compare_model(case, res, mv, R):
    """exact comparison of the observables; returns a list of mismatch descriptions"""
    kind = case["kind"]
    bad = []
    if "runner" in res:
        return ["implementation runner failed"]

    def cmp(name, i_slot, m_slot):
        if i_slot is None or m_slot == "same":
            return
        if i_slot[0] == "e" or m_slot[0] == "e":
            if i_slot[0] != m_slot[0] or i_slot[1] != m_slot[1]:
                bad.append(f"{name}: impl {str(i_slot)[:120]} model {str(m_slot)[:120]}")
        elif i_slot[1] != m_slot[1]:
            bad.append(f"{name}: impl {str(i_slot[1])[:160]} model {str(m_slot[1])[:160]}")

    if mv[0] == "e":
        return [f"model could not decode the case: {mv}"]
    if kind == "tz":
        if "load" in res and "err" in res["load"]:
            return bad           # rejected names are outside the model's input space
        m = mv[1]
        cmp("export", impl_slot(res, "export"), model_slot(m[0], mbytes))
        if "ok" in res.get("export", {}):
            if "customs" in res:
                iw = [py_value_to_int(v) for (_, v) in res["customs"]]
                cmp("customs", ("ok", iw), model_slot(m[1], mints))
            cmp("export2", impl_slot(res, "export2"), model_slot(m[2], mbytes))
        return bad
    lay, _ = R["model_layouts"][case["layout"]]
    m = mv[1]
    if case.get("parse_random") is not None:
        first = m[0]
        if "err" in res.get("parse5", {}):
            if first[0] != "e" or first[1] != res["parse5"]["err"]:
                bad.append(f"parse: impl {res['parse5']} model {first}")
            return bad
        if first[0] == "e":
            if first[1] == 98:
                return bad
            bad.append(f"parse: impl ok model {first}")
            return bad
        cmp("export5", impl_slot(res, "export5"), model_slot(m[1], mbytes))
        cmp("snap5", impl_slot(res, "snap5"), model_slot(m[2], msnap))
        cmp("get_config5", impl_slot(res, "get_config5", lambda x: canon_cfg(lay, x)),
            model_slot(m[3], lambda v: canon_cfg(lay, model_cfg_items(v))))
        cmp("export6", impl_slot(res, "export6"), model_slot(m[4], mbytes))
        return bad
    first = m[0]
    if "err" in res.get("load", {}) and "err" in res.get("schema", {}) and kind in ("fuses", "xmcd"):
        return bad               # Fuses / XMCD load_from_config run the schema check themselves (reported by the oracle)
    if "err" in res.get("load", {}):
        if first[0] != "e" or first[1] != res["load"]["err"]:
            bad.append(f"load: impl {res['load']} model {first}")
        return bad
    if first[0] == "e":
        bad.append(f"load: impl ok model {first}")
        return bad
    cmp("snap", impl_slot(res, "snap"), model_slot(m[1], msnap))
    cmp("export", impl_slot(res, "export"), model_slot(m[2], mbytes))
    if "ok" in res.get("export", {}) and kind != "fuses":
        pm = m[3]
        if not (pm[0] == "e" and pm[1] == 98):
            if "err" in res.get("parse", {}):
                cmp("parse", ("e", res["parse"]["err"]), model_slot(pm, lambda v: 1))
            else:
                cmp("parse", ("ok", 1), model_slot(pm, lambda v: 1))
                cmp("export2", impl_slot(res, "export2"), model_slot(m[4], mbytes))
                cmp("snap2", impl_slot(res, "snap2"), model_slot(m[5], msnap))
    cmp("get_config", impl_slot(res, "get_config", lambda x: canon_cfg(lay, x)),
        model_slot(m[6], lambda v: canon_cfg(lay, model_cfg_items(v))))
    if "ok" in res.get("get_config", {}):
        if "err" in res.get("load3", {}):
            cmp("load3", ("e", res["load3"]["err"]), model_slot(m[7], mbytes))
        else:
            cmp("export3", impl_slot(res, "export3"), model_slot(m[7], mbytes))
            cmp("snap3", impl_slot(res, "snap3"), model_slot(m[8], msnap))
    if kind == "memcfg":
        cmp("option_words", impl_slot(res, "option_words"), model_slot(m[9], mints))
        if "option_words3" in res:
            cmp("option_words3", impl_slot(res, "option_words3"), model_slot(m[10], mints))
    if "sealed" in res:
        cmp("sealed", impl_slot(res, "sealed"), model_slot(m[11], mbytes))
    if "rotkh_export" in res:
        cmp("rotkh_export", impl_slot(res, "rotkh_export"), model_slot(m[12], mbytes))
    if kind == "xmcd":
        cmp("crc", impl_slot(res, "crc"), model_slot(m[13], mbytes))
    return bad


def run(tier):
    rep = vlib.Report(PID, tier)
    rng = vlib.Rng(vlib.seed())
    os.makedirs(os.path.join(vlib.WORK, PID), exist_ok=True)
    # (T1) regenerate data and translated functions from the current source / database
    R = None
    try:
        R = regen_c12.regen()
        rep.obligation("translate:device database + spsdk/pfr/pfr.py -> Gen/GenAreas.v, Gen/GenAreaFns.v", True)
    except Exception as ex:  # noqa
        rep.obligation("translate:device database + spsdk/pfr/pfr.py -> Gen/GenAreas.v, Gen/GenAreaFns.v", False, repr(ex))
    if R is None:
        vlib.audit(rep)
        return rep.finish(rule="generation failed", trusted_base=[], checker_cmd="")
    for (k_, fam_, rev_, sub_, exc_) in R.get("errors", []):
        rep.failing(f"construct:{k_}", f"{k_} {fam_}/{rev_}{('/' + sub_) if sub_ else ''}: the area offered by the database cannot be constructed: {exc_}",
                    {"kind": "construct", "area": k_, "family": fam_, "revision": rev_, "sub": sub_, "exception": exc_})
    # the implementation runs while Coq builds
    cases = make_cases(tier, rng, R)
    pool = concurrent.futures.ThreadPoolExecutor(max_workers=1)
    t0 = time.time()
    fut = pool.submit(run_impl_parallel, cases)
    # (P) proofs
    model_ok, mlog = vlib.coq_make(["Model/AreaModel.vo"])
    built = vlib.check_theorems(rep, PID, THEOREMS, ["Proofs/AreaProofs.vo"])
    checked = list(THEOREMS)
    sweep_now = sweep(None, R)
    for (thm, cls) in REFUTED:
        ok, out = vlib.coqc(f"Props/{PID}/{thm}.v") if built or os.path.exists(os.path.join(vlib.COQ, "Proofs", "AreaProofs.vo")) else (False, "dependencies did not build")
        closed = ok and all(c for (c, _) in vlib.parse_assumptions(out)) and vlib.parse_assumptions(out)
        if closed:
            rep.obligation(f"theorem:{thm}", True)
            checked.append(thm)
        elif built and not sweep_now.get(cls):
            # the counter-example is gone from the database: the finding has disappeared (not a failure of the property)
            vlib.log(f"  finding refuted by {thm} is no longer in the database (no layout of class '{cls}')")
            rep.obligation(f"theorem:{thm} (finding no longer present)", True)
        else:
            rep.obligation(f"theorem:{thm}", False, out)
    if tier == "thorough":
        vlib.coqchk(rep, PID, checked)
    vlib.audit(rep)
    vlib.log(f"  coq: {time.time() - t0:.0f} s")
    # (T2) correspondence + oracles
    results = fut.result()
    vlib.log(f"  implementation: {len(cases)} cases, done after {time.time() - t0:.0f} s")
    nchecks = 0
    sweep_counts = sweep(rep, R)
    for c, r in zip(cases, results):
        nchecks += apply_oracles(rep, c, r, R)
    # model expressions (template cases use the configuration the implementation read from its own template)
    exprs, owners, unmodelled = [], [], 0
    for ci, (c, r) in enumerate(zip(cases, results)):
        try:
            if c["scenario"] == "template":
                cfg = r.get("template_cfg")
                if not isinstance(cfg, dict):
                    continue
                key = SKEY.get(c["kind"], "settings")
                c["model_settings"] = cfg.get(key, {}) or {}
                c2 = dict(c)
                c2["seal"] = 0
            else:
                c["model_settings"] = c["settings"]
                c2 = c
            exprs.append(model_expr(c2, R, r))
            owners.append(ci)
        except Unmodelled as ex:
            unmodelled += 1
            vlib.log(f"  not modelled: {c['kind']} {c['family']}: {ex}")
    ndis = 0
    if model_ok:
        try:
            t0 = time.time()
            # heavy and light cases interleaved over the shards
            order = sorted(range(len(exprs)), key=lambda i: -len(exprs[i]))
            nsh = max(1, min(2 * WORKERS, len(exprs) // 6))
            perm = [i for k in range(nsh) for i in order[k::nsh]]
            shard = (len(perm) + nsh - 1) // nsh
            mres_p = vlib.run_model_cases("c12", "Value Bytes RegsModel GenAreas AreaModel", [exprs[i] for i in perm], shard=shard,
                                          timeout=1500, jobs=WORKERS)
            mres = [None] * len(exprs)
            for i, v in zip(perm, mres_p):
                mres[i] = unpk(v)
            vlib.log(f"  model: {len(exprs)} cases in {time.time() - t0:.0f} s")
            for ci, mv in zip(owners, mres):
                bad = compare_model(cases[ci], results[ci], mv, R)
                if bad:
                    ndis += 1
                    c = cases[ci]
                    if ndis <= 8:
                        vlib.log(f"  disagreement {c['kind']} {c['family']}/{c['rev']}/{c['sub']} {c['scenario']}: {bad[:3]}")
            rep.obligation("correspondence:model=implementation on all cases", ndis == 0, f"{ndis} disagreements" if ndis else "")
        except Exception as ex:  # noqa
            rep.obligation("correspondence:model evaluation", False, repr(ex)[-1500:])
    else:
        rep.obligation("correspondence:model builds", False, mlog[-1500:])
    rep.obligation("correspondence:every generated configuration is inside the model's input space", unmodelled == 0, f"{unmodelled} cases")
    # coverage accounting
    streams = {}
    for c, r in zip(cases, results):
        name = ("template -> YAML -> schema -> load -> export -> parse -> export -> get_config -> load" if c["scenario"] == "template"
                else ("area parser on arbitrary well-formed binaries" if c.get("parse_random") is not None
                      else "seeded in-range values for registers and bit-fields"))
        s = streams.setdefault(name, {"n": 0, "distinct": set(), "samples": [], "err": 0})
        s["n"] += 1
        ok = ("export" in r and "ok" in r.get("export", {})) or "export5" in r
        if ok:
            s["distinct"].add((c["kind"], c["family"], c["rev"], c["sub"], json.dumps(c.get("settings", ""), sort_keys=True, default=str)[:4000],
                               c.get("parse_random", "")[:64]))
        else:
            s["err"] += 1
        if len(s["samples"]) < 3:
            smp = {k: (v if k != "parse_random" else v[:64] + "...") for k, v in c.items()
                   if k in ("kind", "family", "rev", "sub", "scenario", "parse_random")}
            if c.get("settings"):
                smp["settings"] = dict(list(c["settings"].items())[:3])
            s["samples"].append(smp)
    for name, s in streams.items():
        rep.add_stream(name, s["n"], len(s["distinct"]), samples=s["samples"], exhaustive=(tier == "thorough" and name.startswith("template")),
                       extra={"rejected_or_error": s["err"]})
    kinds = {}
    for c in cases:
        kinds[c["kind"]] = kinds.get(c["kind"], 0) + 1
    return rep.finish(
        rule="template stream: every (kind, family, revision, sub-feature) instance of the database in thorough, the first "
             "instance of every distinct layout in quick; value stream: settings drawn from VERIF_SEED for the registers and bit-fields "
             "the template offers (boundary and random values, enum names, numbers and strings), a fixed number per distinct layout; "
             "binary stream: random binaries of the documented size with the tag / header / computed fields made well formed. "
             "distinct_nontrivial counts distinct (instance, input) pairs the implementation accepted and exported",
        trusted_base=["Coq 8.16.1 kernel + vm_compute", "tools/regen_c12.py + tools/impl/c12_impl.py (database -> Gen/GenAreas.v through SPSDK's own loaders)",
                      "tools/translate/pyfun.py (pfr_reg_* -> Gen/GenAreaFns.v)", "hand models Model/RegsModel.v (C11) and Model/AreaModel.v tied by correspondence",
                      "ruamel.yaml / PyYAML / fastjsonschema (template text and schema validation are exercised, not modelled)"],
        checker_cmd="coqc -R . V Props/C12/*.v (after make Proofs/AreaProofs.vo)",
        assumptions=["settings use register and bit-field names as the template prints them", "XMCD header type fields keep the values the constructor gives them"],
        extra_cov={"oracle_checks": nchecks, "instances_in_database": len(R["instances"]), "distinct_layouts": len(R["layouts"]),
                   "cases_per_kind": kinds, "not_modelled": unmodelled, "sweep_layout_classes": sweep_counts})


if __name__ == "__main__":
    sys.exit(run(sys.argv[1] if len(sys.argv) > 1 else "quick"))
