"""TEST key material for the C07 check: HAB PKI trees (SRK CA certificates, CSF and IMG leaf certificates).

Generated once with `cryptography` into tools/props/c07.keys.json (committed, not secret) so that every run of the check
uses the same keys.  `load()` returns the sets; `python c07_keys.py` regenerates the file when it is absent."""
import datetime
import json
import os

PATH = os.path.join(os.path.dirname(os.path.abspath(__file__)), "c07.keys.json")
# name -> (kind, parameter of the SRK keys, parameter of the leaf keys, chains with leaf certificates)
SETS = {
    "rsa2048": ("rsa", 2048, 2048, 4),
    "rsa3072": ("rsa", 3072, 2048, 2),
    "rsa4096": ("rsa", 4096, 4096, 2),
    "p256": ("ec", "secp256r1", "secp256r1", 4),
    "p384": ("ec", "secp384r1", "secp384r1", 2),
    "p521": ("ec", "secp521r1", "secp521r1", 2),
}


def _gen():
    from cryptography import x509
    from cryptography.hazmat.primitives import hashes, serialization
    from cryptography.hazmat.primitives.asymmetric import ec, rsa
    from cryptography.x509.oid import NameOID

    def key(kind, par):
        if kind == "rsa":
            return rsa.generate_private_key(public_exponent=65537, key_size=par)
        return ec.generate_private_key({"secp256r1": ec.SECP256R1(), "secp384r1": ec.SECP384R1(), "secp521r1": ec.SECP521R1()}[par])

    def pem_key(k):
        return k.private_bytes(serialization.Encoding.PEM, serialization.PrivateFormat.PKCS8, serialization.NoEncryption()).decode()

    def cert(subject, pub, issuer, signer, ca, serial):
        nb = datetime.datetime(2024, 1, 1, tzinfo=datetime.timezone.utc)
        b = (x509.CertificateBuilder()
             .subject_name(x509.Name([x509.NameAttribute(NameOID.COMMON_NAME, subject)]))
             .issuer_name(x509.Name([x509.NameAttribute(NameOID.COMMON_NAME, issuer)]))
             .public_key(pub).serial_number(serial).not_valid_before(nb)
             .not_valid_after(nb + datetime.timedelta(days=36500))
             .add_extension(x509.BasicConstraints(ca=ca, path_length=None), critical=True)
             .add_extension(x509.KeyUsage(digital_signature=not ca, content_commitment=False, key_encipherment=False,
                                          data_encipherment=False, key_agreement=False, key_cert_sign=ca, crl_sign=False,
                                          encipher_only=False, decipher_only=False), critical=True))
        return b.sign(signer, hashes.SHA256()).public_bytes(serialization.Encoding.PEM).decode()

    out = {}
    serial = 0x1000
    for name, (kind, spar, lpar, chains) in SETS.items():
        srks, csfs, imgs = [], [], []
        for i in range(4):
            k = key(kind, spar)
            serial += 1
            srks.append({"key": pem_key(k), "cert": cert(f"SRK{i + 1}_{name}", k.public_key(), f"SRK{i + 1}_{name}", k, True, serial)})
            if i < chains:
                for lst, who in ((csfs, "CSF"), (imgs, "IMG")):
                    lk = key(kind, lpar)
                    serial += 1
                    lst.append({"key": pem_key(lk),
                                "cert": cert(f"{who}{i + 1}_1_{name}", lk.public_key(), f"SRK{i + 1}_{name}", k, False, serial)})
        out[name] = {"srk": srks, "csf": csfs, "img": imgs}
    return out


def load():
    if not os.path.exists(PATH):
        data = {"comment": "TEST key material for the C07 check (generated once with cryptography; not secret)", "sets": _gen()}
        with open(PATH, "w") as f:
            json.dump(data, f, indent=0)
    return json.load(open(PATH))["sets"]


if __name__ == "__main__":
    s = load()
    print({k: (len(v["srk"]), len(v["csf"])) for k, v in s.items()})
