"""Independent reference implementations for the C08 check -- written from the standards, no SPSDK, no `cryptography`.

  * NIST P-256/384/521 arithmetic, ECDSA verification (FIPS 186-4), public-key recovery from (r, s, e)
  * RSASSA-PKCS1-v1_5 and RSASSA-PSS verification (RFC 8017) on top of pow() and hashlib
  * a minimal DER reader/writer: PKCS#8 PrivateKeyInfo, SubjectPublicKeyInfo, PKCS#1 RSAPublicKey, ECDSA-Sig-Value, PEM armor
  * wrappers around the `openssl` command line tool (second, unrelated implementation)
"""
import base64
import hashlib
import os
import subprocess

# ------------------------------------------------------------------------------------------ curves
CURVES = [
    dict(name="secp256r1", bits=256, size=32, oid="2a8648ce3d030107",
         p=0xffffffff00000001000000000000000000000000ffffffffffffffffffffffff,
         b=0x5ac635d8aa3a93e7b3ebbd55769886bc651d06b0cc53b0f63bce3c3e27d2604b,
         gx=0x6b17d1f2e12c4247f8bce6e563a440f277037d812deb33a0f4a13945d898c296,
         gy=0x4fe342e2fe1a7f9b8ee7eb4a7c0f9e162bce33576b315ececbb6406837bf51f5,
         n=0xffffffff00000000ffffffffffffffffbce6faada7179e84f3b9cac2fc632551),
    dict(name="secp384r1", bits=384, size=48, oid="2b81040022",
         p=0xfffffffffffffffffffffffffffffffffffffffffffffffffffffffffffffffeffffffff0000000000000000ffffffff,
         b=0xb3312fa7e23ee7e4988e056be3f82d19181d9c6efe8141120314088f5013875ac656398d8a2ed19d2a85c8edd3ec2aef,
         gx=0xaa87ca22be8b05378eb1c71ef320ad746e1d3b628ba79b9859f741e082542a385502f25dbf55296c3a545e3872760ab7,
         gy=0x3617de4a96262c6f5d9e98bf9292dc29f8f41dbd289a147ce9da3113b5f0b8c00a60b1ce1d7e819d7a431d7c90ea0e5f,
         n=0xffffffffffffffffffffffffffffffffffffffffffffffffc7634d81f4372ddf581a0db248b0a77aecec196accc52973),
    dict(name="secp521r1", bits=521, size=66, oid="2b81040023",
         p=2 ** 521 - 1,
         b=0x0051953eb9618e1c9a1f929a21a0b68540eea2da725b99b315f3b8b489918ef109e156193951ec7e937b1652c0bd3bb1bf073573df883d2c34f1ef451fd46b503f00,
         gx=0x00c6858e06b70404e9cd9e3ecb662395b4429c648139053fb521f828af606b4d3dbaa14b5e77efe75928fe1dc127a2ffa8de3348b3c1856a429bf97e7e31c2e5bd66,
         gy=0x011839296a789a3bc0045c8a5fb42c7d1bd998f54449579b446817afbd17273e662c97ee72995ef42640c550b9013fad0761353c7086a272c24088be94769fd16650,
         n=0x01fffffffffffffffffffffffffffffffffffffffffffffffffffffffffffffffffa51868783bf2f966b7fcc0148f709a5d03bb5c9b8899c47aebb6fb71e91386409),
]
HASHES = {"sha1": hashlib.sha1, "sha256": hashlib.sha256, "sha384": hashlib.sha384, "sha512": hashlib.sha512}
HASH_OID = {"sha1": "2b0e03021a", "sha256": "608648016503040201", "sha384": "608648016503040202",
            "sha512": "608648016503040203"}


def on_curve(c, x, y):
    p = c["p"]
    return 0 <= x < p and 0 <= y < p and (y * y - (x * x * x - 3 * x + c["b"])) % p == 0


def _jdouble(c, P):
    X, Y, Z = P
    if not Y or not Z:
        return (0, 1, 0)
    p = c["p"]
    S = 4 * X * Y * Y % p
    Z2 = Z * Z % p
    M = 3 * (X - Z2) * (X + Z2) % p        # a = -3
    X3 = (M * M - 2 * S) % p
    Y3 = (M * (S - X3) - 8 * pow(Y, 4, p)) % p
    return (X3, Y3, 2 * Y * Z % p)


def _jadd(c, P, Q):
    if not P[2]:
        return Q
    if not Q[2]:
        return P
    p = c["p"]
    X1, Y1, Z1 = P
    X2, Y2, Z2 = Q
    Z1Z1, Z2Z2 = Z1 * Z1 % p, Z2 * Z2 % p
    U1, U2 = X1 * Z2Z2 % p, X2 * Z1Z1 % p
    S1, S2 = Y1 * Z2 * Z2Z2 % p, Y2 * Z1 * Z1Z1 % p
    if U1 == U2:
        return _jdouble(c, P) if S1 == S2 else (0, 1, 0)
    Hh = (U2 - U1) % p
    R = (S2 - S1) % p
    H2 = Hh * Hh % p
    H3 = Hh * H2 % p
    V = U1 * H2 % p
    X3 = (R * R - H3 - 2 * V) % p
    Y3 = (R * (V - X3) - S1 * H3) % p
    return (X3, Y3, Hh * Z1 * Z2 % p)


def _affine(c, P):
    if not P[2]:
        return None
    p = c["p"]
    zi = pow(P[2], -1, p)
    return (P[0] * zi * zi % p, P[1] * zi * zi * zi % p)


def mul(c, k, P):
    """k * P for an affine point P (None = infinity)"""
    if P is None or k % c["n"] == 0:
        return None
    k %= c["n"]
    R = (0, 1, 0)
    Q = (P[0], P[1], 1)
    for bit in bin(k)[2:]:
        R = _jdouble(c, R)
        if bit == "1":
            R = _jadd(c, R, Q)
    return _affine(c, R)


def add(c, P, Q):
    if P is None:
        return Q
    if Q is None:
        return P
    return _affine(c, _jadd(c, (P[0], P[1], 1), (Q[0], Q[1], 1)))


def pub_of(c, d):
    return mul(c, d, (c["gx"], c["gy"]))


def hash_to_int(c, digest):
    e = int.from_bytes(digest, "big")
    extra = len(digest) * 8 - c["n"].bit_length()
    return e >> extra if extra > 0 else e


def ecdsa_verify(c, Q, digest, r, s):
    n = c["n"]
    if not (1 <= r < n and 1 <= s < n) or Q is None or not on_curve(c, *Q):
        return False
    e = hash_to_int(c, digest)
    w = pow(s, -1, n)
    X = add(c, mul(c, e * w % n, (c["gx"], c["gy"])), mul(c, r * w % n, Q))
    return X is not None and X[0] % n == r


def sqrt_mod(c, a):
    p = c["p"]          # p = 3 mod 4 for the three NIST primes
    y = pow(a, (p + 1) // 4, p)
    return y if y * y % p == a % p else None


def recover_pub(c, digest, r, s):
    """a public key under which (r, s) is a valid signature of digest, or None (r not an x coordinate)"""
    n = c["n"]
    y = sqrt_mod(c, r ** 3 - 3 * r + c["b"])
    if y is None or not (1 <= r < n and 1 <= s < n):
        return None
    e = hash_to_int(c, digest)
    ri = pow(r, -1, n)
    R = (r, y)
    # Q = r^-1 (s R - e G)
    Q = add(c, mul(c, s * ri % n, R), mul(c, (-e * ri) % n, (c["gx"], c["gy"])))
    return Q


# ------------------------------------------------------------------------------------------ DER
def der_len(n):
    if n < 128:
        return bytes([n])
    b = n.to_bytes((n.bit_length() + 7) // 8, "big")
    return bytes([0x80 | len(b)]) + b


def tlv(tag, content):
    return bytes([tag]) + der_len(len(content)) + content


def der_uint(v):
    return tlv(2, v.to_bytes(v.bit_length() // 8 + 1, "big"))


def der_sig(r, s):
    return tlv(0x30, der_uint(r) + der_uint(s))


def read_tlv(data, pos=0):
    """-> (tag, content, next position); strict definite lengths"""
    tag = data[pos]
    ln = data[pos + 1]
    pos += 2
    if ln & 0x80:
        k = ln & 0x7F
        if k == 0 or k > 4:
            raise ValueError("length form")
        ln = int.from_bytes(data[pos:pos + k], "big")
        if ln < 128 or (k > 1 and ln < 1 << (8 * (k - 1))):
            raise ValueError("non-minimal length")
        pos += k
    if pos + ln > len(data):
        raise ValueError("short data")
    return tag, data[pos:pos + ln], pos + ln


def read_seq(data):
    """children (tag, content) of a SEQUENCE/any constructed content"""
    out, pos = [], 0
    while pos < len(data):
        t, c, pos = read_tlv(data, pos)
        out.append((t, c))
    return out


def parse_der_sig(sig):
    """strict ECDSA-Sig-Value -> (r, s) or None"""
    try:
        t, body, end = read_tlv(sig, 0)
        if t != 0x30 or end != len(sig):
            return None
        ch = read_seq(body)
        if len(ch) != 2:
            return None
        out = []
        for tg, c in ch:
            if tg != 2 or not c or c[0] & 0x80 or (len(c) > 1 and c[0] == 0 and not c[1] & 0x80):
                return None
            out.append(int.from_bytes(c, "big"))
        return tuple(out)
    except (ValueError, IndexError):
        return None


def unpem(data):
    lines = [l.strip() for l in data.decode("ascii").strip().splitlines()]
    assert lines[0].startswith("-----BEGIN ") and lines[-1].startswith("-----END "), "not PEM"
    return lines[0][11:-5], base64.b64decode("".join(l for l in lines[1:-1] if l and ":" not in l))


def pem(label, der):
    b = base64.b64encode(der).decode()
    return ("-----BEGIN %s-----\n" % label + "\n".join(b[i:i + 64] for i in range(0, len(b), 64))
            + "\n-----END %s-----\n" % label).encode()


RSA_OID = bytes.fromhex("2a864886f70d010101")
EC_OID = bytes.fromhex("2a8648ce3d0201")


def curve_by_oid(oid):
    for i, c in enumerate(CURVES):
        if bytes.fromhex(c["oid"]) == oid:
            return i
    raise ValueError("unknown curve oid " + oid.hex())


def parse_spki(der):
    """SubjectPublicKeyInfo -> ['ecc', curve, None, x, y] | ['rsa', n, e, None, None, None]"""
    t, body, end = read_tlv(der)
    assert t == 0x30 and end == len(der)
    (t1, alg), (t2, bits) = read_seq(body)
    assert t1 == 0x30 and t2 == 3 and bits[0] == 0
    a = read_seq(alg)
    if a[0][1] == RSA_OID:
        return parse_pkcs1_pub(bits[1:])
    assert a[0][1] == EC_OID and a[1][0] == 6
    ci = curve_by_oid(a[1][1])
    pt = bits[1:]
    sz = CURVES[ci]["size"]
    assert pt[0] == 4 and len(pt) == 1 + 2 * sz
    return ["ecc", ci, None, int.from_bytes(pt[1:1 + sz], "big"), int.from_bytes(pt[1 + sz:], "big")]


def parse_pkcs1_pub(der):
    t, body, end = read_tlv(der)
    assert t == 0x30 and end == len(der)
    (t1, n), (t2, e) = read_seq(body)
    assert t1 == 2 and t2 == 2
    return ["rsa", int.from_bytes(n, "big"), int.from_bytes(e, "big"), None, None, None]


def parse_pkcs8(der):
    """unencrypted PrivateKeyInfo -> ['ecc', curve, d, x, y] | ['rsa', n, e, d, p, q]"""
    t, body, end = read_tlv(der)
    assert t == 0x30 and end == len(der)
    ch = read_seq(body)
    assert ch[0] == (2, b"\x00") and ch[1][0] == 0x30 and ch[2][0] == 4
    a = read_seq(ch[1][1])
    if a[0][1] == RSA_OID:
        t, kb, _ = read_tlv(ch[2][1])
        ints = [int.from_bytes(c, "big") for (tg, c) in read_seq(kb)]
        assert ints[0] == 0
        return ["rsa", ints[1], ints[2], ints[3], ints[4], ints[5]]
    assert a[0][1] == EC_OID
    ci = curve_by_oid(a[1][1])
    t, kb, _ = read_tlv(ch[2][1])
    ek = read_seq(kb)
    assert ek[0] == (2, b"\x01") and ek[1][0] == 4
    d = int.from_bytes(ek[1][1], "big")
    x = y = None
    for tg, c in ek[2:]:
        if tg == 0xA1:
            _, bits, _ = read_tlv(c)
            sz = CURVES[ci]["size"]
            assert bits[0] == 0 and bits[1] == 4
            x, y = int.from_bytes(bits[2:2 + sz], "big"), int.from_bytes(bits[2 + sz:], "big")
    return ["ecc", ci, d, x, y]


def spki_of(key):
    """numbers -> SubjectPublicKeyInfo DER (written here, not by the code under test)"""
    if key[0] == "ecc":
        c = CURVES[key[1]]
        pt = b"\x04" + key[3].to_bytes(c["size"], "big") + key[4].to_bytes(c["size"], "big")
        return tlv(0x30, tlv(0x30, tlv(6, EC_OID) + tlv(6, bytes.fromhex(c["oid"]))) + tlv(3, b"\x00" + pt))
    pk = tlv(0x30, der_uint(key[1]) + der_uint(key[2]))
    return tlv(0x30, tlv(0x30, tlv(6, RSA_OID) + tlv(5, b"")) + tlv(3, b"\x00" + pk))


# ------------------------------------------------------------------------------------------ RSA (RFC 8017)
def mgf1(seed, n, h):
    out = b""
    i = 0
    while len(out) < n:
        out += h(seed + i.to_bytes(4, "big")).digest()
        i += 1
    return out[:n]


def rsa_verify(n, e, sig, digest, hname, pss):
    k = (n.bit_length() + 7) // 8
    if len(sig) != k:
        return False
    s = int.from_bytes(sig, "big")
    if s >= n:
        return False
    h = HASHES[hname]
    hlen = h().digest_size
    if len(digest) != hlen:
        return False
    if not pss:
        em = pow(s, e, n).to_bytes(k, "big")
        t = tlv(0x30, tlv(0x30, tlv(6, bytes.fromhex(HASH_OID[hname])) + tlv(5, b"")) + tlv(4, digest))
        return em == b"\x00\x01" + b"\xff" * (k - len(t) - 3) + b"\x00" + t
    embits = n.bit_length() - 1
    emlen = (embits + 7) // 8
    m = pow(s, e, n)
    if m.bit_length() > emlen * 8:
        return False
    em = m.to_bytes(emlen, "big")
    slen = hlen
    if emlen < hlen + slen + 2 or em[-1] != 0xBC:
        return False
    masked, hh = em[:emlen - hlen - 1], em[emlen - hlen - 1:-1]
    top = 8 * emlen - embits
    if masked[0] >> (8 - top) if top else 0:
        return False
    db = bytes(a ^ b for a, b in zip(masked, mgf1(hh, len(masked), h)))
    db = bytes([db[0] & (0xFF >> top)]) + db[1:]
    ps = len(db) - slen - 1
    if any(db[:ps]) or db[ps] != 1:
        return False
    return h(b"\x00" * 8 + digest + db[-slen:]).digest() == hh


def rsa_sign(n, e, d, digest, hname, pss, salt=b"", mgf_hname=None):
    """RFC 8017 signature generation (RSASSA-PKCS1-v1_5 / RSASSA-PSS with the given salt, MGF1 over mgf_hname or hname)."""
    k = (n.bit_length() + 7) // 8
    h = HASHES[hname]
    if not pss:
        t = tlv(0x30, tlv(0x30, tlv(6, bytes.fromhex(HASH_OID[hname])) + tlv(5, b"")) + tlv(4, digest))
        em = b"\x00\x01" + b"\xff" * (k - len(t) - 3) + b"\x00" + t
        return pow(int.from_bytes(em, "big"), d, n).to_bytes(k, "big")
    embits = n.bit_length() - 1
    emlen = (embits + 7) // 8
    hh = h(b"\x00" * 8 + digest + salt).digest()
    db = b"\x00" * (emlen - len(salt) - len(hh) - 2) + b"\x01" + salt
    masked = bytes(a ^ b for a, b in zip(db, mgf1(hh, len(db), HASHES[mgf_hname or hname])))
    top = 8 * emlen - embits
    masked = bytes([masked[0] & (0xFF >> top)]) + masked[1:]
    em = masked + hh + b"\xbc"
    return pow(int.from_bytes(em, "big"), d, n).to_bytes(k, "big")


def ecdsa_sign(c, d, digest, k):
    """FIPS 186-4 ECDSA with the given nonce k -> (r, s) or None"""
    n = c["n"]
    R = mul(c, k, (c["gx"], c["gy"]))
    if R is None:
        return None
    r = R[0] % n
    s = pow(k, -1, n) * (hash_to_int(c, digest) + r * d) % n
    return (r, s) if r and s else None


# ------------------------------------------------------------------------------------------ openssl CLI
TOOL = {"calls": 0, "unavailable": 0, "errors": []}        # availability of the openssl tool (never a property verdict)
_DECODE_VERDICT = ("bad decrypt", "Error decrypting", "Error reading key", "Could not read", "unable to load", "asn1 encoding",
                   "ASN1", "wrong tag", "header too long", "maybe wrong password")


def openssl(args, workdir, files=None, timeout=60):
    """run the tool on files under workdir -> (returncode | None on a tool-level failure, stdout, stderr)"""
    try:
        os.makedirs(workdir, exist_ok=True)
        for name, data in (files or {}).items():
            with open(os.path.join(workdir, name), "wb") as f:
                f.write(data)
        p = subprocess.run(["openssl"] + args, cwd=workdir, stdin=subprocess.DEVNULL, stdout=subprocess.PIPE, stderr=subprocess.PIPE,
                           timeout=timeout)
        return p.returncode, p.stdout, p.stderr
    except (subprocess.TimeoutExpired, OSError) as ex:
        return None, b"", repr(ex).encode()


def _unavailable(what, err):
    TOOL["unavailable"] += 1
    if len(TOOL["errors"]) < 5:
        TOOL["errors"].append(what + ": " + err.decode("utf-8", "replace")[-200:])


def openssl_verify(workdir, key, msg, sig_der_or_rsa, hname, pss=False, prehashed=False):
    """Verdict of the openssl tool: True (verified) / False (explicit verification failure) / None (no verdict: the tool
    failed for a reason of its own -- retried once, then counted as unavailable, never as a rejection).
    ECDSA signatures must be given in DER."""
    files = {"o_pub.pem": pem("PUBLIC KEY", spki_of(key)), "o_sig.bin": sig_der_or_rsa, "o_msg.bin": msg}
    if prehashed:
        args = ["pkeyutl", "-verify", "-pubin", "-inkey", "o_pub.pem", "-in", "o_msg.bin", "-sigfile", "o_sig.bin"]
        if key[0] == "rsa":
            args += ["-pkeyopt", "digest:" + hname]
            if pss:
                args += ["-pkeyopt", "rsa_padding_mode:pss", "-pkeyopt", "rsa_pss_saltlen:digest"]
    else:
        args = ["dgst", "-" + hname, "-verify", "o_pub.pem", "-signature", "o_sig.bin"]
        if pss:
            args += ["-sigopt", "rsa_padding_mode:pss", "-sigopt", "rsa_pss_saltlen:digest"]
        args += ["o_msg.bin"]
    TOOL["calls"] += 1
    err = b""
    for attempt in (0, 1):
        rc, out, err = openssl(args, workdir, files)
        txt = (out + err).decode("utf-8", "replace")
        if rc == 0 and ("Verified OK" in txt or "Signature Verified Successfully" in txt):
            return True
        if rc is not None and ("Verification failure" in txt or "Verification Failure" in txt):
            return False
    _unavailable("verify", err)
    return None


def openssl_private_numbers(workdir, blob, is_pem, password):
    """decode a (possibly encrypted) private key file with the openssl tool -> numbers via parse_pkcs8;
    "undecodable" when the tool says the file cannot be read/decrypted; None when the tool itself failed (unavailable)"""
    args = ["pkcs8", "-inform", "PEM" if is_pem else "DER", "-in", "o_key.bin", "-topk8", "-nocrypt", "-outform", "DER",
            "-out", "o_key.der", "-passin", "pass:" + (password or "")]
    TOOL["calls"] += 1
    err = b""
    for attempt in (0, 1):
        try:
            os.remove(os.path.join(workdir, "o_key.der"))
        except OSError:
            pass
        rc, out, err = openssl(args, workdir, {"o_key.bin": blob})
        if rc == 0:
            try:
                return parse_pkcs8(open(os.path.join(workdir, "o_key.der"), "rb").read())
            except OSError as ex:
                err = repr(ex).encode()
                continue
        if rc is not None and any(m in (out + err).decode("utf-8", "replace") for m in _DECODE_VERDICT):
            return "undecodable"
    _unavailable("pkcs8", err)
    return None


def openssl_sign(workdir, private_pem, msg, hname, pss=False, mgf1_hname=None):
    """sign with the openssl tool (private key given as unencrypted PEM) -> signature bytes, or None (tool unavailable)"""
    args = ["dgst", "-" + hname, "-sign", "o_prv.pem", "-out", "o_sig.out"]
    if pss:
        args += ["-sigopt", "rsa_padding_mode:pss", "-sigopt", "rsa_pss_saltlen:digest"]
        if mgf1_hname:
            args += ["-sigopt", "rsa_mgf1_md:" + mgf1_hname]
    args += ["o_msg.bin"]
    TOOL["calls"] += 1
    err = b""
    for attempt in (0, 1):
        try:
            os.remove(os.path.join(workdir, "o_sig.out"))
        except OSError:
            pass
        rc, out, err = openssl(args, workdir, {"o_prv.pem": private_pem, "o_msg.bin": msg})
        if rc == 0:
            try:
                return open(os.path.join(workdir, "o_sig.out"), "rb").read()
            except OSError as ex:
                err = repr(ex).encode()
    _unavailable("sign", err)
    return None
