"""C11 -- registers and bit-fields behave as independent bit-vectors (DESIGN.md section 3, C11).

  (T1) tools/regen_c11.py re-extracts the arithmetic of spsdk/utils/registers.py into coq/Gen/GenRegs.v,
  (P)  coq/Props/C11/*.v are re-checked by coqc (they are stated over Model/RegsModel.v, which is built on GenRegs.v),
  (T2) random layouts x operation sequences are run on the real Registers/FuseRegisters objects and on the Coq model;
       outputs and the snapshot of the whole object graph after every operation must agree exactly,
  (O)  spec oracles (what the property demands of a set of independent bit-vectors) are applied to the
       implementation's own outputs; a hit is a concrete failing operation sequence.
"""
import os
import sys
import time

sys.path.insert(0, os.path.dirname(os.path.dirname(os.path.abspath(__file__))))
sys.path.insert(0, os.path.dirname(os.path.abspath(__file__)))
import vlib
from vlib import VI, VB, VS, VL
import regen_c11
import c20

PID = "C11"
THEOREMS = ["field_get_set", "field_frame", "field_rejects", "register_rejects", "reg_write_defines_fields",
            "reg_get_set", "group_views_agree", "group_write_defines_subs", "export_parse_id",
            "config_roundtrip_partial",
            "queries_pure", "run_preserves_wf", "rejected_write_keeps_state",
            "alt_width_group_get_set", "alt_width_reverse_refuted", "alt_width_revsub_refuted",
            "alt_width_big_endian_export_refuted"]
OPN = {1: "set_value", 2: "bitfield.set_value", 3: "bitfield.set_enum_value", 4: "reset_value", 5: "reset_values", 6: "parse",
       7: "parse(export())", 8: "load_yml_config", 9: "get_value", 10: "bitfield.get_value", 11: "bitfield.get_enum_value",
       12: "bitfield.get_hex_value", 13: "get_hex_value", 14: "get_bytes_value", 15: "export", 16: "get_config",
       17: "get_reg_names", 18: "fresh.parse(export())", 19: "fresh.load_yml_config(get_config())", 20: "read-only queries",
       22: "load_yml_config(config returned by the last get_config())"}


# ====================================================================================== independent spec helpers
def spec_int(v):
    """What number does the caller mean?  int / bytes (big endian) / str in the documented number grammar; else None."""
    t, x = v
    if t == "i":
        return x
    if t == "b":
        return int.from_bytes(x, "big")
    if t == "s" and all(ord(c) < 128 for c in x):
        return c20.grammar_value(x)
    return None


def byterev(v, nbytes):
    return int.from_bytes(v.to_bytes(nbytes, "big"), "little")


def bits(v, off, w):
    return (v >> off) & ((1 << w) - 1)


# ====================================================================================== layouts
class Gen:
    def __init__(self, rng, tier):
        self.rng = rng
        self.tier = tier

    def fields(self, prefix, width, p_fields=0.7):
        rng = self.rng
        if rng.random() > p_fields:
            return []
        top = width if rng.random() < 0.8 else rng.randrange(1, width + 1)
        out, off, k = [], 0, 0
        while off < top:
            w = min(top - off, rng.choice([1, 1, 2, 3, 4, 5, 7, 8, 8, 12, 16, 24, 31, 32, 33, 64]))
            if rng.random() < 0.15:
                out.append({"name": None, "width": w})
            else:
                f = {"name": f"{prefix}F{k}", "uid": f"{prefix.lower()}f{k}", "width": w, "proc": None, "enums": []}
                if rng.random() < 0.15:
                    f["proc"] = rng.randrange(1, 5)
                if rng.random() < 0.4:
                    cnt = f["proc"] or 0
                    vals = rng.sample(range(min(1 << w, 64)), min(1 << w, rng.randrange(1, 4)))
                    for n, ev in enumerate(vals):
                        nm = rng.choice([f"E{n}", f"{prefix}E{n}", f"EN_{n}"]) if rng.random() < 0.9 else rng.choice(["0x1", "7", "RAW:1"])
                        if nm not in [e[0] for e in f["enums"]]:
                            f["enums"].append([nm, ev << cnt])
                k += 1
                out.append(f)
            off += w
        return out

    def extra(self, prefix, width):
        rng = self.rng
        if rng.random() > 0.1:
            return []
        w = rng.randrange(1, min(width, 40) + 1)
        off = rng.randrange(0, width - w + 1)
        f = {"name": f"{prefix}X0", "uid": f"{prefix.lower()}x0", "offset": off, "width": w, "proc": None, "enums": [],
             "hidden": int(rng.random() < 0.2), "reset": 0}
        if rng.random() < 0.3:
            f["reset"] = rng.getrandbits(w)
        elif rng.random() < 0.2:
            f["proc"] = rng.randrange(1, 4)
        return [f]

    def alts(self, width, unit):
        rng = self.rng
        cands = [a for a in range(unit, width + 1, unit)]
        k = rng.choice([1, 1, 1, 2])
        a = rng.sample(cands, min(k, len(cands)))
        if width == 384 and rng.random() < 0.5:
            a = [256]
        return a

    def layout(self):
        rng = self.rng
        lay = {"big": int(rng.random() < 0.5), "fuse": int(rng.random() < 0.15), "regs": []}
        off = rng.choice([0, 0, 4, 0x10, 0x100])
        n = rng.choice([1, 1, 2, 2, 3, 4])
        for i in range(n):
            if rng.random() < 0.2:
                off += rng.choice([1, 4, 8])
            name = f"R{i}"
            if rng.random() < 0.3:
                sw = rng.choice([8, 16, 32, 32, 32, 64])
                ns = rng.choice([2, 2, 3, 4, 4, 8, 12])
                r = {"name": name, "uid": f"r{i}", "subs": [], "reverse": int(rng.random() < 0.4), "rev_sub": int(rng.random() < 0.4),
                     "alt": None, "hex": int(rng.random() < 0.4), "group_width": 0}
                if rng.random() < 0.5:
                    r["group_width"] = ns * sw      # the database always declares exactly the sum of the parts
                if rng.random() < 0.25:
                    r["alt"] = self.alts(r["group_width"] or ns * sw, sw if sw % 8 == 0 else 8)
                for j in range(ns):
                    s = {"name": f"{name}S{j}", "uid": f"r{i}s{j}", "offset": off, "width": sw, "reset": 0,
                         "hidden": int(rng.random() < 0.05), "reverse": int(rng.random() < 0.05)}
                    if rng.random() < 0.2:
                        s["reset"] = rng.getrandbits(sw)
                    s["fields"] = self.fields(f"{name}S{j}", sw, 0.4)
                    s["extra_fields"] = self.extra(f"{name}S{j}", sw)
                    r["subs"].append(s)
                    off += sw // 8
                lay["regs"].append(r)
            else:
                width = rng.choice([8, 16, 24, 32, 32, 32, 32, 64, 128, 256, 384, 512])
                r = {"name": name, "uid": f"r{i}", "offset": off, "width": width, "reset": 0, "hidden": int(rng.random() < 0.08),
                     "reverse": int(rng.random() < 0.25), "alt": None, "hex": int(rng.random() < 0.2), "subs": []}
                if rng.random() < 0.3:
                    r["reset"] = rng.getrandbits(width)
                if rng.random() < 0.15:
                    r["alt"] = self.alts(width, 8)
                r["fields"] = self.fields(name, width)
                r["extra_fields"] = self.extra(name, width)
                lay["regs"].append(r)
                off += width // 8
        return lay

    # -------------------------------------------------------------------------------- values
    def number(self, w, alts=()):
        rng = self.rng
        c = rng.random()
        if c < 0.55:
            return rng.getrandbits(w)
        pool = [0, 1, (1 << w) - 1, 1 << w, (1 << w) + 1, -1, -(1 << w), 1 << (w - 1), rng.getrandbits(w + 8), -rng.getrandbits(w) - 1,
                rng.getrandbits(max(1, w // 2)), rng.getrandbits(w) & ~((1 << (w // 2)) - 1)]
        for a in alts:
            pool += [(1 << a) - 1, 1 << a, rng.getrandbits(a), (1 << a) + rng.getrandbits(8), rng.getrandbits(a) << (w - a) if w > a else 0]
        return rng.choice(pool)

    def render(self, n, hexcfg=False):
        """a number as the caller may write it: int, or str in one of the accepted syntaxes, or bytes"""
        rng = self.rng
        c = rng.random()
        if hexcfg and c < 0.7:
            return VS(format(n, "x" if rng.random() < 0.5 else "X")) if n >= 0 else VS("-" + format(-n, "x"))
        if c < 0.55 or n < 0 and c < 0.85:
            return VI(n)
        if n < 0:
            return VS(str(n))
        if c < 0.62:
            return VB(n.to_bytes(max(1, (n.bit_length() + 7) // 8) + rng.choice([0, 0, 1]), "big"))
        s = rng.choice([str(n), hex(n), hex(n).upper().replace("0X", "0x"), "0X" + format(n, "X"), bin(n), oct(n), f"{n:_}", f"0x{n:_x}",
                        str(n) + "u", hex(n) + "ul", " " + hex(n) + " ", "\t" + str(n), "0b" + format(n, "b").zfill(9)])
        return VS(s)

    def garbage(self):
        return self.rng.choice([VS(""), VS("zz"), VS("0x"), VS("1.5"), VS("--1"), VS("0x1g"), VS("_1"), VS("1__0"), VS("NOPE"),
                                VS("RAW:"), VS("RAW:zz"), VL([])])


def built_layout(bv):
    """decode the implementation's description of the object it built"""
    def fld(v):
        x = v[1]
        return {"name": x[0][1], "off": x[1][1], "width": x[2][1], "proc": bool(x[3][1]), "count": x[4][1],
                "enums": [(e[1][0][1], e[1][1][1]) for e in x[5][1]], "hidden": bool(x[6][1]), "reset": x[7][1]}

    def sreg(v):
        x = v[1]
        return {"name": x[0][1], "offset": x[1][1], "width": x[2][1], "reverse": bool(x[3][1]), "alt": [a[1] for a in x[4][1]],
                "hidden": bool(x[5][1]), "hex": bool(x[6][1]), "reset": x[7][1], "fields": [fld(f) for f in x[8][1]], "value": x[9][1]}
    big, regs = bv[1]
    out = {"big": bool(big[1]), "regs": []}
    for r in regs[1]:
        b, rs, subs = r[1]
        d = sreg(b)
        d["rev_sub"] = bool(rs[1])
        d["subs"] = [sreg(s) for s in subs[1]]
        out["regs"].append(d)
    return out


def target(B, t):
    r = B["regs"][t[0]]
    return r if len(t) == 1 else r["subs"][t[1]]


def tname(B, t):
    try:
        return target(B, t)["name"]
    except IndexError:
        return "NO_SUCH_REGISTER"


def fname(B, t, k):
    try:
        return target(B, t)["fields"][k]["name"]
    except IndexError:
        return "NO_SUCH_FIELD"


class OpGen:
    def __init__(self, gen, B):
        self.g, self.rng, self.B = gen, gen.rng, B
        self.targets = []
        for i, r in enumerate(B["regs"]):
            self.targets.append((i,))
            for j in range(len(r["subs"])):
                self.targets.append((i, j))

    def alts_of(self, t):
        r = self.B["regs"][t[0]]
        a = list(r["alt"])
        if len(t) == 2:
            a += self.B["regs"][t[0]]["subs"][t[1]]["alt"]
        return a

    def pick_target(self, want_fields=False):
        rng = self.rng
        c = [t for t in self.targets if not want_fields or target(self.B, t)["fields"]]
        if not c:
            return None
        tops = [t for t in c if len(t) == 1]
        if tops and rng.random() < 0.6:
            return rng.choice(tops)
        return rng.choice(c)

    def reg_value(self, t, hexcfg=False):
        rng = self.rng
        w = target(self.B, t)["width"]
        if rng.random() < 0.04:
            return self.g.garbage()
        return self.g.render(self.g.number(w, [a for a in self.alts_of(t) if a <= w]), hexcfg)

    def field_value(self, f, enum_ok=True):
        rng = self.rng
        if enum_ok and f["enums"] and rng.random() < 0.45:
            return VS(rng.choice(f["enums"])[0])
        if rng.random() < 0.05:
            return self.g.garbage()
        w = f["width"]
        n = self.g.number(w)
        if f["proc"] and rng.random() < 0.8:
            n = n << f["count"] if rng.random() < 0.7 else (n << f["count"]) | rng.getrandbits(f["count"])
        v = self.g.render(n)
        if enum_ok and v[0] == "s" and rng.random() < 0.12:
            v = VS("RAW:" + v[1].strip())
        return v

    def cfg(self):
        rng = self.rng
        n = rng.choice([1, 1, 2, 3])
        ts = []
        for _ in range(n):
            t = self.pick_target()
            if t not in ts:
                ts.append(t)
        out = []
        for t in ts:
            T = target(self.B, t)
            if T["fields"] and rng.random() < 0.6:
                ks = rng.sample(range(len(T["fields"])), min(len(T["fields"]), rng.choice([0, 1, 1, 2, 3])))
                out.append((t, rng.choice([2, 3]), [(k, self.field_value(T["fields"][k])) for k in ks]))
            else:
                v = self.reg_value(t, hexcfg=T["hex"])
                if v[0] not in ("i", "s"):
                    v = VI(0)
                out.append((t, rng.choice([0, 0, 1]), v))
        if rng.random() < 0.03:
            out.append(((99,), 0, VI(0)))
        return out

    def op(self):
        rng = self.rng
        B = self.B
        c = rng.random()
        t = self.pick_target()
        raw = int(rng.random() < 0.25)
        if c < 0.20:
            return (1, t, self.reg_value(t), raw)
        if c < 0.42:
            tf = self.pick_target(True)
            if tf is None:
                return (1, t, self.reg_value(t), raw)
            T = target(B, tf)
            k = rng.randrange(len(T["fields"]))
            if rng.random() < 0.6:
                return (2, tf, k, self.field_value(T["fields"][k], enum_ok=False), raw, int(rng.random() < 0.1))
            return (3, tf, k, self.field_value(T["fields"][k]), raw)
        if c < 0.46:
            return (4, t, raw)
        if c < 0.48:
            return (5,)
        if c < 0.54:
            size = max(r["offset"] + r["width"] // 8 for r in B["regs"])
            n = rng.choice([size, size, size, size, size + 3, rng.randrange(0, size + 1), 0])
            fill = rng.choice(["rand", "rand", "zeros", "ones"])
            b = bytes(rng.getrandbits(8) if fill == "rand" else (0 if fill == "zeros" else 255) for _ in range(n))
            return (6, b)
        if c < 0.57:
            return (7,)
        if c < 0.65:
            return (8, self.cfg())
        if c < 0.70:
            return (9, t, raw)
        tf = self.pick_target(True)
        if c < 0.78 and tf is not None:
            k = rng.randrange(len(target(B, tf)["fields"]))
            return (rng.choice([10, 11, 12]), tf, k)
        if c < 0.81:
            return (rng.choice([13, 14]), t, raw)
        if c < 0.84:
            return (15,)
        if c < 0.87:
            return (16, int(rng.random() < 0.4))
        if c < 0.90:
            return (17, int(rng.random() < 0.6))
        if c < 0.94:
            return (18,)
        if c < 0.98:
            return (19, int(rng.random() < 0.3))
        return (20, t)


# ------------------------------------------------------------------ encodings
def ref_model(t):
    return VL([VI(x) for x in t])


def cfg_as_model_op(B, cfgv):
    """the configuration the implementation returned (output of get_config) as the model's load_yml_config operation"""
    names = [r["name"] for r in B["regs"]]
    ents = []
    for e in cfgv[1]:
        name, kind, body = e[1]
        i = names.index(name[1])
        if kind[1] == 0:
            ents.append(VL([VL([VI(i)]), VI(0), body]))
        else:
            fn = [f["name"] for f in B["regs"][i]["fields"]]
            ents.append(VL([VL([VI(i)]), VI(1), VL([VL([VI(fn.index(p[1][0][1])), p[1][1]]) for p in body[1]])]))
    return VL([VI(8), VL(ents)])


def ops_model(B, ops, tr):
    """model operations of one case; operation 22 replays the configuration the implementation produced"""
    out, last = [], None
    for o, (ov, _) in zip(ops, tr):
        if o[0] == 22:
            out.append(cfg_as_model_op(B, last) if last is not None else VL([VI(8), VL([VL([VL([VI(99)]), VI(0), VI(0)])])]))
        else:
            out.append(op_model(o))
        if o[0] == 16:
            last = ov if ov[0] == "l" else None
    return out


def op_model(op):
    k = op[0]
    if k == 1:
        return VL([VI(1), ref_model(op[1]), op[2], VI(op[3])])
    if k == 2:
        return VL([VI(2), ref_model(op[1]), VI(op[2]), op[3], VI(op[4]), VI(op[5])])
    if k == 3:
        return VL([VI(3), ref_model(op[1]), VI(op[2]), op[3], VI(op[4])])
    if k == 4:
        return VL([VI(4), ref_model(op[1]), VI(op[2])])
    if k in (5, 7, 15, 18):
        return VL([VI(k)])
    if k == 6:
        return VL([VI(6), VB(op[1])])
    if k == 8:
        ents = []
        for (t, fl, body) in op[1]:
            if fl in (0, 1):
                ents.append(VL([ref_model(t), VI(0), body]))
            else:
                ents.append(VL([ref_model(t), VI(1), VL([VL([VI(kk), v]) for (kk, v) in body])]))
        return VL([VI(8), VL(ents)])
    if k in (9, 13, 14):
        return VL([VI(k), ref_model(op[1]), VI(op[2])])
    if k in (10, 11, 12):
        return VL([VI(k), ref_model(op[1]), VI(op[2])])
    if k in (16, 17, 19):
        return VL([VI(k), VI(op[1])])
    if k == 20:
        return VL([VI(20), ref_model(op[1])])
    raise ValueError(k)


def op_impl(B, op):
    k = op[0]
    jv = vlib.jv
    if k == 1:
        return [1, tname(B, op[1]), jv(op[2]), op[3]]
    if k == 2:
        return [2, tname(B, op[1]), fname(B, op[1], op[2]), jv(op[3]), op[4], op[5]]
    if k == 3:
        return [3, tname(B, op[1]), fname(B, op[1], op[2]), jv(op[3]), op[4]]
    if k == 4:
        return [4, tname(B, op[1]), op[2]]
    if k in (5, 7, 15, 18):
        return [k]
    if k == 6:
        return [6, jv(VB(op[1]))]
    if k == 8:
        ents = []
        for (t, fl, body) in op[1]:
            if fl in (0, 1):
                ents.append([tname(B, t), fl, jv(body)])
            else:
                ents.append([tname(B, t), fl, [[fname(B, t, kk), jv(v)] for (kk, v) in body]])
        return [8, ents]
    if k in (9, 13, 14):
        return [k, tname(B, op[1]), op[2]]
    if k in (10, 11, 12):
        return [k, tname(B, op[1]), fname(B, op[1], op[2])]
    if k in (16, 17, 19):
        return [k, op[1]]
    if k == 20:
        return [20, tname(B, op[1])]
    if k == 22:
        return [22]
    raise ValueError(k)


def op_replay(B, op):
    d = op_impl(B, op)
    return {"call": OPN[op[0]], "args": d[1:]}


# ====================================================================================== snapshots
def py(v):
    """interchange value -> plain python (ints, str, bytes, lists, ('e', k))"""
    t, x = v[0], v[1]
    if t == "l":
        return [py(y) for y in x]
    if t == "e":
        return ("e", x)
    return x


class Snap:
    def __init__(self, v):
        p = py(v)
        self.n = p[0]
        self.regs = p[1]

    def tgt(self, t):
        r = self.regs[t[0]]
        return r if len(t) == 1 else r[7][t[1]]

    def raw(self, t):
        return self.tgt(t)[2]

    def log(self, t):
        return self.tgt(t)[3]

    def fields(self, t):
        return self.tgt(t)[5]

    def shape(self):
        return [self.n] + [[r[0], r[1], r[4], len(r[5]), r[6], [[s[0], s[1], s[4], len(s[5])] for s in r[7]]] for r in self.regs]


def is_int(x):
    return isinstance(x, int)


# ====================================================================================== oracles
def klass(B, t):
    """input class of a target, used in oracle signatures"""
    r = B["regs"][t[0]]
    T = target(B, t)
    fl = []
    if r["alt"] or T["alt"]:
        fl.append("alt-widths")
    if T["reverse"] or (len(t) == 1 and r["reverse"]):
        fl.append("reverse")
    if len(t) == 1 and r["subs"]:
        fl.append("group")
        if r["rev_sub"]:
            fl.append("rev-sub")
    if len(t) == 2:
        fl.append("sub")
    return "+".join(fl) or "plain"


def nbytes(v):
    return max(1, (v.bit_length() + 7) // 8)


def alt_of(width, alts, v):
    for a in sorted(alts):
        if nbytes(v) <= a // 8:
            return a
    return width


def related(t, u):
    return t[0] == u[0] and (len(t) == 1 or len(u) == 1 or t == u)


def all_targets(B):
    out = []
    for i, r in enumerate(B["regs"]):
        out.append((i,))
        out += [(i, j) for j in range(len(r["subs"]))]
    return out


def field_post(f, p):
    return p << f["count"] if f["proc"] else p


def field_pre(f, x, nopre):
    return x if (nopre or not f["proc"]) else x >> f["count"]


def disjoint(f, g):
    return f["off"] + f["width"] <= g["off"] or g["off"] + g["width"] <= f["off"]


DEFECT_NAMES = {"F1": "reversed-value-selects-another-width", "F3": "reversed-sub-order-positions-follow-alt-width",
                "F4": "big-endian-export-pads-short-value-at-the-end"}


def alt_outcome(B, t, x, raw, defects):
    """(raw view, value view) of the top-level register t after set_value(x, raw) when exactly the recorded defects in
    `defects` are present (empty set: the behaviour the property demands).  None when that combination cannot occur."""
    r = B["regs"][t[0]]
    w, alts = r["width"], r["alt"]
    if not (0 <= x < (1 << w)):
        return None
    a = alt_of(w, alts, x)
    y = byterev(x, a // 8) if (r["reverse"] and not raw) else x
    if r["subs"]:
        sw = r["subs"][0]["width"]
        n, c = a // sw, 0
        for j in range(len(r["subs"])):
            if j >= n:
                continue                                   # cleared sub-registers contribute nothing
            pw = (a - (j + 1) * sw) if r["rev_sub"] else j * sw
            pr = (((w if "F3" in defects else a) - (j + 1) * sw) if r["rev_sub"] else j * sw)
            c |= ((y >> pw) & ((1 << sw) - 1)) << pr
    else:
        c = y
    if c >= (1 << w):
        return None
    a2 = alt_of(w, alts, c) if ("F1" in defects or raw) else a
    if r["reverse"]:
        if c >= (1 << a2):
            return None
        return (c, byterev(c, a2 // 8))
    return (c, c)


def alt_label(B, t, x, raw, obs_raw, obs_log, export=False):
    """Registers with alternative widths: which recorded defects produce EXACTLY the observed outcome of writing x?
    The label is keyed on the outcome (both views of the register after the write), never on the input class:
    an outcome that no combination of recorded defects predicts is 'unexplained' and is reported as a violation."""
    if len(t) != 1 or x is None or not (is_int(obs_raw) and is_int(obs_log)):
        return "unexplained"
    r = B["regs"][t[0]]
    w = r["width"]
    if not (0 <= x < (1 << w)):
        return "unexplained"
    cand = [d for d, on in (("F1", r["reverse"]), ("F3", bool(r["subs"]) and r["rev_sub"]), ("F4", export and B["big"])) if on]
    ideal = alt_outcome(B, t, x, raw, set())
    subsets = [[]]
    for d in cand:
        subsets += [s_ + [d] for s_ in subsets]
    for ds in sorted(subsets[1:], key=len):
        v = x
        if "F4" in ds:
            a = alt_of(w, r["alt"], x)
            if a >= w:
                continue
            v = x << (w - a)
        pred = alt_outcome(B, t, v, raw, set(ds))
        if pred is not None and pred != ideal and pred == (obs_raw, obs_log):
            return ",".join(sorted(DEFECT_NAMES[d] for d in ds))
    return "unexplained"


def view_checks(B, S, where):
    """consistency of the grouped / reversed / bit-field views inside one snapshot"""
    out = []
    for t in all_targets(B):
        T = target(B, t)
        raw, log = S.raw(t), S.log(t)
        r = B["regs"][t[0]]
        cls = klass(B, t)
        if not (is_int(raw) and is_int(log)):
            out.append((f"view-unreadable:{cls}", f"{where}: {T['name']}.get_value() fails ({raw}, {log})"))
            continue
        base_raw, base_log = raw, raw          # what the reversed view is derived from
        if len(t) == 1 and r["subs"]:
            sw, w = r["subs"][0]["width"], r["width"]
            acc_raw, acc_log = 0, 0
            ok = True
            for j, s in enumerate(r["subs"]):
                sr, sl = S.raw((t[0], j)), S.log((t[0], j))
                if not (is_int(sr) and is_int(sl)):
                    ok = False
                    break
                pos = (w - (j + 1) * sw) if r["rev_sub"] else j * sw
                acc_raw |= sr << pos
                acc_log |= sl << pos
            if not ok:
                continue
            if acc_raw != raw:
                out.append((f"group-view:{cls}", f"{where}: group {T['name']} raw value {raw:#x} is not the concatenation of its "
                            f"sub-registers {acc_raw:#x}"))
            base_log = acc_log
        if not T["alt"]:
            want = byterev(base_log, T["width"] // 8) if (T["reverse"] and base_log < (1 << T["width"])) else base_log
            if log != want:
                out.append((f"reverse-view:{cls}", f"{where}: {T['name']}.get_value() is {log:#x}, expected {want:#x} "
                            f"({'byte reversal of ' if T['reverse'] else ''}the stored value {base_log:#x})"))
        elif not T["reverse"]:
            if log != base_log:
                out.append((f"reverse-view:{cls}", f"{where}: {T['name']} is not reversed but get_value() is {log:#x}, stored {base_log:#x}"))
        else:
            # reversed with alternative widths: the value view is the byte reversal of the stored value within the register
            # width or one of the alternative widths that hold it
            ok_views = {byterev(base_log, a_ // 8) for a_ in list(T["alt"]) + [T["width"]] if a_ % 8 == 0 and base_log < (1 << a_)}
            if log not in ok_views:
                out.append((f"reverse-view:{cls}", f"{where}: {T['name']}.get_value() {log:#x} is not a byte reversal of the stored "
                            f"value {base_log:#x} within the width or an alternative width"))
        for k, f in enumerate(T["fields"]):
            fv = S.fields(t)[k]
            want = field_post(f, bits(log, f["off"], f["width"]))
            if fv != want:
                out.append((f"field-view:{cls}", f"{where}: bit-field {f['name']} reads {fv} but bits {f['off']}..{f['off'] + f['width'] - 1} "
                            f"of {T['name']} = {log:#x} are {want}"))
    return out


def frame_checks(B, before, after, touched, opname):
    out = []
    for u in all_targets(B):
        if any(related(t, u) for t in touched):
            continue
        if before.tgt(u)[2:6] != after.tgt(u)[2:6]:
            out.append((f"frame:{OPN[opname]}", f"{OPN[opname]} on {[tname(B, t) for t in touched]} changed unrelated register {tname(B, u)}"))
    return out


def check_write_int(B, before, after, out, t, x, raw, parsed_ok, what, sig_base):
    """whole-register write of the number x (None: unparsable) to target t"""
    res = []
    T = target(B, t)
    cls = klass(B, t)
    ok = out[0] != "e"
    valid = x is not None and 0 <= x < (1 << T["width"])
    if not valid:
        kind = "unparsable" if x is None else ("negative" if x < 0 else "too-big")
        if ok:
            res.append((f"{sig_base}-accepts-invalid:{kind}", f"{what} accepted a value that does not fit ({kind}); register reads {after.log(t)}"))
        elif before.regs != after.regs:
            res.append((f"{sig_base}-rejected-but-changed-state", f"{what} was rejected but the register file changed"))
        return res
    if not ok:
        res.append((f"{sig_base}-rejects-valid:{cls}", f"{what} rejected although 0 <= {x} < 2**{T['width']}"))
        return res
    got = after.raw(t) if raw else after.log(t)
    if got != x:
        why = ""
        if "alt-widths" in cls:
            why = ":" + alt_label(B, t, x, raw, after.raw(t), after.log(t))
        res.append((f"{sig_base}-readback:{cls}{why}", f"{what}: wrote {x:#x}, get_value({'raw' if raw else ''}) returns "
                    f"{got if not is_int(got) else hex(got)}"))
    return res


def oracle_case(B, ops, snap0, trace):
    """returns list of (signature, message, index of the operation)"""
    hits = []
    shape0 = snap0.shape()
    fresh0 = snap0
    stash_snap = None
    for (sig, msg) in view_checks(B, snap0, "fresh object"):
        hits.append((sig, msg, -1))
    before = snap0
    for idx, (op, (outv, after)) in enumerate(zip(ops, trace)):
        k = op[0]
        out = outv
        ok = out[0] != "e"
        here = []
        name = OPN[k]
        if after.shape() != shape0:
            here.append((f"structure-changed:{name}", f"{name} changed the shape of the register file: {shape0} -> {after.shape()}"))
        elif ok or k in (8,):
            here += view_checks(B, after, f"after {name}")
        if not ok and out[1] == 3:
            here.append((f"hang:{name}", f"{name} did not return"))
        if 9 <= k <= 20:
            if before.regs != after.regs or before.n != after.n:
                here.append((f"query-mutates:{name}", f"read-only {name} changed the register file"))
        bogus = any(isinstance(a, tuple) and a and a[0] == 99 for a in op[1:2])
        if k == 1 and not bogus:
            _, t, v, raw = op
            here += check_write_int(B, before, after, out, t, spec_int(v), raw, True, f"{tname(B, t)}.set_value({v[1]!r}, raw={bool(raw)})", "set-reg")
            here += frame_checks(B, before, after, [t], k)
        if k in (2, 3) and not bogus:
            t, kk, v, raw = op[1], op[2], op[3], op[4]
            nopre = op[5] if k == 2 else 0
            T = target(B, t)
            f = T["fields"][kk]
            x = None
            if k == 3 and v[0] == "s" and v[1] in [e[0] for e in f["enums"]]:
                x = dict(reversed(f["enums"]))[v[1]] if False else [e[1] for e in f["enums"] if e[0] == v[1]][0]
            elif k == 3 and v[0] == "s" and v[1].startswith("RAW:"):
                x = spec_int(VS(v[1][4:]))
                nopre, raw = 1, 1
            else:
                x = spec_int(v)
            what = f"{T['name']}.{f['name']}.{'set_enum_value' if k == 3 else 'set_value'}({v[1]!r}, raw={bool(raw)})"
            p = None if x is None else field_pre(f, x, nopre)
            valid = p is not None and 0 <= p < (1 << f["width"])
            cls = klass(B, t)
            if not valid:
                kind = "unparsable" if p is None else ("negative" if p < 0 else "too-big")
                if ok:
                    here.append((f"field-accepts-out-of-range:{kind}", f"{what} accepted ({kind}, width {f['width']}); field reads {after.fields(t)[kk]}"))
                elif before.regs != after.regs:
                    here.append(("field-rejected-but-changed-state", f"{what} was rejected but the register file changed"))
            elif not ok:
                here.append((f"field-rejects-valid:{cls}", f"{what} rejected although the value fits {f['width']} bits"))
            else:
                if not (raw and T["reverse"]):
                    got = after.fields(t)[kk]
                    if "alt-widths" in cls:
                        base = before.raw(t) if raw else before.log(t)
                        m = ((1 << f["width"]) - 1) << f["off"]
                        cls += ":" + alt_label(B, t, ((base & ~m) | (p << f["off"])) if is_int(base) else None, raw, after.raw(t), after.log(t))
                    if got != field_post(f, p):
                        here.append((f"field-readback:{cls}", f"{what}: field reads {got}, written {field_post(f, p)}"))
                    for g_i, g in enumerate(T["fields"]):
                        if g_i != kk and disjoint(f, g) and before.fields(t)[g_i] != after.fields(t)[g_i]:
                            here.append((f"field-disturbs-neighbour:{cls}", f"{what} changed neighbour {g['name']} from "
                                         f"{before.fields(t)[g_i]} to {after.fields(t)[g_i]}"))
                    # the untouched bits of the register
                    if is_int(before.log(t)) and is_int(after.log(t)):
                        m = ((1 << f["width"]) - 1) << f["off"]
                        if (before.log(t) & ~m) != (after.log(t) & ~m):
                            here.append((f"field-disturbs-register-bits:{cls}", f"{what} changed bits outside the field: "
                                         f"{before.log(t):#x} -> {after.log(t):#x}"))
                here += frame_checks(B, before, after, [t], k)
                if len(t) == 2:
                    for j in range(len(B["regs"][t[0]]["subs"])):
                        if j != t[1] and before.tgt((t[0], j))[2:6] != after.tgt((t[0], j))[2:6]:
                            here.append(("field-disturbs-sibling-sub-register", f"{what} changed sibling {tname(B, (t[0], j))}"))
        if k == 4 and not bogus:
            _, t, raw = op
            T = target(B, t)
            if ok and not (len(t) == 1 and B["regs"][t[0]]["subs"]) and 0 <= T["reset"] < (1 << T["width"]):
                got = after.raw(t) if raw else after.log(t)
                if got != T["reset"]:
                    cls = klass(B, t)
                    why = (":" + alt_label(B, t, T["reset"], raw, after.raw(t), after.log(t))) if "alt-widths" in cls else ""
                    here.append((f"reset-readback:{cls}{why}", f"{T['name']}.reset_value(raw={bool(raw)}) leaves {got}, reset value is {T['reset']}"))
            here += frame_checks(B, before, after, [t], k)
        if k == 6 and ok:
            data = op[1]
            for i, r in enumerate(B["regs"]):
                if r["hidden"]:
                    continue
                lo, hi = r["offset"], r["offset"] + r["width"] // 8
                if len(data) < hi:
                    break
                want = int.from_bytes(data[lo:hi], "big" if B["big"] else "little")
                got = after.raw((i,))
                if got != want:
                    cls = klass(B, (i,))
                    why = (":" + alt_label(B, (i,), want, 1, after.raw((i,)), after.log((i,)))) if "alt-widths" in cls else ""
                    here.append((f"parse-readback:{cls}{why}", f"parse: bytes at {lo}..{hi} are {want:#x}, {r['name']} reads {got}"))
        if k == 6 and not ok:
            here.append(("parse-raises", "parse of a byte string raised"))
        if k == 15:
            if not ok:
                here.append(("export-raises", "export raised"))
            else:
                data = out[1]
                size = max(r["offset"] + r["width"] // 8 for r in B["regs"])
                if len(data) != size:
                    here.append(("export-length", f"export has {len(data)} bytes, the registers span {size}"))
                else:
                    for i, r in enumerate(B["regs"]):
                        lo, hi = r["offset"], r["offset"] + r["width"] // 8
                        want = after.raw((i,))
                        got = int.from_bytes(data[lo:hi], "big" if B["big"] else "little")
                        if is_int(want) and got != want:
                            cls = klass(B, (i,))
                            if "alt-widths" in cls:
                                # the recorded outcome (C11-F4): the alt_width/8 bytes sit at the start of the big-endian slot
                                a_ = alt_of(r["width"], r["alt"], want)
                                exact = B["big"] and a_ < r["width"] and got == want << (r["width"] - a_)
                                cls += ":" + (DEFECT_NAMES["F4"] if exact else "unexplained")
                            here.append((f"export-bytes:{cls}", f"export: bytes of {r['name']} decode to {got:#x}, its raw value is {want:#x}"))
        if k in (7, 18):
            if not ok:
                here.append((f"export-parse-raises:{name}", f"{name} raised {out}"))
            else:
                other = after if k == 7 else Snap(out)
                ref = before if k == 7 else after
                for i, r in enumerate(B["regs"]):
                    if r["hidden"]:
                        continue
                    if other.regs[i] != ref.regs[i]:
                        cls = klass(B, (i,))
                        if "alt-widths" in cls:
                            cls += ":" + alt_label(B, (i,), ref.raw((i,)), 1, other.raw((i,)), other.log((i,)), export=True)
                        here.append((f"export-parse-roundtrip:{cls}", f"{name}: {r['name']} is {ref.regs[i][2:4]} before and {other.regs[i][2:4]} after the round trip"))
        if k == 16 and ok:
            stash_snap = after
        if k in (19, 22):
            diff = op[1] if k == 19 else 0
            ref = after if k == 19 else stash_snap
            if not ok:
                here.append((f"config-roundtrip-raises:{'diff' if diff else 'full'}", f"{name} raised {out}"))
            elif ref is not None:
                other = Snap(out) if k == 19 else after
                for i, r in enumerate(B["regs"]):
                    tiled = sorted((f["off"], f["off"] + f["width"]) for f in r["fields"])
                    covered = bool(tiled) and tiled[0][0] == 0 and tiled[-1][1] == r["width"] and all(a[1] == b[0] for a, b in zip(tiled, tiled[1:]))
                    if r["fields"] and not covered:
                        continue     # bits outside every bit-field are not part of a bit-field configuration
                    if diff and any(f["proc"] and f["reset"] for f in r["fields"]):
                        continue
                    if diff and any(s_["reset"] for s_ in r["subs"]):
                        continue     # "difference to reset" is undefined for a group: its own reset value ignores the parts
                    if any(spec_int(VS(e[0])) is not None or e[0].startswith("RAW:") for f in r["fields"] for e in f["enums"]):
                        continue     # an enum that is named like a number cannot be told from the number in a configuration
                    if other.regs[i] != ref.regs[i]:
                        cls = klass(B, (i,)) + ("+diff" if diff else "") + ("+hexstring" if r["hex"] else "")
                        if "alt-widths" in cls:
                            x_ = ref.log((i,)) if is_int(ref.log((i,))) else None
                            mech = alt_label(B, (i,), x_, 0, other.raw((i,)), other.log((i,)))
                            if mech == "unexplained" and r["reverse"] and x_ is not None and other.log((i,)) == x_ \
                                    and other.raw((i,)) == byterev(x_, alt_of(r["width"], r["alt"], x_) // 8) and ref.raw((i,)) != other.raw((i,)):
                                # the value is restored exactly; only its stored form differs, because the reversal width depends
                                # on the magnitude of what was stored (two stored forms of one value: C11-F1)
                                mech = DEFECT_NAMES["F1"]
                            cls += ":" + mech
                        here.append((f"config-roundtrip:{cls}", f"{name}: {r['name']} is {ref.regs[i][2:4]}, after loading its own "
                                     f"configuration {other.regs[i][2:4]}"))
        if k == 8 and len(op[1]) == 1 and op[1][0][1] in (0, 1) and op[1][0][0][0] != 99:
            # one register given as a number: the configuration means that number (hex digits for config_as_hexstring registers)
            t, _, v = op[1][0]
            T = target(B, t)
            x, known = None, True
            if T["hex"] and v[0] == "s":
                if v[1] and all(c in "0123456789abcdefABCDEF" for c in v[1]):
                    x = 0
                    for c in v[1]:
                        x = x * 16 + "0123456789abcdef".index(c.lower())
                else:
                    known = False        # other spellings in a hex-string register: no expectation
            else:
                x = spec_int(v)
            if known:
                here += check_write_int(B, before, after, out, t, x, 0, True,
                                        f"load_yml_config({{{T['name']}: {v[1]!r}}}){' [config_as_hexstring]' if T['hex'] else ''}",
                                        "load-cfg" + ("-hexstring" if T["hex"] else ""))
                here += frame_checks(B, before, after, [t], k)
        for (sig, msg) in here:
            hits.append((sig, msg, idx))
        before = after
    return hits


# ====================================================================================== driver
def gen_cases(tier, rng):
    g = Gen(rng, tier)
    n = 2400 if tier == "thorough" else 200
    cases = []
    for _ in range(n):
        cases.append({"layout": g.layout(), "nops": rng.choice([1, 2, 3, 5, 8, 8, 12, 12, 16, 20, 30])})
    return g, cases


def hexstring_cases():
    """config_as_hexstring registers and groups (ROTKH/RKTH style) with values whose rendering is ambiguous between number
    syntaxes: only decimal digits, leading zeros, 0b/0o/0e look-alikes; every value goes through get_config -> load_yml_config
    into a fresh object (full and diff) and into the same object after reset_values(), and through load_yml_config spellings."""
    def plain(name, off, width, hexs, reverse=0, fields=None):
        return {"name": name, "uid": name.lower(), "offset": off, "width": width, "reset": 0, "hidden": 0, "reverse": reverse, "alt": None,
                "hex": hexs, "subs": [], "fields": fields or [], "extra_fields": []}

    def group(name, off, ns, sw, reverse, rev_sub, alt=None):
        return {"name": name, "uid": name.lower(), "reverse": reverse, "rev_sub": rev_sub, "alt": alt, "hex": 1, "group_width": ns * sw,
                "subs": [{"name": f"{name}S{j}", "uid": f"{name.lower()}s{j}", "offset": off + j * sw // 8, "width": sw, "reset": 0, "hidden": 0,
                          "reverse": 0, "fields": [], "extra_fields": []} for j in range(ns)]}
    fields = [{"name": "FA", "uid": "fa", "width": 8, "proc": None, "enums": [["TEN", 10], ["SIXTEEN", 16]]},
              {"name": "FB", "uid": "fb", "width": 12, "proc": 4, "enums": []},
              {"name": "FC", "uid": "fc", "width": 12, "proc": None, "enums": []}]
    lays = [
        {"big": 0, "fuse": 0, "regs": [plain("H", 0, 32, 1), plain("HR", 4, 64, 1, reverse=1), plain("N", 12, 32, 0, fields=fields)]},
        {"big": 1, "fuse": 0, "regs": [group("G", 0, 4, 32, 0, 0), plain("N", 16, 32, 0, fields=fields)]},
        {"big": 0, "fuse": 1, "regs": [group("ROTKH", 0, 8, 32, 1, 0), plain("H", 32, 16, 1)]},
        {"big": 0, "fuse": 0, "regs": [group("K", 0, 4, 32, 1, 1), plain("N", 16, 32, 0, fields=fields)]},
        {"big": 0, "fuse": 0, "regs": [group("A", 0, 12, 32, 0, 0, alt=[256]), plain("H", 48, 8, 1)]},
    ]
    vals = [0x10, 0x100, 0x17, 0xb1, 0x0e1, 0x11, 0x99, 10, 0x1234, 0x0b1, 0x7777]
    spell = ["10", "0010", "017", "0b1", "0B1", "0e1", "b1", "00000100", "0x10", "0o17", "1_0", " 10 ", "99"]
    out = []
    for lay in lays:
        ops = []
        hexregs = [i for i, r in enumerate(lay["regs"]) if r["hex"]]
        for n, v in enumerate(vals):
            for i in hexregs:
                w = lay["regs"][i].get("width") or lay["regs"][i]["group_width"]
                ops.append((1, (i,), VI(v if v < (1 << w) else v & ((1 << w) - 1)), 0))
            if any(not r["hex"] for r in lay["regs"]):
                i = [j for j, r in enumerate(lay["regs"]) if not r["hex"]][0]
                ops.append((3, (i,), 0, VS("SIXTEEN") if n % 2 else VI(v & 0xFF), 0))
                ops.append((2, (i,), 1, VI((v & 0xFFF) << 4), 0, 0))
                ops.append((2, (i,), 2, VS(str(v & 0xFFF)), 0, 0))
            ops += [(19, 0), (19, 1), (16, 0), (5,), (22,)]
        for sp in spell:
            for i in hexregs:
                ops.append((8, [((i,), n_ % 2, VS(sp)) for n_ in [len(ops)]]))
        out.append((lay, ops))
    return out


def witness_cases():
    """fixed witnesses of the recorded findings (always replayed)"""
    def group(reverse, rev_sub, big=0):
        return {"big": big, "fuse": 0, "regs": [{"name": "G", "uid": "g", "reverse": reverse, "rev_sub": rev_sub, "alt": [256], "hex": 1,
                                                  "group_width": 384, "subs": [{"name": f"S{j}", "uid": f"s{j}", "offset": 4 * j, "width": 32,
                                                                                "reset": 0, "hidden": 0, "reverse": 0, "fields": [],
                                                                                "extra_fields": []} for j in range(12)]}]}
    w = []
    w.append((group(1, 0), [(1, (0,), VI(1 << 256), 0)]))
    w.append((group(0, 0), [(1, (0,), VI((1 << 300) + 5), 0), (1, (0,), VI(7), 0)]))
    w.append((group(0, 1), [(1, (0,), VI(7), 0)]))
    w.append((group(0, 0, big=1), [(1, (0,), VI(7), 0), (15,), (18,)]))
    w.append(({"big": 0, "fuse": 0, "regs": [{"name": "R", "uid": "r", "offset": 0, "width": 384, "reset": 0, "hidden": 0, "reverse": 1,
                                             "alt": [256, 384], "hex": 0, "subs": [], "fields": [], "extra_fields": []}]},
              [(1, (0,), VI(1 << 256), 0)]))
    return w


def snap_diff(prev, cur):
    """the encoding of Model/RegsModel.v snap_diff, computed from two full snapshots of the implementation"""
    pn, pr = prev[1][0], prev[1][1][1]
    cn, cr = cur[1][0], cur[1][1][1]
    if pn != cn:
        return VL([cn, VL([]), cur])
    return VL([cn, VL([VL([VI(i), c]) for i, (p, c) in enumerate(zip(pr, cr)) if p != c])])


def exhaustive_cases(W, reverse, big):
    """every bit-field position (offset, width) of a W-bit register, boundary values through every write path"""
    out = []
    for off in range(W):
        for w in range(1, W - off + 1):
            fields = []
            if off:
                fields.append({"name": "A", "uid": "a", "width": off, "proc": None, "enums": []})
            k = len(fields)
            fields.append({"name": "F", "uid": "f", "width": w, "proc": None, "enums": [["TOP", (1 << w) - 1]]})
            if off + w < W:
                fields.append({"name": "B", "uid": "b", "width": W - off - w, "proc": None, "enums": []})
            lay = {"big": big, "fuse": 0, "regs": [{"name": "R", "uid": "r", "offset": 0, "width": W, "reset": 0, "hidden": 0,
                                                     "reverse": reverse, "alt": None, "hex": 0, "subs": [], "fields": fields,
                                                     "extra_fields": []}]}
            ones = (1 << W) - 1
            ops = [(1, (0,), VI(ones), 0), (2, (0,), k, VI(0), 0, 0), (9, (0,), 0), (2, (0,), k, VI(1 << w), 0, 0),
                   (2, (0,), k, VI(-1), 0, 0), (1, (0,), VI(0), 0), (3, (0,), k, VS("TOP"), 0), (9, (0,), 1),
                   (2, (0,), k, VS(hex(1 << (w - 1))), 0, 0), (18,), (19, 0), (1, (0,), VI(1 << W), 0)]
            out.append((lay, ops))
    return out


def same_out(a, b):
    if a[0] == "e" or b[0] == "e":
        return a[0] == b[0] and a[1] == b[1]
    return a == b


def run(tier):
    rep = vlib.Report(PID, tier)
    rng = vlib.Rng(vlib.seed())
    T0 = time.time()

    def lap(what):
        vlib.log(f"  [{time.time() - T0:6.1f} s] {what}")
    try:
        regen_c11.regen()
        rep.obligation("translate:spsdk/utils/registers.py->Gen/GenRegs.v", True)
    except Exception as ex:  # noqa  (Untranslatable included: fail closed)
        rep.obligation("translate:spsdk/utils/registers.py->Gen/GenRegs.v", False, repr(ex))
    model_ok, mout = vlib.coq_make(["Model/RegsModel.vo"])
    if vlib.check_theorems(rep, PID, THEOREMS, ["Proofs/RegsProofs.vo"]) and tier == "thorough":
        vlib.coqchk(rep, PID, THEOREMS)
    vlib.audit(rep)
    lap("model and theorems checked")

    # ---------------- pass 1: build the objects, learn the layouts as built
    g, cases = gen_cases(tier, rng)
    wit = witness_cases() + hexstring_cases()
    nwit = len(wit)
    if tier == "thorough":
        wit = wit + exhaustive_cases(16, 0, 0) + exhaustive_cases(16, 1, 1) + exhaustive_cases(8, 1, 0)
    else:
        wit = wit + exhaustive_cases(8, 0, 1) + exhaustive_cases(8, 1, 0)
    layouts = [w[0] for w in wit] + [c["layout"] for c in cases]
    r0 = vlib.run_impl("c11_impl.py", {"cases": [{"layout": l, "ops": []} for l in layouts]}, timeout=3000)["results"]
    plan = []
    nbuild_err = 0
    for i, (lay, res) in enumerate(zip(layouts, r0)):
        if "build_error" in res:
            nbuild_err += 1
            continue
        bv = vlib.vj(res["built"])
        B = built_layout(bv)
        if i < len(wit):
            ops = wit[i][1]
        else:
            og = OpGen(g, B)
            ops = [og.op() for _ in range(cases[i - len(wit)]["nops"])]
        plan.append((lay, bv, B, ops, i < len(wit), res.get("endian_uniform", True)))
    rep.obligation("harness:every generated layout can be built", nbuild_err == 0, f"{nbuild_err} layouts failed to build")
    rep.obligation("harness:base endianness is uniform over registers and sub-registers (model assumption)",
                   all(p[5] for p in plan), "")

    # ---------------- pass 2: run the operation sequences on the implementation
    r1 = vlib.run_impl("c11_impl.py", {"cases": [{"layout": lay, "ops": [op_impl(B, o) for o in ops]}
                                                  for (lay, bv, B, ops, _, _) in plan]}, timeout=6000)["results"]
    impl = []
    for res in r1:
        snap0 = vlib.vj(res["snap0"])
        tr = []
        for (o, s) in res["trace"]:
            ov = tuple(o) if o[0] == "e" else vlib.vj(o)
            tr.append((ov, vlib.vj(s)))
        impl.append((snap0, tr, vlib.vj(res["built"])))

    lap("implementation runs done")
    # ---------------- oracles on the implementation's own outputs
    nops_total, nhits = 0, 0
    opkinds = {}
    for (lay, bv, B, ops, is_wit, _), (snap0, tr, bv2) in zip(plan, impl):
        nops_total += len(ops)
        for o in ops:
            opkinds[OPN[o[0]]] = opkinds.get(OPN[o[0]], 0) + 1
        try:
            hits = oracle_case(B, ops, Snap(snap0), [(o, Snap(s)) for (o, s) in tr])
        except Exception as ex:  # noqa
            rep.obligation("oracle:evaluation", False, f"oracle crashed: {ex!r}")
            hits = []
        for (sig, msg, idx) in hits:
            nhits += 1
            rep.failing(sig, "register file is not a set of independent bit-vectors: " + msg,
                        {"kind": "impl-oracle", "layout": lay, "ops": [op_replay(B, o) for o in ops[:idx + 1]],
                         "failing_op_index": idx, "signature": sig, "message": msg,
                         "how": "build the layout with tools/impl/c11_impl.py (build()), apply ops in order"})

    lap("oracles done")
    # ---------------- correspondence with the Coq model
    ndis = 0
    if model_ok:
        try:
            exprs = [f"run_case 1 [{vlib.coq_lit(bv)}; {vlib.coq_lit(VL(ops_model(B, ops, tr)))}]"
                     for (lay, bv, B, ops, _, _), (snap0, tr, bv2) in zip(plan, impl)]
            mres = vlib.run_model_cases("c11", "Value RegsModel", exprs, shard=40 if tier == "quick" else 60, timeout=1500, jobs=8)
            for (lay, bv, B, ops, _, _), (snap0, tr, bv2), m in zip(plan, impl, mres):
                bad = None
                if m[0] != "l" or len(m[1]) != len(ops) + 1:
                    bad = ("shape", None, m)
                elif bv2 != bv:
                    bad = ("object built differently in the two passes", None, None)
                elif m[1][0] != snap0:
                    bad = ("fresh snapshot", snap0, m[1][0])
                else:
                    prev = snap0
                    for idx, ((o, s), mv) in enumerate(zip(tr, m[1][1:])):
                        mo, ms = mv[1]
                        if not same_out(o, mo):
                            bad = (f"output of op {idx} {OPN[ops[idx][0]]}", o, mo)
                            break
                        if snap_diff(prev, s) != ms:
                            bad = (f"snapshot after op {idx} {OPN[ops[idx][0]]}", snap_diff(prev, s), ms)
                            break
                        prev = s
                if bad:
                    ndis += 1
                    if ndis <= 5:
                        vlib.log(f"  disagreement [{bad[0]}]: impl {str(bad[1])[:300]} model {str(bad[2])[:300]}")
                        if ndis == 1:
                            rep.coverage["first_disagreement"] = {"where": bad[0], "layout": lay, "ops": [op_replay(B, o) for o in ops]}
            rep.obligation("correspondence:model=implementation (outputs and full snapshots after every operation)", ndis == 0,
                           f"{ndis} of {len(plan)} cases disagree" if ndis else "")
        except Exception as ex:  # noqa
            rep.obligation("correspondence:model evaluation", False, repr(ex))
    else:
        rep.obligation("correspondence:model builds", False, mout[-2000:])

    lap("correspondence done")
    # ---------------- coverage accounting
    def account(name, lo, hi, exhaustive):
        distinct, nops = set(), 0
        for (lay, bv, B, ops, _, _), (snap0, tr, _) in list(zip(plan, impl))[lo:hi]:
            nops += len(ops)
            if any(tr[i][1] != (tr[i - 1][1] if i else snap0) for i in range(len(tr))):
                distinct.add(repr((bv, [op_impl(B, o) for o in ops])))
        samples = [{"layout": plan[i][0], "ops": [op_replay(plan[i][2], o) for o in plan[i][3]][:6]} for i in range(lo, min(hi, lo + 2))]
        rep.add_stream(name, hi - lo, len(distinct), samples=samples, exhaustive=exhaustive, extra={"operations": nops})
    classes = {}
    for (lay, bv, B, ops, _, _) in plan:
        for t in all_targets(B):
            c = klass(B, t)
            classes[c] = classes.get(c, 0) + 1
    account("fixed witnesses of the recorded and repaired findings; config_as_hexstring registers/groups with ambiguous number syntaxes", 0, nwit, True)
    account("every bit-field position of a small register x boundary values x every write path", nwit, len(wit), True)
    account("operation sequences on random layouts", len(wit), len(plan), False)
    rep.coverage["operation_kinds"] = opkinds
    rep.coverage["register_classes"] = classes
    rep.coverage["oracle_hits"] = nhits
    rep.coverage["operations"] = nops_total
    return rep.finish(
        rule="layouts (1-4 top-level registers, widths 8..512, bit-fields tiling or not, enums, SHIFT_RIGHT processors, groups "
             "normal/reversed, reversed bytes, alternative widths, Registers and FuseRegisters) and operation sequences of length "
             "1..30 are drawn from VERIF_SEED; a case is non-trivial when at least one operation changed the snapshot; distinct by "
             "(layout, operations)",
        trusted_base=["Coq 8.16.1 kernel + vm_compute", "tools/translate/pyfun.py + tools/regen_c11.py (Python ast -> Gallina)",
                      "hand-written control skeleton of Model/RegsModel.v, tied by the correspondence run",
                      "Model/MiscModel.v (value_to_int / value_to_bytes, property C20)", "CPython int semantics"],
        checker_cmd="coqc -R . V Props/C11/*.v (after make Proofs/RegsProofs.vo)",
        assumptions=["register and bit-field names are unique (addressed by position in the model)",
                     "widths are positive multiples of 8, alternative widths are multiples of 8 not above the width",
                     "strings restricted to ASCII", "YAML/ruamel layer, HTML/schema generation not modelled"])


if __name__ == "__main__":
    sys.exit(run(sys.argv[1] if len(sys.argv) > 1 else "quick"))
