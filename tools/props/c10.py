"""C10 -- bootloader protocols: data arrives intact, results mirror the device, faults surface (DESIGN.md section 3, C10).

(T1) tools/regen_c10.py extracts the protocol tables and the command packet of every modelled McuBoot method into
     Gen/GenMboot.v;  (P) the theorems of coq/Props/C10 are checked;  (T2) the real McuBoot + MbootSerialProtocol /
     MbootBulkProtocol run over DeviceBase stubs (tools/impl/c10_impl.py): `live` against the reference bootloader,
     `script` against a fixed device->host stream with one fault injected; the Coq model is run on the same cases and
     every observable (result / exception / status_code per call, every byte written, bytes consumed, device state) is
     compared.  Independent spec oracles judge the implementation's own answers:
       live   : results equal what the reference device sent / received (log of the device), data packets <= max packet size
       faults : a call that reports success consumed only well-formed, CRC-valid items, and its value is exactly and
                completely what those items carry; no hang, no exception outside the documented SPSDK family.
"""
import os
import re
import struct
import sys
import time

sys.path.insert(0, os.path.dirname(os.path.dirname(os.path.abspath(__file__))))
sys.path.insert(0, os.path.join(os.path.dirname(os.path.dirname(os.path.abspath(__file__))), "impl"))
import vlib
from vlib import VI, VB, VL
import regen_c10
import c10_refdev as ref

PID = "C10"
THEOREMS = ["frame_roundtrip", "frame_roundtrip_device", "report_roundtrip", "frames_crc_checked", "short_report_rejected",
            "success_sound", "success_sound_serial", "success_complete", "never_partial_success", "lost_frame_surfaces",
            "status_mirrors_device", "property_values_mirror_device", "packets_bounded", "data_written_once_in_order",
            "faultfree_refines_spec", "write_reaches_memory", "host_terminates",
            "sdp_read_complete", "sdp_read_exact", "sdp_write_once_in_order", "sdp_write_success_sound", "sdp_hid_data_once_in_order",
            "faultfree_refines_spec_families_serial", "faultfree_refines_spec_families_hid", "families_side_conditions_hold",
            "hid_report_roundtrip_device"]
OPN = {1: "flash_erase_all", 2: "flash_erase_region", 3: "read_memory", 34: "read_memory(fast)", 4: "write_memory", 5: "fill_memory",
       6: "flash_security_disable", 7: "get_property", 8: "receive_sb_file", 9: "execute", 10: "call", 12: "set_property",
       13: "flash_erase_all_unsecure", 14: "efuse_program_once", 15: "efuse_read_once", 16: "flash_read_once",
       17: "flash_program_once", 18: "flash_read_resource", 19: "configure_memory", 20: "reliable_update", 22: "kp_enroll",
       23: "kp_set_intrinsic_key", 24: "kp_write_nonvolatile", 25: "kp_read_nonvolatile", 26: "kp_set_user_key",
       27: "kp_write_key_store", 28: "kp_read_key_store", 29: "load_image", 30: "fuse_program", 31: "fuse_read",
       32: "update_life_cycle", 33: "ele_message"}
DATA_OUT_OPS = {4: 0x04, 8: 0x08, 26: 0x15, 27: 0x15, 29: 0x00, 30: 0x14}
DATA_IN_OPS = {3: 0x03, 34: 0x03, 18: 0x10, 28: 0x15, 31: 0x17}
EXC_KIND = {"SPSDKTimeoutError": 1, "McuBootConnectionError": 2, "McuBootDataAbortError": 3, "McuBootCommandError": 4,
            "McuBootError": 5, "error": 10, "AssertionError": 11, "ValueError": 12, "IndexError": 13, "ZeroDivisionError": 14}
DOCUMENTED = {1, 2, 3, 4, 5, 6}           # SPSDKError family


# ------------------------------------------------------------------ canonical outcomes
def canon_impl(r):
    """impl result -> (kind, value, status)"""
    if r[0] == "ok":
        return (0, vlib.vj(r[1]), r[2])
    if r[0] == "hang":
        return (99, ("i", 0), r[1])
    name, errval, is_spsdk, status = r[1], r[2], r[3], r[4]
    k = EXC_KIND.get(name, 6 if is_spsdk else 15)
    return (k, ("i", errval if k == 4 else 0), status)


def canon_model(v):
    l = v[1]
    return (l[0][1], l[1], l[2][1])


def gen_bytes(seed, n):
    """the LCG of Model/MbootModel.v gen_bytes"""
    out, x = bytearray(), seed
    for _ in range(n):
        x = (x * 25173 + 13849) & 65535
        out.append(x >> 8)
    return bytes(out)


def hash_n(b):
    a, c = 7, 0
    for x in b:
        a = (a + x + 1) & 0xFFFFFFFF
        c = (c + a) & 0xFFFFFFFF
    return a + (c << 32)


def vdig(b):
    return VL([VI(len(b)), VI(hash_n(b))])


def call_lit(c, seed=None):
    return VL([VI(c[0]), VL([VI(x) for x in c[1]]), VL([VI(seed[0]), VI(seed[1])]) if seed else VB(bytes.fromhex(c[2]))])


def core_lit(dev, mem_seed=None):
    pairs = lambda d: VL([VL([VI(int(k)), VI(v)]) for k, v in sorted(d.items(), key=lambda kv: int(kv[0]))])  # noqa
    props = dict(dev.get("props", {}))
    props[str(ref.P_MAX_PACKET)] = [dev["mps"]]
    return VL([VI(dev["base"]), VL([VI(mem_seed[0]), VI(mem_seed[1])]) if mem_seed else VB(bytes.fromhex(dev["mem"])), VI(dev["mps"]),
               VL([VL([VI(int(k)), VL([VI(x) for x in v])]) for k, v in sorted(props.items(), key=lambda kv: int(kv[0]))]),
               pairs(dev.get("fuses", {})), VB(bytes.fromhex(dev.get("keystore", ""))),
               pairs(dev.get("fail_cmd", {})), pairs(dev.get("fail_final", {}))])


def mps_lit(m):
    return VL([] if m is None else [VI(m)])


def model_expr(case):
    seeds = case.get("_seeds")
    ce, mps = VI(case["cmd_exception"]), mps_lit(case.get("mps_cache"))
    calls = VL([call_lit(c, seeds["calls"].get(i) if seeds else None) for i, c in enumerate(case["calls"])])
    ser = case["transport"] == "serial"
    if case["mode"] == "live":
        args = [ce, mps, core_lit(case["dev"], seeds["mem"] if seeds else None), calls]
        fn = (2 if ser else 4) if not seeds else (5 if ser else 6)
    elif ser:
        args, fn = [ce, mps, VB(bytes.fromhex(case["stream"])), calls], 1
    else:
        args, fn = [ce, mps, VL([VB(bytes.fromhex(r)) for r in case["reports"]]), calls], 3
    return f"run_case {fn} [{'; '.join(vlib.coq_lit(a) for a in args)}]"


def snapshot_value(dev):
    """device snapshot of the impl run in the shape of the model's vcore"""
    cmds = [VL([VI(e[1]), VI(e[2]), VL([VI(p) for p in e[3]])]) for e in dev["log"] if e[0] == "cmd"]
    return VL([VB(bytes.fromhex(dev["mem"])),
               VL([VL([VI(int(k)), VL([VI(x) for x in v])]) for k, v in sorted(dev["props"].items(), key=lambda kv: int(kv[0]))]),
               VL([VL([VI(int(k)), VI(v)]) for k, v in sorted(dev["fuses"].items(), key=lambda kv: int(kv[0]))]),
               VB(bytes.fromhex(dev["keystore"])), VL([VB(bytes.fromhex(s)) for s in dev["sb"]]), VB(bytes.fromhex(dev["images"])),
               VL([VL([VI(k), VB(bytes.fromhex(v))]) for k, v in dev["userkeys"]]), VL(cmds)])


def compare(case, ir, mv):
    """list of differences between implementation run `ir` and model value `mv`"""
    diffs = []
    m = mv[1]
    dig = "_seeds" in case
    D = (lambda b: vdig(b)) if dig else (lambda b: b)
    mres = [canon_model(x) for x in m[0][1]]
    ires = [canon_impl(x) for x in ir["results"]]
    if dig:
        ires = [(k, vdig(v[1]) if v[0] == "b" else v, st) for (k, v, st) in ires]
    if mres != ires:
        for k, (a, b) in enumerate(zip(ires, mres)):
            if a != b:
                diffs.append(f"call {k} {OPN.get(case['calls'][k][0])}: impl {a} model {b}")
                break
        if len(mres) != len(ires):
            diffs.append(f"{len(ires)} impl results vs {len(mres)} model results")
    mw = [x if dig else x[1] for x in m[1][1]]
    iw = [D(bytes.fromhex(x)) for x in ir["writes"]]
    if mw != iw:
        k = next((i for i, (a, b) in enumerate(zip(iw, mw)) if a != b), min(len(iw), len(mw)))
        diffs.append(f"host write #{k} differs: impl {iw[k] if k < len(iw) else None} model {mw[k] if k < len(mw) else None}")
    ser = case["transport"] == "serial"
    if case["mode"] == "live":
        if ser:
            if (m[2] if dig else m[2][1]) != D(b"".join(bytes.fromhex(x) for x in ir["reads"])):
                diffs.append("device->host stream differs")
        elif [x if dig else x[1] for x in m[2][1]] != [D(bytes.fromhex(x)) for x in ir["reads"]]:
            diffs.append("device->host reports differ")
        if m[3] != mps_lit(ir["mps_cache"]):
            diffs.append(f"max_packet_size cache: impl {ir['mps_cache']} model {m[3]}")
        sv = snapshot_value(ir["dev"])
        if dig:
            sv = VL([vdig(sv[1][0][1])] + sv[1][1:])
        if m[4] != sv:
            names = ["mem", "props", "fuses", "keystore", "sb", "images", "userkeys", "commands"]
            bad = [n for n, a, b in zip(names, m[4][1], sv[1]) if a != b]
            diffs.append(f"device state differs in {bad}")
        if m[5][1] != ir["left"]:
            diffs.append(f"unread input: impl {ir['left']} model {m[5][1]}")
    else:
        if m[2][1] != ir["left"]:
            diffs.append(f"unread input: impl {ir['left']} model {m[2][1]}")
        if m[3] != mps_lit(ir["mps_cache"]):
            diffs.append(f"max_packet_size cache: impl {ir['mps_cache']} model {m[3]}")
    return diffs


# ------------------------------------------------------------------ spec oracles
def succeeded(op, res):
    """does the API report success?  (no exception, return value not None / False, status_code SUCCESS)"""
    k, v, st = res
    if k != 0 or st != 0:
        return False
    if v == ("l", []):
        return False
    if v == ("i", 0) and op != 15:
        return False
    return True


BOOL_OPS = {1, 2, 4, 5, 6, 8, 9, 10, 12, 13, 14, 17, 19, 20, 22, 23, 24, 25, 26, 27, 29, 30, 32, 33}


def true_with_error(op, res):
    """a bool-returning call answers True although status_code reports an error"""
    return op in BOOL_OPS and res[0] == 0 and res[1] == ("i", 1) and res[2] != 0


def oracle_live(case, ir):
    """fault-free closed loop: API results must mirror what the reference device sent and received."""
    out = []
    log = ir["dev"]["log"]
    mps = case["dev"]["mps"]
    tr = case["transport"]
    nws = [r[-1] for r in ir["results"]] + [len(ir["writes"])]
    for k, (c, r) in enumerate(zip(case["calls"], ir["results"])):
        op, ints, data = c[0], c[1], bytes.fromhex(c[2])
        res = canon_impl(r)
        name = OPN[op]
        sig = f"live:{tr}:{name}"
        if res[0] == 99:
            out.append((sig + ":hang", f"call {k} {name} did not return"))
            break
        if res[0] >= 10:
            out.append((sig + f":crash:{r[1]}", f"call {k} {name}{ints} raised a non-SPSDK exception {r[1]}"))
            continue
        if res[0] in (1, 2, 3, 5, 6):
            validation = (op == 16 and ints[1] not in (4, 8)) or (op == 17 and len(data) not in (4, 8)) or \
                         (op == 6 and len(data) != 8) or (op == 18 and ints[1] % 4 != 0)
            if not (validation and res[0] in (5, 6)):
                out.append((sig + f":spurious-exception:{r[1]}", f"call {k} {name}{ints} raised {r[1]} although the link and the device are fault free"))
            continue
        ent = [e for e in log if nws[k] < e[-1] <= nws[k + 1]]
        # the first data-phase call of a session asks for the max packet size first: not part of this call's own exchange
        if ent and ent[0][0] == "cmd" and ent[0][1] == 7 and ent[0][3][:1] == [ref.P_MAX_PACKET] and op != 7:
            j = 1
            while j < len(ent) and ent[j][0] in ("status", "values"):
                j += 1
            ent = ent[j:]
        cmds = [e for e in ent if e[0] == "cmd"]
        statuses = [e[2] for e in ent if e[0] == "status"]
        douts = [bytes.fromhex(e[1]) for e in ent if e[0] == "data_out"]
        din = b"".join(bytes.fromhex(e[1]) for e in ent if e[0] == "data_in")
        vals = [e[1] for e in ent if e[0] == "values"]
        for d in douts:
            if len(d) > mps or len(d) == 0:
                out.append((sig + ":packet-size", f"call {k} {name}: data packet of {len(d)} bytes, negotiated max packet size {mps}"))
        ok = succeeded(op, res)
        if op == 14 and ints[2:] and ints[2]:
            continue       # verify variant: the status may be replaced by OTP_VERIFY_FAIL on purpose
        if (ok or (op in BOOL_OPS and res[0] == 0 and res[1] == ("i", 1))) and any(s != 0 for s in statuses):
            out.append((sig + ":success-on-error", f"call {k} {name} reported success {short(res)}, device sent statuses {statuses}"))
        if ok and not cmds and op != 29 and not (op == 3 and tr == "hid" and ints[1] == 0):
            out.append((sig + ":no-command", f"call {k} {name} reported success but the device received no command"))
        if res[0] == 0 and statuses and res[2] != statuses[-1]:
            out.append((sig + ":status", f"call {k} {name}: status_code {res[2]}, last status sent by the device {statuses[-1]}"))
        if res[0] == 4 and res[1][1] not in statuses:
            out.append((sig + ":status", f"call {k} {name}: McuBootCommandError({res[1][1]}), device sent {statuses}"))
        if not ok and res[0] == 0 and statuses and all(s == 0 for s in statuses):
            out.append((sig + ":failure-on-success", f"call {k} {name} reported failure {short(res)}, device sent only SUCCESS"))
        if op in DATA_OUT_OPS and ok and b"".join(douts) != data:
            got = b"".join(douts)
            out.append((sig + ":data-lost", f"call {k} {name} reported success, device received {got[:48].hex()}.. ({len(got)} B) "
                                            f"instead of {data[:48].hex()}.. ({len(data)} B)"))
        if op in DATA_IN_OPS and ok and res[1] != ("b", din):
            out.append((sig + ":data-wrong", f"call {k} {name} returned {res[1][1][:48].hex()}.. ({len(res[1][1])} B), device sent "
                                             f"{din[:48].hex()}.. ({len(din)} B)"))
        if op in (7, 15, 16) and ok:
            want = vals[-1] if vals else None
            exp = {7: lambda w: ("l", [("i", x) for x in w]), 15: lambda w: ("i", w[0]),
                   16: lambda w: ("b", b"".join(struct.pack("<I", x) for x in w))}[op]
            if want is None or res[1] != exp(want):
                out.append((sig + ":values", f"call {k} {name} returned {short(res)}, device sent {want}"))
    # whole-session check: the device memory is what the successful writes / fills / erases say (abstract memory)
    return out


def hid_items(reports):
    """strict decoding of HID reports: ('frame', type, payload) / ('abort',) or None"""
    out = []
    for r in reports:
        if len(r) < 4:
            return None
        rid, _z, ln = struct.unpack_from("<BBH", r)
        if ln == 0:
            out.append(("abort",))
            continue
        if len(r) < 4 + ln or rid not in (3, 4):
            return None
        out.append(("frame", ref.CMD if rid == 3 else ref.DATA, r[4:4 + ln]))
    return out


def carried(op, ints, frames, tr, mps):
    """what a receiver following the protocol obtains from well-formed items in a data-in exchange:
    bytes, or a string saying why the exchange is not a complete successful transfer"""
    want_tag = DATA_IN_OPS[op]
    if tr == "hid" and op == 3:
        total = ints[1]
        blocks = [mps] * (total // mps) + ([total % mps] if total % mps else [])
    else:
        blocks = [None]
    out, i = b"", 0
    for bl in blocks:
        if i >= len(frames) or frames[i][1] != ref.CMD or len(frames[i][2]) < 12:
            return "response missing"
        ln = bl if bl is not None else struct.unpack_from("<I", frames[i][2], 8)[0]
        i += 1
        acc = b""
        while i < len(frames):
            f = frames[i]
            if f[1] == ref.DATA:
                acc += f[2]
            elif len(f[2]) >= 12 and f[2][0] == ref.R_GENERIC and struct.unpack_from("<I", f[2], 8)[0] == want_tag:
                break
            i += 1
        if i >= len(frames):
            return "final response missing"
        i += 1
        if len(acc) < ln:
            return f"only {len(acc)} of {ln} announced bytes arrived"
        out += acc[:ln]
    return out


KIND_EXC = {10: "error", 11: "AssertionError", 12: "ValueError", 13: "IndexError", 14: "ZeroDivisionError"}


def obs_impl(ir):
    r = ir["results"][0]
    return {"res": canon_impl(r), "exc": r[1] if r[0] == "exc" else None, "left": ir["left"],
            "writes": [bytes.fromhex(w) for w in ir["writes"]]}


def obs_model(mv):
    m = mv[1]
    res = canon_model(m[0][1][0])
    return {"res": res, "exc": KIND_EXC.get(res[0], "exception"), "left": m[2][1], "writes": [x[1] for x in m[1][1]]}


def oracle_fault(case, ob, fclass, what):
    """one API call against a scripted (faulted) stream: success must be backed by the consumed input.
    `ob` is the observation (of the implementation, or of the model when a disagreement is classified)."""
    out = []
    c = case["calls"][0]
    op, ints, data = c[0], c[1], bytes.fromhex(c[2])
    name, tr = OPN[op], case["transport"]
    res = ob["res"]
    sig = f"fault:{tr}:{name}:ce{case['cmd_exception']}:{fclass}"
    if res[0] == 99:
        return [(sig + ":hang", f"{name} did not return within the time limit under [{what}]")]
    if res[0] >= 10:
        return [(sig + f":crash:{ob['exc']}", f"{name} raised the non-SPSDK exception {ob['exc']} under [{what}]")]
    if true_with_error(op, res):
        return [(sig + ":true-with-error-status", f"{name} returned True with status_code {res[2]} [{what}]")]
    if not succeeded(op, res):
        return out
    if tr == "serial":
        stream = bytes.fromhex(case["stream"])
        items = ref.parse_stream(stream[:len(stream) - ob["left"]])
    else:
        reps = [bytes.fromhex(r) for r in case["reports"]]
        items = hid_items(reps[:len(reps) - ob["left"]])
    if items is None:
        return [(sig + ":success-on-malformed-input", f"{name} reported success {short(res)} although the input it consumed is not a "
                                                      f"sequence of well-formed, CRC-valid items [{what}]")]
    if any(it[0] == "nak" for it in items):
        out.append((sig + ":success-on-nak", f"{name} reported success although the device answered NAK [{what}]"))
    frames = [it for it in items if it[0] == "frame"]
    cmds = [f[2] for f in frames if f[1] == ref.CMD]
    sts = [struct.unpack_from("<I", p, 4)[0] if len(p) >= 8 else None for p in cmds]
    if any(s != 0 for s in sts):
        out.append((sig + ":success-on-error", f"{name} reported success, the responses it consumed carry statuses {sts} [{what}]"))
    if op in DATA_IN_OPS:
        want = carried(op, ints, frames, tr, case["mps_cache"])
        if res[1][0] != "b" or res[1][1] != want:
            out.append((sig + ":partial-or-wrong-data",
                        f"{name} reported success with {len(res[1][1])} bytes {res[1][1][:24].hex()}; the consumed items give: "
                        f"{want if isinstance(want, str) else want.hex()} [{what}]"))
    if op in DATA_OUT_OPS:
        sent = b""
        for w in ob["writes"]:
            if tr == "serial" and len(w) > 6 and w[1] == ref.DATA:
                sent += w[6:]
            if tr == "hid" and w[0] == ref.HID_DATA_OUT:
                sent += w[4:]
        if sent != data:
            out.append((sig + ":data-lost", f"{name} reported success but wrote {len(sent)} of {len(data)} data bytes [{what}]"))
    if op == 7:
        p = cmds[-1] if cmds else b""
        n = p[3] if len(p) >= 4 else 0
        want = list(struct.unpack_from(f"<{n}I", p, 4))[1:] if len(p) >= 4 + 4 * n else None
        if want is None or res[1] != ("l", [("i", x) for x in want]):
            out.append((sig + ":values", f"get_property returned {res[1]}, the consumed response carries {want} [{what}]"))
    return out


def short(res):
    v = res[1]
    if v[0] == "b":
        return f"({len(v[1])} bytes {v[1][:16].hex()})"
    return str(v)


# ------------------------------------------------------------------ case generation
def mk_dev(rng, mps, size=None):
    size = size if size is not None else rng.choice([64, 256, 1024])
    return {"base": rng.choice([0, 0x1000, 0x20000000]), "mem": bytes(rng.getrandbits(8) for _ in range(size)).hex(), "mps": mps,
            "props": {"1": [0x4B030000], "10": [rng.randrange(2)], "22": [0], "24": [1, 2, 3], "18": [rng.getrandbits(32) for _ in range(4)]},
            "fuses": {str(rng.randrange(8)): rng.getrandbits(32)}, "keystore": bytes(rng.getrandbits(8) for _ in range(rng.choice([0, 5, 40]))).hex()}


def rnd_bytes(rng, n):
    return bytes(rng.getrandbits(8) for _ in range(n)).hex()


def gen_call(rng, dev, big=False):
    base, size, mps = dev["base"], len(dev["mem"]) // 2, dev["mps"]
    lens = [0, 1, 2, mps - 1, mps, mps + 1, 2 * mps, 3 * mps + 5, size]
    ln = min(rng.choice(lens), size)
    a = base + rng.randrange(0, size - ln + 1)
    if rng.random() < 0.12:
        a = base + size - ln + rng.choice([1, 4, 1000])       # out of range
    op = rng.choice([3, 3, 3, 4, 4, 4, 5, 2, 7, 7, 12, 8, 1, 13, 14, 15, 16, 17, 18, 19, 20, 22, 23, 24, 25, 26, 27, 28, 29, 9, 10, 6, 30, 31,
                     32, 33, 34])
    memid = rng.choice([0, 0, 0, 1, 9, 256, 0x101])
    if op in (3, 34, 31):
        return [op, [a, ln, memid], ""]
    if op == 2:
        return [op, [a, ln, memid], ""]
    if op in (4, 30):
        return [op, [a, memid], rnd_bytes(rng, ln)]
    if op == 5:
        return [op, [a - a % 4 if rng.random() < 0.8 else a, ln - ln % 4 if rng.random() < 0.8 else ln, rng.getrandbits(32)], ""]
    if op == 7:
        return [op, [rng.choice([1, 10, 11, 18, 22, 24, 99, 0x19]), rng.choice([0, 0, 1])], ""]
    if op == 12:
        return [op, [rng.choice([10, 22, 1, 99, 28]), rng.getrandbits(32)], ""]
    if op == 8:
        return [op, [rng.choice([0, 0, 1])], rnd_bytes(rng, rng.choice([1, mps, mps + 3, 4 * mps, 200]))]
    if op in (1, 24, 25, 32):
        return [op, [rng.choice([0, 1, 5])], ""]
    if op == 14:
        return [op, [rng.randrange(8), rng.getrandbits(32), rng.choice([0, 1])], ""]
    if op == 15:
        return [op, [rng.randrange(8)], ""]
    if op == 16:
        return [op, [rng.randrange(8), rng.choice([4, 8, 8, 4, 5])], ""]
    if op == 17:
        return [op, [rng.randrange(8)], rnd_bytes(rng, rng.choice([4, 8, 8, 3]))]
    if op == 18:
        return [op, [a - a % 4, rng.choice([ln - ln % 4, ln]), rng.choice([0, 1])], ""]
    if op in (19, 10, 23):
        return [op, [rng.getrandbits(32), rng.choice([0, 1, 9])], ""]
    if op in (20,):
        return [op, [rng.getrandbits(32)], ""]
    if op in (26,):
        return [op, [rng.choice([2, 3, 11])], rnd_bytes(rng, rng.choice([16, 32, mps + 1]))]
    if op in (27, 29):
        return [op, [], rnd_bytes(rng, rng.choice([0, 1, mps, 2 * mps + 1, 100]))]
    if op == 9:
        return [op, [rng.getrandbits(32), rng.getrandbits(32), rng.getrandbits(32)], ""]
    if op == 6:
        return [op, [], rnd_bytes(rng, rng.choice([8, 8, 8, 7]))]
    if op == 33:
        return [op, [rng.getrandbits(32), rng.randrange(16), rng.getrandbits(32), rng.randrange(16)], ""]
    return [op, [], ""]


def gen_live(tier, rng):
    cases = []
    n = 30 if tier == "quick" else 400
    for i in range(n):
        mps = rng.choice([8, 32, 56, 512, 1016])
        dev = mk_dev(rng, mps)
        if rng.random() < 0.3:
            t = rng.choice([3, 4, 5, 7, 8, 21, 2])
            dev[rng.choice(["fail_cmd", "fail_final"])] = {str(t): rng.choice([1, 4, 10203, 10101, 0x12345678])}
        calls = [gen_call(rng, dev) for _ in range(rng.randrange(1, 9))]
        for tr in ("serial", "hid"):
            for ce in (0, 1):
                cases.append({"transport": tr, "cmd_exception": ce, "mode": "live", "dev": dev, "calls": calls,
                              "mps_cache": rng.choice([None, None, mps]) if tr == "never" else None})
    # large transfers at packet-size boundaries
    combos = [(4096, 32), (4096, 56), (65536, 1016)] if tier == "quick" else \
        [(s_, m_) for s_ in (4096, 32768, 65535, 65536) for m_ in (32, 56, 512, 1016)]
    for size, mps in combos:
        if True:
            dev = mk_dev(rng, mps, 16)
            s1, s2 = rng.randrange(1 << 16), rng.randrange(1 << 16)
            dev["mem"] = gen_bytes(s1, size).hex()
            calls = [[3, [dev["base"], size, 0], ""], [4, [dev["base"], 0], gen_bytes(s2, size).hex()], [3, [dev["base"], size, 0], ""]]
            for tr in ("serial", "hid"):
                cases.append({"transport": tr, "cmd_exception": 1, "mode": "live", "dev": dev, "calls": calls, "mps_cache": None,
                              "_seeds": {"mem": (s1, size), "calls": {1: (s2, size)}}})
    return cases


FAULT_CALLS = [
    ("read 20 B", lambda d: [3, [d["base"] + 4, 20, 0], ""]),
    ("write 19 B", lambda d: [4, [d["base"] + 8, 0], "00112233445566778899aabbccddeeff102030"]),
    ("get_property", lambda d: [7, [24, 0], ""]),
    ("fill", lambda d: [5, [d["base"], 8, 0xA5A5A5A5], ""]),
    ("read keystore", lambda d: [28, [], ""]),
    ("read once", lambda d: [16, [3, 8], ""]),
    ("receive sb", lambda d: [8, [0], "5a" * 11]),
    ("receive sb (check errors)", lambda d: [8, [1], "5a" * 11]),
    ("load image", lambda d: [29, [], "a5" * 9]),
    ("efuse program+verify", lambda d: [14, [3, 0x0F, 1], ""]),
]


def serial_faults(stream, items, tier, rng):
    """(description, faulted stream) for every position of the device->host stream and every fault kind"""
    out = []
    n = len(stream)
    for p in range(n):
        bits = range(8) if tier == "thorough" else [rng.randrange(8)]
        for b in bits:
            s = bytearray(stream)
            s[p] ^= 1 << b
            out.append(("bitflip", f"bit {b} of byte {p} flipped", bytes(s)))
        for v in ([0x00, 0xFF, 0x5A, 0xA1, 0xA2, 0xA3] if tier == "thorough" else [0x00, rng.choice([0xFF, 0x5A, 0xA1, 0xA3])]):
            if stream[p] != v:
                s = bytearray(stream)
                s[p] = v
                out.append(("byte-replaced", f"byte {p} replaced by {v:#x}", bytes(s)))
        out.append(("byte-dropped", f"byte {p} dropped", stream[:p] + stream[p + 1:]))
        out.append(("truncated", f"stream truncated at {p}", stream[:p]))
        out.append(("nak-inserted", f"NAK inserted at {p}", stream[:p] + bytes([ref.START, ref.NAK]) + stream[p:]))
        out.append(("abort-inserted", f"ABORT frame inserted at {p}", stream[:p] + bytes([ref.START, ref.ABORT]) + stream[p:]))
        if tier == "thorough":
            out.append(("idle-inserted", f"idle byte inserted at {p}", stream[:p] + b"\0" + stream[p:]))
            out.append(("byte-duplicated", f"byte duplicated at {p}", stream[:p + 1] + stream[p:]))
    enc = [bytes([ref.START, ref.ACK]) if it[0] == "ack" else ref.frame(it[1], it[2]) for it in items]
    for k, it in enumerate(items):
        out.append(("item-missing", f"item {k} ({it[0]}) missing", b"".join(e for j, e in enumerate(enc) if j != k)))
        out.append(("item-duplicated", f"item {k} ({it[0]}) duplicated", b"".join(enc[:k + 1] + enc[k:])))
        if it[0] == "frame" and it[1] == ref.CMD:
            for st in (1, 10203):
                p = bytearray(it[2])
                p[4:8] = struct.pack("<I", st)
                out.append(("error-status", f"item {k}: device error status {st}", b"".join(enc[:k] + [ref.frame(ref.CMD, bytes(p))] + enc[k + 1:])))
        if it[0] == "frame":
            out.append(("zero-length-frame", f"item {k}: zero-length frame", b"".join(enc[:k] + [bytes([ref.START, it[1], 0, 0, 0, 0])] + enc[k + 1:])))
    return out


def hid_faults(reports, tier, rng):
    out = []
    for k, r in enumerate(reports):
        out.append(("report-missing", f"report {k} missing", reports[:k] + reports[k + 1:]))
        out.append(("report-duplicated", f"report {k} duplicated", reports[:k + 1] + reports[k:]))
        out.append(("abort-report", f"abort report before report {k}", reports[:k] + [bytes([r[0], 0, 0, 0])] + reports[k:]))
        for p in (range(1, len(r)) if tier == "thorough" else sorted(set([1, 2, 3, 4, 5, 7, 8, 11, len(r) - 1]) & set(range(1, len(r))))):
            out.append(("report-truncated", f"report {k} truncated to {p} bytes", reports[:k] + [r[:p]] + reports[k + 1:]))
        if r[0] == ref.HID_CMD_IN:
            for st in (1, 10203):
                p = bytearray(r)
                p[8:12] = struct.pack("<I", st)
                out.append(("error-status", f"report {k}: device error status {st}", reports[:k] + [bytes(p)] + reports[k + 1:]))
    out.append(("report-missing", "all reports missing", []))
    return out


# ------------------------------------------------------------------ SDP (oracle stream; SDP is not modelled in Coq)
SDPN = {1: "read", 2: "write", 3: "write_file", 4: "write_dcd", 5: "write_csf", 6: "skip_dcd", 7: "jump_and_run", 8: "read_status",
        9: "read_safe", 10: "write_safe"}
SDP_OKWORD = {3: ref.SDP_FILE_OK, 4: ref.SDP_WRITE_OK, 5: ref.SDP_WRITE_OK, 2: ref.SDP_WRITE_OK, 10: ref.SDP_WRITE_OK, 6: ref.SDP_SKIP_OK}
SDP_TAG = {3: ref.SDP_FILE, 4: ref.SDP_DCD, 5: ref.SDP_CSF, 2: ref.SDP_WRITE, 10: ref.SDP_WRITE, 6: ref.SDP_SKIP}


def sdp_res(r):
    if r[0] == "ok":
        return (0, vlib.vj(r[1]), r[2])
    if r[0] == "hang":
        return (99, ("i", 0), r[1])
    k = {"SdpConnectionError": 2, "SdpCommandError": 4, "SdpError": 5}.get(r[1], 6 if r[3] else 15)
    return (k, ("i", r[2] if k == 4 else 0), r[4])


def sdp_gen_live(tier, rng):
    cases = []
    for _ in range(30 if tier == "quick" else 300):
        size = rng.choice([64, 200, 1500])
        dev = {"base": rng.choice([0, 0x1000, 0x20000000]), "mem": rnd_bytes(rng, size), "locked": int(rng.random() < 0.2),
               "fail": {}, "error_status": rng.choice([0xF0F0F0F0, 0x33221100])}
        if rng.random() < 0.3:
            dev["fail"] = {str(rng.choice([ref.SDP_FILE, ref.SDP_DCD, ref.SDP_CSF, ref.SDP_WRITE, ref.SDP_SKIP])): rng.choice([0, 0x12345678, 0x88888889])}
        calls = []
        for _k in range(rng.randrange(1, 7)):
            op = rng.choice([1, 1, 2, 3, 3, 4, 5, 6, 7, 8, 9, 10])
            ln = rng.choice([0, 1, 4, 63, 64, 65, 128, 130, size])
            ln = min(ln, size)
            a = dev["base"] + rng.randrange(0, size - ln + 1)
            if op in (1, 9):
                calls.append([op, [a if op == 1 else a - a % 4, ln, rng.choice([8, 16, 32]) if op == 9 else 32], ""])
            elif op in (2, 10):
                calls.append([op, [dev["base"] + 4 * rng.randrange(0, size // 4 - 1), rng.getrandbits(32), rng.choice([1, 2, 4]), 32], ""])
            elif op in (3, 4, 5):
                dl = ln if ln else 7
                calls.append([op, [dev["base"] + rng.randrange(0, size - dl + 1)], rnd_bytes(rng, dl)])
            elif op == 7:
                calls.append([op, [a], ""])
            else:
                calls.append([op, [], ""])
        for tr in ("serial", "hid"):
            for ce in (0, 1):
                cases.append({"transport": tr, "cmd_exception": ce, "mode": "live", "pad": int(rng.random() < 0.5), "dev": dev, "calls": calls})
    return cases


def sdp_oracle_live(case, ir):
    out = []
    dev = case["dev"]
    mem = bytearray(bytes.fromhex(dev["mem"]))
    base, tr = dev["base"], case["transport"]
    fail = {int(k): v for k, v in dev.get("fail", {}).items()}
    for k, (c, r) in enumerate(zip(case["calls"], ir["results"])):
        op, ints, data = c[0], c[1], bytes.fromhex(c[2])
        res = sdp_res(r)
        name = SDPN[op]
        sig = f"sdp-live:{tr}:{name}"
        if res[0] == 99:
            out.append((sig + ":hang", f"call {k} sdp.{name} did not return"))
            break
        if res[0] in (6, 15):
            out.append((sig + f":crash:{r[1]}", f"call {k} sdp.{name}{ints} raised {r[1]} on a fault-free link"))
            continue
        if res[0] == 2:
            out.append((sig + ":spurious-exception", f"call {k} sdp.{name}{ints} raised SdpConnectionError on a fault-free link"))
            continue
        if op in (1, 9):
            fmt = ints[2] or 32
            if op == 9 and (ints[0] % (fmt // 8)):
                continue
            ln = ints[1] or (fmt // 8 if op == 9 else 0)
            want = bytes(mem[ints[0] - base:ints[0] - base + ln])
            if res[0] != 0 or res[1] != ("b", want):
                out.append((sig + ":data-wrong", f"call {k} sdp.{name}({ints[0]:#x}, {ln}) returned {short(res)}, the device memory holds {want[:32].hex()} ({len(want)} B)"))
        elif op in SDP_OKWORD:
            tag = SDP_TAG[op]
            good = fail.get(tag, SDP_OKWORD[op]) == SDP_OKWORD[op]
            if good and op in (3, 4, 5):
                mem[ints[0] - base:ints[0] - base + len(data)] = data
            cnt = ints[2] if op in (2, 10) else 0
            if op == 10:
                nb = (ints[3] or 32) // 8
                if ints[0] % nb:
                    continue                  # documented SdpError for a misaligned address
                cnt = min(cnt + (nb - cnt % nb) % nb, 4)
            if good and op in (2, 10) and cnt in (1, 2, 4):
                mem[ints[0] - base:ints[0] - base + cnt] = ints[1].to_bytes(4, "little")[:cnt]
            if good and res[:2] != (0, ("i", 1)):
                out.append((sig + ":failure-on-success", f"call {k} sdp.{name} -> {short(res)} although the device answered the OK word"))
            if not good and (res[:2] == (0, ("i", 1))):
                out.append((sig + ":success-on-error", f"call {k} sdp.{name} returned True, the device answered {fail[tag]:#x}"))
            if not good and case["cmd_exception"] and res[0] != 4:
                out.append((sig + ":no-exception", f"call {k} sdp.{name}: cmd_exception is set, device answered {fail[tag]:#x}, got {short(res)}"))
        elif op == 8 and (res[0] != 0 or res[1] != ("i", dev["error_status"])):
            out.append((sig + ":status", f"call {k} read_status returned {short(res)}, the device sent {dev['error_status']:#x}"))
        if res[0] == 0 and res[1] not in (("l", []), ("i", 0)) and op in (1, 2, 6, 7, 8, 9, 10) and r[2][0] != (2 if dev["locked"] else 0):
            out.append((sig + ":hab", f"call {k} sdp.{name}: status_code {r[2][0]} with HAB {'locked' if dev['locked'] else 'unlocked'}"))
    if not out and bytes(mem).hex() != ir["dev"]["mem"]:
        out.append((f"sdp-live:{tr}:memory", "device memory after the session differs from what the successful writes say"))
    sent = [bytes.fromhex(e[1]) for e in ir["dev"]["log"] if e[0] == "data_out"]
    want = [bytes.fromhex(c[2]) for c, r in zip(case["calls"], ir["results"]) if c[0] in (3, 4, 5)]
    if not out and sent != want[:len(sent)]:
        out.append((f"sdp-live:{tr}:data-lost", "the data the device received differs from the data written"))
    return out


def sdp_oracle_fault(case, ir, fclass, what):
    c = case["calls"][0]
    op, ints, data = c[0], c[1], bytes.fromhex(c[2])
    name, tr = SDPN[op], case["transport"]
    r = ir["results"][0]
    res = sdp_res(r)
    sig = f"sdp-fault:{tr}:{name}:ce{case['cmd_exception']}:{fclass}"
    if res[0] == 99:
        return [(sig + ":hang", f"sdp.{name} did not return under [{what}]")]
    if res[0] in (6, 15):
        return [(sig + f":crash:{r[1]}", f"sdp.{name} raised {r[1]} (outside the SDP exception family) under [{what}]")]
    if res[0] != 0 or res[1] in (("l", []), ("i", 0)):
        return []
    # words / data the host consumed
    if tr == "serial":
        st = bytes.fromhex(case["stream"])
        consumed = st[:len(st) - ir["left"]]
        words = [consumed[0:4], consumed[4:8]]
        carried = consumed[4:]
    else:
        reps = [bytes.fromhex(x) for x in case["reports"]]
        reps = reps[:len(reps) - ir["left"]]
        words = [x[1:5] for x in reps][:2]
        carried = b"".join(x[1:] for x in reps[1:] if x[:1] != b"\x03")
    out = []
    if op in (1, 9):
        ln = ints[1]
        if res[1] != ("b", carried[:ln]) or len(res[1][1]) != ln:
            out.append((sig + ":partial-or-wrong-data", f"sdp.{name} returned {len(res[1][1])} of {ln} bytes {res[1][1][:16].hex()}; consumed input "
                                                        f"carries {carried[:ln][:16].hex()} ({len(carried)} B) [{what}]"))
    elif op in SDP_OKWORD and op != 8:
        if len(words) < 2 or len(words[1]) < 4 or struct.unpack(">I", words[1])[0] != SDP_OKWORD[op]:
            out.append((sig + ":success-without-ok", f"sdp.{name} returned True, the status word consumed is {words[1].hex() if len(words) > 1 else None} [{what}]"))
    return out


def sdp_faults(tr, units, tier, rng):
    """units: serial byte stream or list of reports -> (class, what, faulted)"""
    out = []
    if tr == "serial":
        n = len(units)
        for p in range(n):
            out.append(("truncated", f"stream truncated at {p}", units[:p]))
            out.append(("byte-dropped", f"byte {p} dropped", units[:p] + units[p + 1:]))
            if p < 8 or tier == "thorough":
                s = bytearray(units)
                s[p] ^= 1 << rng.randrange(8)
                out.append(("bitflip", f"bit of byte {p} flipped", bytes(s)))
        for w in (0, 0x12345678, ref.SDP_LOCKED):
            for o in (0, 4):
                if o + 4 <= n:
                    out.append(("status-replaced", f"word at {o} replaced by {w:#x}", units[:o] + struct.pack(">I", w) + units[o + 4:]))
    else:
        for k, r in enumerate(units):
            out.append(("report-missing", f"report {k} missing", units[:k] + units[k + 1:]))
            out.append(("report-duplicated", f"report {k} duplicated", units[:k + 1] + units[k:]))
            for p in sorted({1, 2, 3, 4, len(r) - 1} & set(range(1, len(r)))):
                out.append(("report-truncated", f"report {k} truncated to {p} bytes", units[:k] + [r[:p]] + units[k + 1:]))
            out.append(("report-id", f"report {k} with id {r[0] ^ 7}", units[:k] + [bytes([r[0] ^ 7]) + r[1:]] + units[k + 1:]))
            if len(r) == 5:
                for w in (0, 0x12345678, ref.SDP_LOCKED):
                    out.append(("status-replaced", f"report {k}: word replaced by {w:#x}", units[:k] + [r[:1] + struct.pack(">I", w)] + units[k + 1:]))
        out.append(("report-missing", "all reports missing", []))
    return out


SDP_FAULT_CALLS = [("read 70 B", [1, [0x1004, 70, 32], ""]), ("write register", [2, [0x1000, 0xAABBCCDD, 4, 32], ""]),
                   ("write_file 9 B", [3, [0x1010], "0102030405060708ff"]), ("write_dcd", [4, [0x1020], "aa55aa55"]),
                   ("skip_dcd", [6, [], ""]), ("read_status", [8, [], ""]), ("jump", [7, [0x1000], ""])]


def sdp_canon_impl(r):
    if r[0] == "ok":
        return (0, vlib.vj(r[1])) + tuple(r[2])
    if r[0] == "hang":
        return (99, ("i", 0)) + tuple(r[1])
    k = {"SdpConnectionError": 2, "SdpCommandError": 4, "SdpError": 5, "error": 10, "AssertionError": 11, "ValueError": 12,
         "IndexError": 13}.get(r[1], 6 if r[3] else 15)
    return (k, ("i", r[2] if k == 4 else 0)) + tuple(r[4])


def sdp_model_expr(case):
    calls = VL([call_lit(c) for c in case["calls"]])
    if case["transport"] == "serial":
        args, fn = [VI(case["cmd_exception"]), VB(bytes.fromhex(case["stream"])), calls], 20
    else:
        args, fn = [VI(case["cmd_exception"]), VL([VB(bytes.fromhex(r)) for r in case["reports"]]), calls], 21
    return f"sdp_run_case {fn} [{'; '.join(vlib.coq_lit(a) for a in args)}]"


def sdp_compare(case, ir, mv):
    m = mv[1]
    mres = [(x[1][0][1], x[1][1], x[1][2][1], x[1][3][1], x[1][4][1]) for x in m[0][1]]
    ires = [sdp_canon_impl(r) for r in ir["results"]]
    if mres != ires:
        k = next((i for i, (a, b) in enumerate(zip(ires, mres)) if a != b), min(len(ires), len(mres)))
        return f"call {k} sdp.{SDPN.get(case['calls'][min(k, len(case['calls']) - 1)][0])}: impl {ires[k] if k < len(ires) else None} model {mres[k] if k < len(mres) else None}"
    if [x[1] for x in m[1][1]] != [bytes.fromhex(w) for w in ir["writes"]]:
        return "host writes differ"
    if m[2][1] != ir["left"]:
        return f"unread input: impl {ir['left']} model {m[2][1]}"
    return None


def sdp_stream(rep, tier, rng, model_ok=True):
    """SDP / i.MX ROM: live sessions against the reference SDP device and single faults on short traces, judged by spec
    oracles; every scripted case (replays of the live streams + the faulted streams) is also run through the Coq model
    Model/SdpModel.v and compared exactly."""
    live = sdp_gen_live(tier, rng)
    lr = vlib.run_impl("c10_impl.py", {"sdp_cases": live}, timeout=3000)["sdp_cases"]
    replays = []
    for c, ir in zip(live, lr):
        if all(x[0] <= 8 for x in c["calls"]):
            sc = {"transport": c["transport"], "cmd_exception": c["cmd_exception"], "mode": "script", "calls": c["calls"], "time_limit": 5}
            if c["transport"] == "serial":
                sc["stream"] = "".join(ir["reads"])
            else:
                sc["reports"] = ir["reads"]
            replays.append(sc)
    for c, ir in zip(live, lr):
        for sig, msg in sdp_oracle_live(c, ir):
            rep.failing(sig, msg, {"kind": "sdp-live", "case": c, "impl": ir["results"]})
    rep.add_stream("SDP live call sequences", len(live),
                   len({(c["transport"], c["cmd_exception"], repr(c["calls"]), repr(ir["results"])) for c, ir in zip(live, lr)}),
                   samples=[{"transport": c["transport"], "calls": c["calls"]} for c in live[:2]])
    fcases, fwhat = [], []
    dev = {"base": 0x1000, "mem": bytes(range(200)).hex(), "fail": {}}
    for name, call in SDP_FAULT_CALLS:
        base = {"cmd_exception": 0, "mode": "live", "dev": dev, "calls": [call], "pad": 0}
        r = vlib.run_impl("c10_impl.py", {"sdp_cases": [dict(base, transport="serial"), dict(base, transport="hid")]})["sdp_cases"]
        stream = b"".join(bytes.fromhex(x) for x in r[0]["reads"])
        reports = [bytes.fromhex(x) for x in r[1]["reads"]]
        sf, hf = sdp_faults("serial", stream, tier, rng), sdp_faults("hid", reports, tier, rng)
        for ce in (0, 1):
            sc = {"cmd_exception": ce, "mode": "script", "calls": [call], "time_limit": 5}
            for fc, what, s_ in [("none", "no fault", stream)] + sf:
                fcases.append(dict(sc, transport="serial", stream=s_.hex()))
                fwhat.append((fc, f"{name}: {what}"))
            for fc, what, rs in [("none", "no fault", reports)] + hf:
                fcases.append(dict(sc, transport="hid", reports=[x.hex() for x in rs]))
                fwhat.append((fc, f"{name}: {what}"))
    fr = vlib.run_impl("c10_impl.py", {"sdp_cases": fcases}, timeout=3000)["sdp_cases"]
    # correspondence with the Coq model on every scripted case
    if model_ok:
        sc_cases = replays + fcases
        sc_res = vlib.run_impl("c10_impl.py", {"sdp_cases": replays}, timeout=3000)["sdp_cases"] + fr
        try:
            t1 = time.time()
            mvs = vlib.run_model_cases("c10s", "Value MbootModel SdpModel", [sdp_model_expr(c) for c in sc_cases], shard=120, timeout=1500, jobs=8)
            vlib.log(f"  [c10s] {len(sc_cases)} SDP cases: model {time.time() - t1:.1f} s")
            nd = 0
            for c, ir, mv in zip(sc_cases, sc_res, mvs):
                d = sdp_compare(c, ir, mv)
                if d:
                    nd += 1
                    if nd <= 5:
                        vlib.log(f"  disagreement [sdp] {c['transport']} ce={c['cmd_exception']} {[(x[0], x[1]) for x in c['calls']]}: {d}")
            rep.obligation(f"correspondence:sdp: model = implementation on {len(sc_cases)} scripted cases", nd == 0, f"{nd} disagreements")
        except Exception as ex:  # noqa
            rep.obligation("correspondence:sdp:model evaluation", False, repr(ex))
    kinds = {}
    for c, ir, w in zip(fcases, fr, fwhat):
        k0 = sdp_res(ir["results"][0])[0]
        kinds[k0] = kinds.get(k0, 0) + 1
        for sig, msg in sdp_oracle_fault(c, ir, w[0], w[1]):
            rep.failing(sig, msg, {"kind": "sdp-fault", "fault": w[1], "case": c, "impl": ir["results"]})
    rep.add_stream("SDP single faults on short traces", len(fcases),
                   len({(c["transport"], c.get("stream", repr(c.get("reports"))), c["cmd_exception"]) for c in fcases}),
                   samples=[{"fault": w[1], "transport": c["transport"]} for c, w in list(zip(fcases, fwhat))[1:3]],
                   extra={"outcome_kinds": {str(k): v for k, v in sorted(kinds.items())}})


def gen_faults(tier, rng):
    """fault-free traces of short single calls (both transports), then one fault at every position of each trace"""
    fcases, fwhat = [], []
    for name, mkcall in (FAULT_CALLS if tier == "thorough" else [fc_ for fc_ in FAULT_CALLS if fc_[0] not in ("receive sb", "read once")]):
        for mps in ([8] if tier == "quick" else [8, 32]):
            dev = mk_dev(rng, mps, 64)
            dev["fuses"] = {"3": 0x0F0F, "4": 0x1234}
            dev["keystore"] = "0102030405060708090a0b"
            base = {"cmd_exception": 0, "mode": "live", "dev": dev, "calls": [mkcall(dev)], "mps_cache": mps}
            r = vlib.run_impl("c10_impl.py", {"cases": [dict(base, transport="serial"), dict(base, transport="hid")]})["cases"]
            stream = b"".join(bytes.fromhex(x) for x in r[0]["reads"])
            items = ref.parse_stream(stream)
            reports = [bytes.fromhex(x) for x in r[1]["reads"]]
            sfaults = serial_faults(stream, items, tier, rng)
            hfaults = hid_faults(reports, tier, rng)
            for ce in (0, 1):
                sc = {"cmd_exception": ce, "mode": "script", "calls": base["calls"], "mps_cache": mps, "time_limit": 5}
                fcases.append(dict(sc, transport="serial", stream=stream.hex()))
                fwhat.append(("none", f"{name}: no fault"))
                for fc, what, s in sfaults:
                    fcases.append(dict(sc, transport="serial", stream=s.hex()))
                    fwhat.append((fc, f"{name}: {what}"))
                fcases.append(dict(sc, transport="hid", reports=[x.hex() for x in reports]))
                fwhat.append(("none", f"{name}: no fault"))
                for fc, what, rs in hfaults:
                    fcases.append(dict(sc, transport="hid", reports=[x.hex() for x in rs]))
                    fwhat.append((fc, f"{name}: {what}"))
    return fcases, fwhat


# ------------------------------------------------------------------ the check
def run(tier):
    rep = vlib.Report(PID, tier)
    rng = vlib.Rng(vlib.seed())
    os.makedirs(os.path.join(vlib.WORK, PID), exist_ok=True)
    try:
        regen_c10.regen()
        rep.obligation("translate:spsdk/mboot/*.py+spsdk/sdp/*.py->Gen/GenMboot.v", True)
    except Exception as ex:  # noqa
        rep.obligation("translate:spsdk/mboot/*.py+spsdk/sdp/*.py->Gen/GenMboot.v", False, repr(ex))
    t0 = time.time()
    model_ok, mout = vlib.coq_make(["Model/MbootModel.vo"])
    if THEOREMS:
        vlib.check_theorems(rep, PID, THEOREMS, ["Proofs/MbootProofs.vo", "Proofs/SdpProofs.vo", "Proofs/MbootSpecProofs.vo"])
        if tier == "thorough":
            vlib.coqchk(rep, PID, THEOREMS)        # independent re-check of the compiled theorem closure
    vlib.audit(rep)
    vlib.log(f"  [proofs] build + {len(THEOREMS)} property theorems + audit: {time.time() - t0:.1f} s")

    def both(tag, cases, shard=250):
        """run implementation and model on the cases; returns (impl results, model values or None)"""
        t0 = time.time()
        pub = [{k: v for k, v in c.items() if not k.startswith("_")} for c in cases]
        ir = []
        for i in range(0, len(pub), 4000):
            ir += vlib.run_impl("c10_impl.py", {"cases": pub[i:i + 4000]}, timeout=3000)["cases"]
        mv = None
        t1 = time.time()
        if model_ok:
            try:
                mv = vlib.run_model_cases(tag, "Value MbootModel", [model_expr(c) for c in cases], shard=shard, timeout=1500, jobs=8)
            except Exception as ex:  # noqa
                rep.obligation(f"correspondence:{tag}:model evaluation", False, repr(ex))
        vlib.log(f"  [{tag}] {len(cases)} cases: implementation {t1 - t0:.1f} s, model {time.time() - t1:.1f} s")
        return ir, mv

    def correspond(name, cases, irs, mvs, describe):
        """model = implementation on every case, exactly"""
        nd = 0
        if mvs is None:
            return
        for c, ir, mv in zip(cases, irs, mvs):
            d = compare(c, ir, mv)
            if d:
                nd += 1
                if nd <= 5:
                    vlib.log(f"  disagreement [{name}] {describe(c)}: {d[0]}")
        rep.obligation(f"correspondence:{name}: model = implementation on {len(cases)} cases", nd == 0, f"{nd} disagreements")

    # ---- codec units
    ucases = []
    for _ in range(150 if tier == "quick" else 1500):
        d = bytes(rng.getrandbits(8) for _ in range(rng.choice([0, 1, 2, 5, 12, 32, 100])))
        ucases.append([10, d.hex()])
        ucases.append([11, rng.choice([0xA4, 0xA5]), d.hex()])
        ucases.append([12, rng.choice([1, 2]), d.hex()])
    for _ in range(400 if tier == "quick" else 4000):
        n = rng.choice([0, 1, 2, 3])
        tag = rng.choice([0xA0, 0xA3, 0xA7, 0xAF, 0xB0, 0xB3, 0xB5, 0xB6, 0x00, 0xA1])
        body = bytes([tag, 0, 0, rng.choice([n, n, n, 0, 1, 5])]) + b"".join(struct.pack("<I", rng.choice([0, 1, 4, 8, rng.getrandbits(32)])) for _ in range(n))
        body = body[:rng.choice([len(body)] * 4 + [rng.randrange(len(body) + 1)])] + bytes(rng.choice([0, 0, 0, 1, 4]))
        ucases.append([13, body.hex()])
    ur = vlib.run_impl("c10_impl.py", {"units": ucases})["units"]
    if model_ok:
        try:
            um = vlib.run_model_cases("c10u", "Value MbootModel",
                                      [f"run_case {u[0]} [{'; '.join([vlib.coq_lit(VI(x)) for x in u[1:-1]] + [vlib.coq_lit(VB(bytes.fromhex(u[-1])))])}]"
                                       for u in ucases], shard=700, jobs=8)
            nd = 0
            for u, a, b in zip(ucases, ur, um):
                if a[0] == "exc":
                    k = EXC_KIND.get(a[1], 6 if a[3] else 15)
                    same = b == ("l", [("i", k), ("i", 0)])
                else:
                    same = vlib.vj(a) == b
                if not same:
                    nd += 1
                    if nd <= 5:
                        vlib.log(f"  disagreement [codec] {u}: impl {a} model {b}")
            rep.obligation(f"correspondence:codec units (crc16, frame, report, parse_cmd_response) on {len(ucases)} cases", nd == 0, f"{nd}")
        except Exception as ex:  # noqa
            rep.obligation("correspondence:codec:model evaluation", False, repr(ex))
    # oracle: CRC against the independent bit-serial implementation, frames against the spec encoder
    for u, a in zip(ucases, ur):
        d = bytes.fromhex(u[-1])
        if u[0] == 10 and a != ["i", ref.crc16_xmodem(d)]:
            rep.failing("codec:crc16", f"_calc_crc({d.hex()}) = {a}, CRC-16/XMODEM is {ref.crc16_xmodem(d)}", {"kind": "unit", "unit": u})
        if u[0] == 11 and a != ["b", ref.frame(u[1], d).hex()]:
            rep.failing("codec:frame", f"_create_frame({d.hex()}, {u[1]:#x}) = {a}", {"kind": "unit", "unit": u})
        if u[0] == 12 and a != ["b", ref.report(u[1], d).hex()]:
            rep.failing("codec:report", f"bulk _create_frame({d.hex()}, {u[1]}) = {a}", {"kind": "unit", "unit": u})
    rep.add_stream("codec units", len(ucases), len({tuple(u) for u in ucases}), samples=ucases[:3])

    # ---- live sequences
    live = gen_live(tier, rng)
    lir, lmv = both("c10l", live, shard=6)
    correspond("live sequences", live, lir, lmv, lambda c: f"{c['transport']} ce={c['cmd_exception']} calls={[(x[0], x[1], len(x[2]) // 2) for x in c['calls']]}")
    nl = 0
    for c, ir in zip(live, lir):
        for sig, msg in oracle_live(dict(c), ir):
            nl += 1
            rep.failing(sig, msg, {"kind": "live", "case": {k: v for k, v in c.items() if not k.startswith("_")}, "impl": ir["results"]})
    rep.add_stream("live call sequences against the reference bootloader", len(live),
                   len({(c["transport"], c["cmd_exception"], repr(c["calls"]), repr(ir["results"])) for c, ir in zip(live, lir)}),
                   samples=[{"transport": c["transport"], "cmd_exception": c["cmd_exception"], "calls": c["calls"]} for c in live[:2]],
                   extra={"api_calls": sum(len(c["calls"]) for c in live)})

    # ---- fault injection on short single-call traces
    fcases, fwhat = gen_faults(tier, rng)
    fir, fmv = both("c10f", fcases)
    wmap = {id(c): w[1] for c, w in zip(fcases, fwhat)}
    correspond("fault injection at every stream position", fcases, fir, fmv,
               lambda c: f"{c['transport']} ce={c['cmd_exception']} {wmap[id(c)]}")
    kinds = {}
    for c, ir, w in zip(fcases, fir, fwhat):
        r0 = canon_impl(ir["results"][0])
        kinds[r0[0]] = kinds.get(r0[0], 0) + 1
        for sig, msg in oracle_fault(c, obs_impl(ir), w[0], w[1]):
            rep.failing(sig, msg, {"kind": "fault", "fault": w[1], "case": c, "impl": ir["results"]})
    rep.add_stream("single fault at every position of the device->host stream", len(fcases),
                   len({(c["transport"], c.get("stream", repr(c.get("reports"))), c["cmd_exception"]) for c in fcases}),
                   samples=[{"fault": w[1], "transport": c["transport"], "stream": c.get("stream", c.get("reports"))} for c, w in list(zip(fcases, fwhat))[1:3]],
                   exhaustive=(tier == "thorough"), extra={"outcome_kinds": {str(k): v for k, v in sorted(kinds.items())}})

    try:
        sdp_ok, _o = vlib.coq_make(["Model/SdpModel.vo"])
        if not sdp_ok:
            rep.obligation("correspondence:sdp: model builds", False, _o)
        sdp_stream(rep, tier, rng, sdp_ok)
    except Exception as ex:  # noqa
        rep.obligation("sdp:oracle stream runs", False, repr(ex))

    try:
        import c10_sdps
        c10_sdps.run(rep, tier, rng)
    except Exception as ex:  # noqa
        rep.obligation("sdps:stream runs", False, repr(ex))

    return rep.finish(
        rule="live: seeded call sequences (1..8 calls, lengths at packet-size boundaries, both transports, both cmd_exception settings) "
             "against the reference bootloader; faults: for each short single-call trace every byte position x fault kind (bit flip, byte "
             "replaced, byte dropped, truncation, NAK / ABORT inserted, item missing / duplicated, error status, zero-length frame; HID: "
             "report missing / duplicated / truncated, abort report, error status); distinct_nontrivial counts distinct (transport, input, "
             "setting) triples",
        trusted_base=["Coq 8.16.1 kernel + vm_compute", "tools/regen_c10.py (ast extraction of tables and command packets)",
                      "hand models Model/MbootModel.v and Model/SdpModel.v tied by correspondence on every observable",
                      "DeviceBase stubs (pyserial read semantics, immediate time-out) stand for the UART / USB drivers",
                      "reference bootloader tools/impl/c10_refdev.py = Coq dev_command/sdev_recv/hdev_recv (compared state by state)"],
        checker_cmd="coqc -R . V Props/C10/*.v (after make Proofs/MbootProofs.vo Proofs/SdpProofs.vo Proofs/MbootSpecProofs.vo; thorough: coqchk -o over the closure)",
        assumptions=["wall-clock time-outs are not modelled: an exhausted device stream raises the time-out at once",
                     "USB-HID has no integrity check at this layer: payload corruption on HID is outside the fault model",
                     "arguments are non-negative integers"])


if __name__ == "__main__":
    sys.exit(run(sys.argv[1] if len(sys.argv) > 1 else "quick"))
