"""C20 -- number parsing, alignment, byte-order helpers (DESIGN.md section 3, C20)."""
import itertools
import os
import sys

sys.path.insert(0, os.path.dirname(os.path.dirname(os.path.abspath(__file__))))
import vlib
from vlib import VI, VB, VS, VE
from translate.pyfun import Untranslatable
import regen_c20
import c20_ext

PID = "C20"
THEOREMS = ["align_least", "align_rejects", "check_range_truthful", "swap16_involution", "swap32_involution",
            "bytes_cnt_width", "bytes_cnt_negative_rejected", "bytes_cnt_explicit", "value_to_bytes_roundtrip",
            "int_to_bytes_roundtrip", "align_block_only_appends", "extend_block_only_appends",
            "reverse_bytes_in_longs_involution", "change_endianness_involution", "swap_bytes_involution",
            ] + c20_ext.NEW_THEOREMS
ALPHABET = "0123456789abfxoul_+-. g"
FN = {1: "align", 2: "check_range", 3: "swap16", 4: "get_bytes_cnt_of_int", 5: "value_to_int", 6: "value_to_bytes(int)",
      7: "value_to_bytes(str)", 8: "align_block", 9: "extend_block", 10: "swap32", 11: "reverse_bytes_in_longs",
      12: "change_endianness", 13: "swap_bytes", 14: "reverse_bits", 15: "BcdVersion3.from_str/__str__",
      16: "BinaryPattern.get_block", 17: "BcdVersion3(major, minor, service)", 18: "BcdVersion3.to_version",
      19: "SecBootBlckSize.is_aligned", 20: "SecBootBlckSize.align", 21: "SecBootBlckSize.to_num_blocks",
      22: "SecBootBlckSize.align_block_fill_zeros"}


# ------------------------------------------------------------------ independent spec oracles
def grammar_value(s):
    """The documented grammar, written without `re`/`int(x, base)`: returns the value or None."""
    s = s.strip(" \t\n\r\x0b\x0c\x1c\x1d\x1e\x1f")
    s = "".join(chr(ord(c) + 32) if "A" <= c <= "Z" else c for c in s)
    base = 10
    if len(s) >= 2 and s[0] == "0" and s[1] in "box":
        base = {"b": 2, "o": 8, "x": 16}[s[1]]
        body = s[2:]
    else:
        body = s
    # strip suffix (at most 3 of u/l)
    k = 0
    while k < 3 and body and body[-1] in "ul":
        body = body[:-1]
        k += 1
    if not body:
        return None
    digs = "0123456789abcdef"[:base]
    val, prev_digit = 0, False
    for c in body:
        if c == "_":
            if not prev_digit:
                return None
            prev_digit = False
        elif c in digs:
            val = val * base + digs.index(c)
            prev_digit = True
        else:
            return None
    return val if prev_digit else None


def minimal_bytes(v):
    n = 1
    while v >= 1 << (8 * n):
        n += 1
    return n


def oracle(case, res):
    """Return None when the implementation's answer satisfies the property, else (signature, message)."""
    fn, a = case[0], [x[1] for x in case[1:]]
    kind = res[0]
    ok = kind != "e"
    val = res[1]
    crash = (kind == "e" and val != 1)
    name = FN[fn]
    if crash:
        # invalid input must be rejected with an SPSDK error (never a bare exception or a hang)
        if fn == 14 and (a[0] < 0 or a[1] < 0):
            return None        # reverse_bits has no documented domain check; negative input is out of contract
        if fn in (9,) and not (0 <= a[2] <= 255):
            return None        # padding byte out of 0..255: documented as "8-bit value"
        if fn in (6, 7, 8, 16) and False:
            return None
        return (f"{name}:crash-kind{val}", f"{name}{tuple(a)!r} -> {'hang' if val == 3 else 'non-SPSDK exception ' + str(res[2:] )}")
    if fn == 1:
        n, al = a
        if al <= 0 or n < 0:
            return None if not ok else (f"{name}:accepts-invalid", f"align({n},{al}) = {val}")
        if not ok:
            return (f"{name}:rejects-valid", f"align({n},{al}) rejected")
        if not (val >= n and val % al == 0 and val < n + al):
            return (f"{name}:wrong", f"align({n},{al}) = {val}")
    elif fn == 2:
        x, lo, hi = a
        if not ok or bool(val) != (lo <= x <= hi):
            return (f"{name}:untruthful", f"check_range({x},{lo},{hi}) = {val}")
    elif fn == 5:
        want = grammar_value(a[0]) if all(ord(c) < 128 for c in a[0]) else None
        got = val if ok else None
        if want != got:
            # known finding C20-F1 is keyed on the OUTCOME: the accepted value is int(rest, 2) of the doubled-prefix text
            f1 = c20_ext.f1_value(a[0], grammar_value)
            sig = "dup-binary-prefix" if (want is None and f1 is not None and got == f1) else "grammar"
            return (f"{name}:{sig}", f"value_to_int({a[0]!r}) = {got}, documented grammar gives {want}")
    elif fn == 6:
        v, a2n, bc, big = a
        if v < 0:
            return None if not ok else (f"{name}:accepts-negative", f"value_to_bytes({v}) = {val!r}")
        if ok:
            if int.from_bytes(val, "big" if big else "little") != v:
                return (f"{name}:roundtrip", f"value_to_bytes({v},{a2n},{bc}) = {val.hex()}")
            m = minimal_bytes(v)
            want = (bc if bc > 0 else ((m + 3) // 4 * 4 if (a2n and m > 2) else m))
            if len(val) != want:
                return (f"{name}:width", f"value_to_bytes({v},{a2n},{bc}) has {len(val)} bytes, documented {want}")
        else:
            m = minimal_bytes(v)
            w = (m + 3) // 4 * 4 if (a2n and m > 2) else m
            if not (bc > 0 and v != 0 and w > bc):
                return (f"{name}:rejects-valid", f"value_to_bytes({v},{a2n},{bc}) rejected")
    elif fn == 3 or fn == 10:
        lim = 0xFFFF if fn == 3 else 0xFFFFFFFF
        x = a[0]
        if not 0 <= x <= lim:
            return None if not ok else (f"{name}:accepts-invalid", f"{name}({x}) = {val}")
        w = 2 if fn == 3 else 4
        if not ok or val != int.from_bytes(x.to_bytes(w, "big"), "little"):
            return (f"{name}:wrong", f"{name}({x}) = {val}")
    elif fn == 8:
        d, al, ptag, pv = a
        if al <= 0:
            return None if not ok else (f"{name}:accepts-invalid", f"align_block(len {len(d)}, {al})")
        if not ok:
            return (f"{name}:rejects-valid", f"align_block(len {len(d)}, {al}, {ptag}, {pv}) rejected")
        if not (val[:len(d)] == d and len(val) % al == 0 and len(val) < len(d) + al):
            return (f"{name}:not-append-only", f"align_block({d.hex()}, {al}) = {val.hex()}")
        pad = val[len(d):]
        if ptag == 0 and any(pad) or ptag == 1 and any(b != 0xFF for b in pad):
            return (f"{name}:pad-pattern", f"align_block({d.hex()}, {al}, tag {ptag}) = {val.hex()}")
    elif fn == 9:
        d, ln, pad = a
        if ln < len(d):
            return None if not ok else (f"{name}:accepts-invalid", f"extend_block(len {len(d)}, {ln})")
        if ok and not (val[:len(d)] == d and len(val) == ln and all(b == pad for b in val[len(d):])):
            return (f"{name}:wrong", f"extend_block({d.hex()},{ln},{pad}) = {val.hex()}")
    elif fn == 11:
        d = a[0]
        if len(d) % 4:
            return None if not ok else (f"{name}:accepts-invalid", f"len {len(d)}")
        want = b"".join(d[i:i + 4][::-1] for i in range(0, len(d), 4))
        if not ok or val != want:
            return (f"{name}:wrong", f"{d.hex()} -> {val}")
    elif fn == 13:
        d = a[0]
        if len(d) % 2:
            return None if not ok else (f"{name}:accepts-invalid", f"len {len(d)}")
        want = bytes(d[i ^ 1] for i in range(len(d)))
        if not ok or val != want:
            return (f"{name}:wrong", f"{d.hex()} -> {val}")
    elif fn == 14:
        x, bits = a
        if ok and 0 <= x < (1 << bits):
            want = int(format(x, f"0{bits}b")[::-1], 2) if bits else 0
            if val != want:
                return (f"{name}:wrong", f"reverse_bits({x},{bits}) = {val}")
    return None


def full_oracle(case, res):
    """Extension oracles first (c20_ext: value_to_bytes(str), BcdVersion3, get_block, pattern padding, reverse_bits
    outside the bit range); the base oracle is consulted unless the extension subsumes the function's contract."""
    handled, verdict = c20_ext.ext_oracle(case, res, grammar_value)
    if verdict:
        return verdict
    return None if handled else oracle(case, res)


# ------------------------------------------------------------------ case generation
def gen_cases(tier, rng):
    cases = {}
    thorough = tier == "thorough"
    L = 4 if thorough else 3
    strs = [""]
    for k in range(1, L + 1):
        strs += ["".join(t) for t in itertools.product(ALPHABET, repeat=k)]
    cases["value_to_int exhaustive strings"] = ([[5, VS(s)] for s in strs], True)
    # long / structured number strings
    long = []
    for _ in range(3000 if thorough else 600):
        base, pfx = rng.choice([(10, ""), (16, "0x"), (2, "0b"), (8, "0o"), (16, "0X"), (2, "0B"), (10, "0"), (2, "0b0b")])
        nd = rng.choice([1, 2, 3, 8, 17, 40, 128])
        digs = "0123456789abcdef"[:base]
        body = "".join(rng.choice(digs + ("_" if rng.random() < 0.3 else "")) for _ in range(nd))
        if rng.random() < 0.15:
            body = body.upper()
        suf = "".join(rng.choice("ulUL") for _ in range(rng.choice([0, 0, 1, 2, 3, 4])))
        ws = rng.choice(["", " ", "\t", "\n", "  ", "\x1f"])
        junk = rng.choice(["", "", "", "g", "-", ".", " 1"])
        long.append(ws + pfx + body + junk + suf + rng.choice(["", " ", "\n"]))
    cases["value_to_int structured long strings"] = ([[5, VS(s)] for s in long], False)
    R = (range(-3, 301), range(-2, 71)) if thorough else (range(-3, 70), range(-2, 20))
    cases["align all (n, a) in a box"] = ([[1, VI(n), VI(a)] for n in R[0] for a in R[1]], True)
    big = sorted(set([(1 << k) + d for k in (31, 32, 52, 53, 54, 63, 64, 65, 127, 128, 255, 256, 511, 512) for d in (-1, 0, 1, 2)]
                     + [rng.getrandbits(rng.choice([54, 60, 64, 96, 128, 256, 512])) for _ in range(400 if thorough else 60)]))
    cases["align large values (up to 2^512)"] = ([[1, VI(n), VI(a)] for n in big for a in
                                                  (1, 2, 3, 16, 512, 1000, (1 << 20) + 1, 1 << 52, (1 << 60) + 7)], False)
    rr = range(-4, 14) if thorough else range(-3, 9)
    cases["check_range all (x, lo, hi) in a box"] = ([[2, VI(x), VI(lo), VI(hi)] for x in rr for lo in rr for hi in rr]
                                                    + [[2, VI(x), VI(0), VI((1 << b) - 1)] for b in (4, 8, 16, 32) for x in
                                                       (-1, 0, (1 << b) - 1, 1 << b, (1 << b) + 1)], True)
    ints = sorted(set([0, 1, 2, 255, 256, 65535, 65536, 70000, -1, -2, -256, -(1 << 64)]
                      + [(1 << k) + d for k in range(0, 513, 1 if thorough else 7) for d in (-1, 0, 1)]
                      + [rng.getrandbits(rng.choice([8, 16, 24, 32, 64, 100, 512])) for _ in range(300 if thorough else 60)]))
    cases["swap16/swap32 boundaries"] = ([[3, VI(x)] for x in ints if x < 1 << 20] + [[10, VI(x)] for x in ints if x < 1 << 40]
                                         + [[3, VI(x)] for x in range(0, 65536, 1 if thorough else 97)], False)
    bcs = [-1, 0, 1, 2, 3, 4, 5, 8, 12, 16, 64, 65]
    cases["get_bytes_cnt_of_int / value_to_bytes(int)"] = (
        [[4, VI(v), VI(a2n), VI(bc)] for v in ints for a2n in (0, 1) for bc in bcs if abs(v) < 1 << 200 or bc in (-1, 64, 65)]
        + [[6, VI(v), VI(a2n), VI(bc), VI(big)] for v in ints for a2n in (0, 1) for bc in (-1, 0, 4, 65) for big in (0, 1)], False)
    cases["value_to_bytes(str)"] = ([[7, VS(s), VI(a2n), VI(bc), VI(1)] for s in long[:200] + strs[:600:3] for a2n in (0, 1) for bc in (-1, 4)], False)
    sym = [0, 1, 0xFF]
    blobs = [bytes(t) for k in range(0, 7 if thorough else 5) for t in itertools.product(sym, repeat=k)]
    blobs += [bytes(rng.getrandbits(8) for _ in range(rng.randrange(0, 65))) for _ in range(400 if thorough else 80)]
    cases["byte-order helpers on byte strings"] = ([[f, VB(b)] for b in blobs for f in (11, 12, 13)], False)
    pats = [(0, 0), (1, 0), (2, 0), (3, 1), (3, 0x12), (3, 0x1234), (3, 0x010203), (3, 0xA1B2C3D4E5)]
    cases["align_block / extend_block / get_block"] = (
        [[8, VB(b), VI(al), VI(pt), VI(pv)] for b in blobs[::3] for al in (-1, 0, 1, 2, 4, 7, 16) for (pt, pv) in pats[::2]]
        + [[8, VB(b), VI(al), VI(pt), VI(pv)] for b in blobs[:40] for al in (4, 13) for (pt, pv) in pats]
        + [[9, VB(b), VI(ln), VI(pad)] for b in blobs[::3] for ln in (0, len(b) - 1, len(b), len(b) + 1, len(b) + 5) for pad in (0, 0xAB, 256, -1)]
        + [[16, VI(sz), VI(pt), VI(pv)] for sz in (0, 1, 2, 3, 5, 16, 255, 257, 300) for (pt, pv) in pats], False)
    cases["reverse_bits"] = ([[14, VI(x), VI(bits)] for bits in (0, 1, 2, 3, 8, 16, 32, 33) for x in
                              sorted(set([0, 1, 2, 3, 5, 6, 127, 128, 255, 256, (1 << bits) - 1, 1 << bits] +
                                         [rng.getrandbits(max(bits, 1)) for _ in range(20)]))], False)
    vers = ["1.2.3", "0x1.2.3", "1_0.2.3", " 1.2.3", "+1.2.3", "1.2", "12345.1.1", "a.1.1", "9999.9999.9999", "1..2", "",
            "..", "1.2.3.4", "-1.2.3", "0.0.0", "10.20.30", "999.999.999", "1.2.A", "1.2.0x", "1.2.0x_1", "1.2.1_", "1.2.__"]
    al2 = "019a.x_ +-"
    vers += ["".join(rng.choice(al2) for _ in range(rng.randrange(1, 9))) for _ in range(1500 if thorough else 300)]
    vers += [f"{rng.randrange(0, 10000)}.{rng.randrange(0, 10000)}.{rng.randrange(0, 10000)}" for _ in range(200)]
    cases["BcdVersion3.from_str -> str"] = ([[15, VS(s)] for s in vers], False)
    cases.update(c20_ext.ext_streams(tier, rng))
    return cases


def to_model_expr(case):
    fn = case[0]
    args = list(case[1:])
    # byte_cnt None (-1 on the wire) is 0 in the model
    if fn in (4,):
        args[2] = VI(0) if args[2][1] == -1 else args[2]
    if fn in (6, 7):
        args[2] = VI(0) if args[2][1] == -1 else args[2]
    return f"run_case_blk {fn} [{'; '.join(vlib.coq_lit(a) for a in args)}]"


def same(impl, model):
    if impl[0] == "e" or model[0] == "e":
        return impl[0] == model[0] and impl[1] == model[1]
    return impl == model


def run(tier):
    rep = vlib.Report(PID, tier)
    rng = vlib.Rng(vlib.seed())
    # (T1) regenerate the translated model from the current source
    try:
        regen_c20.regen()
        rep.obligation("translate:spsdk/utils/misc.py->Gen/GenMisc.v", True)
    except (Untranslatable, Exception) as ex:  # noqa
        rep.obligation("translate:spsdk/utils/misc.py->Gen/GenMisc.v", False, repr(ex))
    # (P) proofs
    model_ok, _ = vlib.coq_make(["Model/MiscModel.vo", "Model/MiscExtModel.vo", "Model/MiscBlkModel.vo"])
    vlib.check_theorems(rep, PID, THEOREMS, ["Proofs/MiscProofs.vo"] + c20_ext.NEW_DEPS)
    if tier == "thorough":
        vlib.coqchk(rep, PID, THEOREMS)
    vlib.audit(rep)
    # (T2) correspondence + property oracles on the implementation
    streams = gen_cases(tier, rng)
    flat, owner = [], []
    for name, (cs, exhaustive) in streams.items():
        for c in cs:
            flat.append(c)
            owner.append(name)
    impl = vlib.run_impl("c20_impl.py", {"cases": [[c[0]] + [vlib.jv(a) for a in c[1:]] for c in flat]}, timeout=3000)
    impl_res = []
    for r in impl["results"]:
        if r[0] == "e":
            impl_res.append(tuple(r))
        else:
            impl_res.append(vlib.vj(r))
    for c, r in zip(flat, impl_res):
        o = full_oracle(c, r)
        if o:
            rep.failing(o[0], "implementation violates the C20 contract: " + o[1],
                        {"kind": "impl-oracle", "function": FN[c[0]], "case": [c[0]] + [vlib.jv(a) for a in c[1:]],
                         "impl_result": vlib.jv(r) if r[0] != "e" else list(r)})
    ndis = 0
    if model_ok:
        try:
            model_res = vlib.run_model_cases("c20", "Value MiscModel MiscExtModel MiscBlkModel", [to_model_expr(c) for c in flat], shard=700)
            for c, ri, rm in zip(flat, impl_res, model_res):
                if not same(ri, rm):
                    ndis += 1
                    if ndis <= 5:
                        vlib.log(f"  disagreement {FN[c[0]]} {c[1:]}: impl {ri} model {rm}")
                    o = full_oracle(c, ri)
                    if not o:
                        rep.broken.append(f"correspondence:{FN[c[0]]}") if f"correspondence:{FN[c[0]]}" not in rep.broken else None
            rep.obligation("correspondence:model=implementation on all cases", ndis == 0,
                           f"{ndis} disagreements" if ndis else "")
        except Exception as ex:  # noqa
            rep.obligation("correspondence:model evaluation", False, repr(ex))
    else:
        rep.obligation("correspondence:model builds", False, "Model/MiscModel.vo did not build")
    # (S) the Coq grammar SPECIFICATION (doc_parse, proved equivalent to the inductive number_grammar) computes the same
    #     partial function as the Python oracle grammar on every exhaustive / structured string
    try:
        spec_strs = [c[1][1] for nm in ("value_to_int exhaustive strings", "value_to_int structured long strings")
                     for c in streams[nm][0] if all(ord(ch) < 128 for ch in c[1][1])]
        bad = c20_ext.spec_agreement(spec_strs, grammar_value)
        rep.obligation("spec-correspondence:Coq number_grammar (doc_parse) = Python oracle grammar", not bad,
                       f"{len(bad)} disagreements, first {bad[:3]!r}" if bad else "")
        rep.coverage["spec_grammar_strings"] = len(spec_strs)
    except Exception as ex:  # noqa
        rep.obligation("spec-correspondence:Coq number_grammar evaluation", False, repr(ex))
    # coverage accounting
    for name, (cs, exhaustive) in streams.items():
        idx = [i for i, o in enumerate(owner) if o == name]
        distinct = len({(repr(flat[i]), repr(impl_res[i])) for i in idx if impl_res[i][0] != "e"})
        nerr = sum(1 for i in idx if impl_res[i][0] == "e")
        rep.add_stream(name, len(idx), distinct, samples=[[flat[i][0]] + [vlib.jv(a) for a in flat[i][1:]] for i in idx[1:4]],
                       exhaustive=exhaustive, extra={"rejected_or_error": nerr})
    return rep.finish(
        rule="cases are enumerated exhaustively over small domains (streams marked exhaustive) or drawn from VERIF_SEED; "
             "distinct_nontrivial counts distinct (input, accepted result) pairs, i.e. inputs the implementation accepted",
        trusted_base=["Coq 8.16.1 kernel + vm_compute", "tools/translate/pyfun.py (Python ast -> Gallina)",
                      "hand model Model/MiscModel.v tied by correspondence", "CPython semantics of untranslated code"],
        checker_cmd="coqc -R . V Props/C20/*.v (after make Proofs/MiscProofs.vo)",
        assumptions=["strings restricted to ASCII code points", "decimal literals shorter than CPython's 4300-digit limit",
                     "int(ceil(a/b)) treated as exact ceiling division (operands < 2^53)"])


if __name__ == "__main__":
    sys.exit(run(sys.argv[1] if len(sys.argv) > 1 else "quick"))
