"""C02 -- Master Boot Image: signatures, CRC, HMAC and encryption pass the ROM checks (DESIGN.md section 3, C02).

(P)  Coq: Model/MbiRomModel.v (independent ROM model `rom_mbi` + the C01 export model instantiated with the real
     symmetric primitives), Proofs/MbiRomProofs.v, Props/C02/*.v.
(T1) Gen/GenMbi.v (class compositions, MRO resolution, IVT constants: regen_c01) and Gen/GenCrypto.v (key-store derivation
     constants, CRC table: regen_c09) are regenerated from the current source; the theorems are re-proved over them.
(T2) the real SPSDK (tools/impl/c02_impl.py, public API) exports images for every protected class with generated RSA / ECC
     key material; on the SAME bytes (a) the independent Python ROM (c02_rom.py) must accept and all asymmetric obligations
     are discharged by an independent oracle (spec oracles -> failing inputs), (b) the Coq ROM model is evaluated and compared
     with the Python ROM, (c) the Coq export model with the real primitives is compared with SPSDK's bytes and with the
     bytes handed to the signature provider, (d) single-bit corruptions must be rejected.
"""
import hashlib
import json
import os
import re
import shutil
import subprocess
import sys
import time
import glob

sys.path.insert(0, os.path.dirname(os.path.dirname(os.path.abspath(__file__))))
sys.path.insert(0, os.path.dirname(os.path.abspath(__file__)))
import vlib  # noqa: E402
from vlib import VI, VB, VL  # noqa: E402
import c02_keys  # noqa: E402
import c02_rom as rom  # noqa: E402

PID = "C02"
WORK = os.path.join(vlib.WORK, "C02")
RUN = os.path.join(WORK, "run")
KEYS = os.path.join(WORK, "keys")
THEOREMS = ["crc_bridge", "crc_ok", "sig_range_v1", "certblock_lengths_v1", "hmac_ok", "enc_roundtrip", "sig_range_v21",
            "manifest_digest", "digest_alg_refused", "coverage_mbi", "kinds_cover_database"]
# refutation witnesses of recorded findings (none open at present): expected to hold while the finding is open
REFUTED = {}
MIXIN_IDS = ["MixinApp", "MixinTrustZone", "MixinTrustZoneMandatory", "MixinLoadAddress", "MixinLoadAddressOptional",
             "MixinFwVersion", "MixinImageVersion", "MixinImageSubType", "MixinIvt", "MixinIvtZeroTotalLength",
             "MixinBcaTable", "MixinBcaObsolete", "MixinFcfObsolete", "MixinRelocTable", "MixinManifest", "MixinManifestCrc",
             "MixinManifestDigest", "MixinCertBlockV1", "MixinCertBlockV21", "MixinCertBlockVx", "MixinBca", "MixinFcf",
             "MixinHwKey", "MixinKeyStore", "MixinHmac", "MixinHmacMandatory", "MixinCtrInitVector", "ExportMixinApp",
             "ExportMixinAppTrustZone", "ExportMixinAppTrustZoneCertBlock", "ExportMixinAppCertBlockManifest",
             "ExportMixinCrcSign", "ExportMixinRsaSign", "ExportMixinEccSign", "ExportMixinHmacKeyStoreFinalize",
             "ExportMixinAppBcaFcf", "ExportMixinAppFcf", "ExportMixinCrcSignBca", "ExportMixinEccSignVx",
             "ExportMixinAppTrustZoneCertBlockEncrypt"]
DIGEST = {None: 0, "sha256": 1, "sha384": 2, "sha512": 3}
PAIRS = [(n, m) for n in range(1, 5) for m in range(n)]          # (number of root keys, signing root)


# ------------------------------------------------------------------ classes
def short(ms):
    return [m[len("Mbi_"):] for m in ms]


def kind_of(ms, image_type):
    s = set(short(ms))
    if image_type == 0:
        return "plain"
    if "ExportMixinCrcSignBca" in s:
        return "crc-bca"
    if "ExportMixinCrcSign" in s:
        return "crc"
    if "ExportMixinEccSignVx" in s:
        return "signed-vx"
    if "ExportMixinAppTrustZoneCertBlockEncrypt" in s:
        return "encrypted"
    if "MixinCertBlockV1" in s:
        return "signed-v1-hmac" if "ExportMixinHmacKeyStoreFinalize" in s else "signed-v1"
    if "MixinCertBlockV21" in s:
        return "signed-v21"
    return "other"


def rom_cfg(fam, ms, image_type=None, case=None):
    """the device the image is built for, from the CONFIGURATION of the case (never from SPSDK's object state)"""
    s = set(short(ms))
    return {"types": None if image_type is None else [image_type],
            "ks_configured": bool(case) and case.get("opts", {}).get("key_store") is not None,
            "cb": "v1" if "MixinCertBlockV1" in s else "v21" if "MixinCertBlockV21" in s else "vx" if "MixinCertBlockVx" in s else None,
            "hmac": bool(s & {"MixinHmac", "MixinHmacMandatory"}), "tzsize": fam["tz_size"],
            "fixed_type": fam["fixed_image_type"] if fam["fixed_image_type"] >= 0 else None,
            "manifest_crc": "MixinManifestCrc" in s, "bca": "MixinBcaTable" in s}


def model_supported(ms):
    return not (set(short(ms)) & {"MixinBcaTable", "MixinBcaObsolete", "MixinFcfObsolete", "MixinCertBlockVx", "MixinBca",
                                  "MixinFcf", "ExportMixinAppBcaFcf", "ExportMixinAppFcf", "ExportMixinCrcSignBca",
                                  "ExportMixinEccSignVx", "MixinManifest"})


# ------------------------------------------------------------------ case generation
def rnd(rng, n):
    return bytes(rng.getrandbits(8) for _ in range(n))


def gen_app(rng, n, bca=False):
    b = bytearray(rnd(rng, n))
    b[0:12] = bytes([0x00, 0x10, 0x00, 0x20, 0x41, 0x01, 0x00, 0x00, 0x55, 0x01, 0x00, 0x00])
    return bytes(b)


def base_opts(rng, fam, ms, variant):
    s = set(short(ms))
    o = {}
    if s & {"MixinLoadAddress", "MixinLoadAddressOptional"}:
        o["load_address"] = rng.choice([0, 0x1000, 0x20001000, 0x1C000000, 0xFFFFFFF0])
    if "MixinImageVersion" in s:
        o["image_version"] = rng.choice([0, 1, 0x7FFF, 0xFFFF])
    if "MixinFwVersion" in s or s & {"MixinManifestCrc", "MixinManifestDigest"}:
        o["firmware_version"] = rng.choice([0, 1, 0xFFFFFFFF, 0x12345678])
    if "MixinImageSubType" in s:
        o["subtype"] = rng.choice(["main", "nbu"])
    if s & {"MixinTrustZone", "MixinTrustZoneMandatory", "MixinManifestCrc", "MixinManifestDigest"}:
        if variant % 2 and fam["tz_size"]:
            o["tz"] = ["custom", rnd(rng, fam["tz_size"]).hex()]
        elif "MixinTrustZone" in s and variant % 4 == 2:
            o["tz"] = ["disabled"]
        else:
            o["tz"] = ["default"]
    if s & {"MixinHmac", "MixinHmacMandatory"}:
        o["hmac_key"] = rnd(rng, 32).hex()
    if "MixinKeyStore" in s and variant % 2:
        o["key_store"] = rnd(rng, 1424).hex()
    if "MixinCtrInitVector" in s:
        o["ctr_iv"] = rnd(rng, 16).hex()
    if "MixinHwKey" in s:
        o["hw_key"] = bool(variant % 2)
    if "MixinManifestDigest" in s:
        o["add_digest"] = bool(variant % 2)
    return o


def default_cert(idx, rng, fam, ms, variant):
    s = set(short(ms))
    if "MixinCertBlockV1" in s:
        n, m = PAIRS[variant % len(PAIRS)]
        return c02_keys.rsa_case(idx, 2048, n, m, 1 + variant % 4)
    if "MixinCertBlockV21" in s:
        n, m = PAIRS[variant % len(PAIRS)]
        curve = ["p256", "p384"][variant % 2]
        isk = [None, curve][(variant // 2) % 2]
        c = c02_keys.ecc_case(idx, curve, n, m, isk)
        if isk and variant % 3 == 0:
            al = max(fam.get("isk_data_alignment", 4), 1)
            c["isk_data"] = rnd(rng, al * rng.randrange(1, 5)).hex()
        return c
    if "MixinCertBlockVx" in s:
        e = idx["ecc"]["p256"]["isk"]
        return {"kind": "vx", "isk_pub": e["pub"], "root_key": e["key"], "key": e["key"], "self_signed": True}
    return None


def gen_cases(tier, rng, db, idx):
    """-> list of (stream, case, fam, offer)"""
    thorough = tier == "thorough"
    out = []
    comps = {}
    for f in db["families"]:
        for o in f["offers"]:
            if o["image_type"] == 0:
                continue
            comps.setdefault((tuple(o["mixins"]), o["image_type"]), []).append((f, o))

    def add(stream, f, o, n, opts=None, cert=None, variant=0, **extra):
        ms = o["mixins"]
        bca = bool(set(short(ms)) & {"MixinBcaTable"})
        case = {"family": f["family"], "target": o["target"], "auth": o["auth"],
                "app": gen_app(rng, max(n, 0xC00 + 64) if bca else n).hex(),
                "opts": base_opts(rng, f, ms, variant) if opts is None else opts,
                "cert": default_cert(idx, rng, f, ms, variant) if cert is None else cert}
        case.update(extra)
        if set(short(ms)) & {"ExportMixinEccSignVx"}:
            case["opts"]["add_cert_hash"] = bool(variant % 2)
        out.append((stream, case, f, o))

    # A: every protected class composition (thorough: every family x offer)
    for key, lst in comps.items():
        sel = lst if thorough else lst[:1]
        for f, o in sel:
            for variant in range(4 if not thorough else 2):
                add("all protected classes", f, o, rng.choice([200, 213, 256, 1024, 600]), variant=variant + (0 if not thorough else rng.randrange(4)))

    def pick(kind):
        for key, lst in comps.items():
            if kind_of(key[0], key[1]) == kind:
                return lst
        return []
    v1 = [pick("signed-v1")[0], pick("signed-v1-hmac")[0], pick("encrypted")[0]]
    v21 = []
    for key, lst in comps.items():
        if kind_of(key[0], key[1]) == "signed-v21":
            v21.append(lst[0])
    # B: RSA sizes x chain depths x root sets x signing root
    combos = [(sz, d, n, m) for sz in c02_keys.RSA_SIZES for d in (1, 2, 3, 4) for (n, m) in PAIRS]
    if not thorough:
        combos = [(sz, d, *PAIRS[(i * 3 + j) % len(PAIRS)]) for i, sz in enumerate(c02_keys.RSA_SIZES) for j, d in enumerate((1, 2, 3, 4))] \
            + [(2048, 1 + k % 4, n, m) for k, (n, m) in enumerate(PAIRS)]
    for i, (sz, d, n, m) in enumerate(combos):
        for f, o in (v1 if thorough else [v1[i % 3]]):
            add("RSA chains x root sets", f, o, rng.choice([96, 200, 333]), cert=c02_keys.rsa_case(idx, sz, n, m, d), variant=i)
    # C: ECC root sets x signing root x ISK x user data
    ecombos = [(cv, n, m, isk, dl) for cv in ("p256", "p384") for (n, m) in PAIRS for isk in (None, "same", "p256") for dl in (0, 1, 4)
               if not (isk is None and dl) and not (isk == "p256" and cv == "p256")]
    if not thorough:
        ecombos = [e for k, e in enumerate(ecombos) if k % 5 == 0]
    for i, (cv, n, m, isk, dl) in enumerate(ecombos):
        f, o = v21[i % len(v21)]
        c = c02_keys.ecc_case(idx, cv, n, m, None if isk is None else (cv if isk == "same" else isk))
        if dl:
            al = max(f.get("isk_data_alignment", 4), 1)
            c["isk_data"] = rnd(rng, min(al * dl * 4, max(f.get("isk_data_limit", 96), al))).hex()
        add("ECC root sets x ISK", f, o, rng.choice([96, 200, 333]), cert=c, variant=i)
    # C2: root keys with a leading zero byte in X / in Y, as the signing root and as a spare, in sets of 2..4
    lz = [(cv, co, n, pos, main) for cv in ("p256", "p384") for co in ("lzx", "lzy") for n in (2, 3, 4)
          for pos in range(n) for main in range(n)]
    if not thorough:
        lz = [(cv, co, n, pos, main) for (cv, co, n, pos, main) in lz
              if (n, pos, main) in ((2, 0, 0), (2, 1, 0), (3, 2, 2), (3, 0, 1), (4, 3, 3), (4, 1, 2))]
    for i, (cv, co, n, pos, main) in enumerate(lz):
        f, o = v21[i % len(v21)]
        c = c02_keys.ecc_case(idx, cv, n, main, [None, cv][i % 2], special=(pos, co))
        add("ECC roots with a leading-zero coordinate", f, o, rng.choice([96, 200]), cert=c, variant=i)
    # D: payload lengths
    lens = [0x38, 0x39, 0x3B, 0x3C, 0x3F, 0x40, 0x41, 0x44, 0x50, 0xFF, 0x100, 0x1FF, 0x200, 0x201, 0x400, 0x7FF]
    if thorough:
        lens = sorted(set(lens + list(range(0x38, 0x90)) + [0x3FD, 0x555, 0x800, 0x1000, 0x2001]))
    reps = [pick("crc")[0], v1[0], v1[1], v1[2], v21[0], v21[-1]]
    for i, n in enumerate(lens):
        for f, o in (reps if thorough or n <= 0x44 else [reps[i % len(reps)]]):
            add("payload lengths", f, o, n, variant=i)
    # E: relocation tables (RT5xx/6xx/7xx load-to-RAM)
    for key, lst in comps.items():
        if "Mbi_MixinRelocTable" in key[0]:
            f, o = lst[0]
            for ne in ((1, 2, 3) if thorough else (1, 3)):
                opts = base_opts(rng, f, o["mixins"], ne)
                opts["reloc"] = [[rnd(rng, rng.choice([4, 9, 32])).hex(), 0x20100000 + 0x100 * j] for j in range(ne)]
                add("relocation tables", f, o, rng.choice([128, 200]), opts=opts, variant=ne)
    # F: manifest digest algorithm chosen by the user
    for (f, o) in v21:
        if "Mbi_MixinManifestDigest" not in o["mixins"]:
            continue
        for i, (cv, dg) in enumerate([("p256", "sha256"), ("p384", "sha384"), ("p256", "sha384"), ("p384", "sha256"), ("p256", "sha512")]):
            opts = base_opts(rng, f, o["mixins"], 0)
            opts.pop("add_digest", None)
            opts["digest"] = dg
            add("manifest digest algorithm", f, o, 128, opts=opts, cert=c02_keys.ecc_case(idx, cv, 2, 1, None), variant=i)
        if not thorough:
            break
    # G: key store corner (a key store file without content)
    f, o = v1[2]
    opts = base_opts(rng, f, o["mixins"], 0)
    opts["key_store"] = ""
    add("empty key store file", f, o, 200, opts=opts, variant=0)
    # I: histories -- a second export of the same object; a change through the public attributes, then export
    hreps = [pick("crc")[0], v1[0], v1[1], v1[2]] + [v21[0], v21[-1]]
    for k in ("signed-vx", "crc-bca"):
        if pick(k):
            hreps.append(pick(k)[0])
    pair = [0]

    def hist(f, o, n, opts, cert, history, new_case_update, variant):
        """case A (with the history) and, for a change, case B: a FRESH object configured with the new settings"""
        pair[0] += 1
        add("second export / change then export", f, o, n, opts=json.loads(json.dumps(opts)), cert=cert, variant=variant,
            history=history, pair=pair[0], role="A")
        a_case = out[-1][1]
        if new_case_update:
            b = json.loads(json.dumps({k: v for k, v in a_case.items() if k not in ("history", "role")}))
            new_case_update(b)
            b["role"] = "B"
            out.append(("second export / change then export", b, f, o))
    for i, (f, o) in enumerate(hreps):
        ms = o["mixins"]
        sm = set(short(ms))
        kind = kind_of(ms, o["image_type"])
        opts = base_opts(rng, f, ms, 2 * i)             # even variant: no custom TZ, no key store, no digest
        cert = default_cert(idx, rng, f, ms, 0)
        hist(f, o, 200, opts, cert, [["export"]], None, 0)
        if "MixinBcaTable" in sm:
            continue
        new_app = gen_app(rng, 252)

        def upd_app(b, new_app=new_app):
            b["app"] = new_app.hex()
        hist(f, o, 200, opts, cert, [["set_app", new_app.hex()]], upd_app, 0)
        if "MixinKeyStore" in sm:
            ks = rnd(rng, 1424).hex()

            def upd_ks(b, ks=ks):
                b["opts"]["key_store"] = ks
            hist(f, o, 200, opts, cert, [["set_key_store", ks]], upd_ks, 0)
        if cert and cert["kind"] == "v1":
            c2 = c02_keys.rsa_case(idx, 3072, 3, 1, 2)

            def upd_c(b, c2=c2):
                b["cert"] = c2
            hist(f, o, 200, opts, cert, [["set_cert", c2]], upd_c, 0)
        if cert and cert["kind"] == "v21":
            c2 = c02_keys.ecc_case(idx, "p384", 2, 1, None)

            def upd_c21(b, c2=c2):
                b["cert"] = c2
            hist(f, o, 200, opts, cert, [["set_cert", c2]], upd_c21, 0)
        if f["tz_size"] and sm & {"MixinTrustZone", "MixinTrustZoneMandatory", "MixinManifestCrc", "MixinManifestDigest"}:
            tzd = rnd(rng, f["tz_size"]).hex()

            def upd_tz(b, tzd=tzd):
                b["opts"]["tz"] = ["custom", tzd]
            hist(f, o, 200, opts, cert, [["set_tz_custom", tzd]], upd_tz, 0)
    # H: the command line
    for (f, o) in [pick("crc")[0], v1[0], v21[0]]:
        add("nxpimage mbi export", f, o, 160, variant=1, cli=True)
    return out


# ------------------------------------------------------------------ values for the Coq model
def class_value(ms, image_type):
    return VL([VI(image_type), VL([VI(MIXIN_IDS.index(m) + 1) for m in short(ms)])])


def cert_value(cb):
    if cb is None or "export" not in cb:
        return VL([])
    b = bytes.fromhex(cb["export"])
    if cb["kind"] == "CertBlockV1":
        return VL([VI(1), VB(b[:20]), VB(b[24:]), VI(cb["signature_size"])])
    return VL([VI(2), VB(b), VI(cb["signature_size"])])


def mbi_value(ob):
    def ob_opt(h):
        return VL([]) if h is None else VL([VB(bytes.fromhex(h))])
    rel = ob.get("reloc")
    mf = ob.get("manifest") or {}
    tz = ob.get("tz")
    return VL([VB(bytes.fromhex(ob.get("app") or "")), VI(ob.get("load_address") or 0), VI(ob.get("image_version") or 0),
               VI(ob.get("image_subtype") or 0), VI(ob.get("firmware_version") or 0),
               VL([VI(tz[0]), VB(bytes.fromhex(tz[1]))]) if tz else VL([VI(0), VB(b"")]), VI(1 if ob.get("hw_key") else 0),
               ob_opt(ob.get("key_store")), ob_opt(ob.get("hmac_key")), VB(bytes.fromhex(ob.get("ctr_iv") or "")),
               VL([]) if rel is None else VL([VL([VL([VB(bytes.fromhex(i)), VI(d), VI(fl)]) for i, d, fl in rel])]),
               cert_value(ob.get("cert")), VI(DIGEST[mf.get("digest")])])


def cfg_value(cfg):
    return VL([VI({"v1": 1, "v21": 2}.get(cfg["cb"], 0)), VI(int(cfg["hmac"])), VI(cfg["tzsize"]), VI(int(cfg["manifest_crc"])), VI(cfg["types"][0]),
               VI(int(cfg["ks_configured"]))])


def lit(v):
    """Coq literal; byte strings as lists of primitive 63-bit integers, 7 bytes each (MbiIoModel.B)."""
    t, x = v
    if t == "b":
        return f"B {len(x)} [" + "; ".join(f"{int.from_bytes(x[i:i + 7], 'little')}%uint63" for i in range(0, len(x), 7)) + "]"
    if t == "l":
        return "VList [" + "; ".join("(" + lit(y) + ")" for y in x) + "]"
    return vlib.coq_lit(v)


_CTOK = re.compile(r"\s*(\[|\]|\(|\)|;|-?\d+(?:%[A-Za-z0-9]+)?|[A-Za-z_][\w.]*)")


def parse_cvalues(text):
    out = []
    for m in re.finditer(r"(?s)=\s*(.*?)\s*:\s*cvalue\b", text):
        toks = _CTOK.findall(m.group(1))
        pos = [0]

        def nxt():
            t = toks[pos[0]]
            pos[0] += 1
            return t

        def peek():
            return toks[pos[0]] if pos[0] < len(toks) else None

        def num():
            t = nxt()
            if t == "(":
                t = nxt()
                assert nxt() == ")"
                if peek() and peek().startswith("%"):
                    nxt()
            return int(t.split("%")[0])

        def lst(item):
            assert nxt() == "["
            r = []
            if peek() == "]":
                nxt()
                return r
            while True:
                r.append(item())
                t = nxt()
                if t == "]":
                    return r
                assert t == ";", t

        def val():
            t = nxt()
            if t == "(":
                v = val()
                assert nxt() == ")"
                return v
            if t == "CInt":
                return ("i", num())
            if t == "CErr":
                return ("e", num())
            if t == "CBytes":
                n = num()
                ws = lst(num)
                return ("b", b"".join(w.to_bytes(7, "little") for w in ws)[:n])
            if t == "CList":
                return ("l", lst(val))
            raise ValueError("unexpected token " + t)
        out.append(val())
    return out


def run_model(tag, exprs, shard, timeout=1500, jobs=8):
    """like vlib.run_model_cases, for expressions of type MbiIoModel.cvalue (compact byte strings)"""
    d = os.path.join(vlib.COQ, "Cases")
    os.makedirs(d, exist_ok=True)
    for f in glob.glob(os.path.join(d, f"{tag}_*")):
        os.remove(f)
    shards = [exprs[i:i + shard] for i in range(0, len(exprs), shard)]
    names = [f"{tag}_{k}" for k in range(len(shards))]
    for name, sh_ in zip(names, shards):
        with open(os.path.join(d, name + ".v"), "w") as f:
            f.write("From Coq Require Import ZArith NArith List Uint63.\n"
                    "Require Import Value Bytes MbiMixinModel GenMbi MbiModel MbiIoModel MbiRomModel.\n"
                    "Import ListNotations.\nSet Printing Width 2000000000.\nSet Printing Depth 2000000000.\n"
                    + "".join(f"Eval vm_compute in (compact ({e_})).\n" for e_ in sh_))
    results = [None] * len(names)
    running, idx = {}, 0
    queue = list(range(len(names)))
    tries = {}

    def start(i):
        n = names[i]
        tries[i] = tries.get(i, 0) + 1
        running[i] = subprocess.Popen(
            f"ulimit -s unlimited 2>/dev/null; timeout {timeout} coqc -R . V -w -all Cases/{n}.v > Cases/{n}.out 2>&1",
            shell=True, cwd=vlib.COQ)
    while queue or running:
        while queue and len(running) < jobs:
            start(queue.pop(0))
        done = [i for i, p in running.items() if p.poll() is not None]
        if not done:
            time.sleep(0.05)
            continue
        for i in done:
            p = running.pop(i)
            out = open(os.path.join(d, names[i] + ".out")).read()
            if p.returncode != 0:
                if tries[i] < 3 and ("Error" not in out or "Out of memory" in out):          # killed (shared machine under memory pressure): once more
                    queue.append(i)
                    continue
                raise RuntimeError(f"model evaluation failed ({names[i]}, rc {p.returncode}): {out[-1500:]}")
            results[i] = parse_cvalues(out)
    flat = []
    for r, sh_ in zip(results, shards):
        if len(r) != len(sh_):
            raise RuntimeError("model returned wrong number of results")
        flat += r
    for f in glob.glob(os.path.join(d, f"{tag}_*")):
        os.remove(f)
    return flat


# ------------------------------------------------------------------ spec oracles on the implementation's output
def input_classes(case, res, kind):
    """classes of the input used in finding signatures"""
    cls = []
    ob = res.get("input", {})
    app_len = res.get("app_len", 0)
    if kind in ("signed-v1-hmac", "encrypted") and app_len < 64:
        cls.append("hmac-class-app-shorter-than-64")
    if kind == "encrypted" and app_len == 64:
        cls.append("encrypted-app-len-64")
    if ob.get("reloc"):
        cls.append("reloc-table-present")
    if ob.get("key_store") == "":
        cls.append("empty-key-store")
    mf = ob.get("manifest") or {}
    if mf.get("digest") and kind == "signed-v21":
        ss = (ob.get("cert") or {}).get("signature_size")
        want = {64: "sha256", 96: "sha384"}.get(ss)
        if want and want != mf["digest"]:
            cls.append("digest-alg-differs-from-signature-hash")
    return cls


def expected_rot(case):
    """(table entries, RKTH) computed from the configured root keys / certificates with `cryptography` + hashlib only"""
    c = case.get("cert") or {}
    if c.get("kind") == "v1":
        return rom.expected_rot_v1(c["roots"])
    if c.get("kind") == "v21":
        return rom.expected_rot_v21(c["roots"])
    return None


def rom_keys(case, res):
    """what is provisioned in the device: RKTH from the configured root keys (independently of SPSDK), the user / master key"""
    keys = {"rkth": None, "user_key": bytes.fromhex(case["opts"]["hmac_key"]) if case["opts"].get("hmac_key") else None}
    rot = expected_rot(case)
    if rot:
        keys["rkth"] = rot[1]
    else:
        ch = (res.get("input", {}).get("cert") or {}).get("cert_hash")       # MC56F81xxx: hash of the ISK certificate
        keys["rkth"] = bytes.fromhex(ch) if ch else (bytes.fromhex(res["rkth"]) if isinstance(res.get("rkth"), str) else None)
    return keys


def expected_plain(case, res, img_hdr):
    """the plaintext image of an encrypted class: the application with the four IVT words of the exported header, then the
    relocation table (not recomputed here) and the TrustZone preset data"""
    ob = res["input"]
    app = bytearray(bytes.fromhex(ob["app"]))
    for a, b in ((0x20, 0x2C), (0x34, 0x38)):
        app[a:b] = img_hdr[a:b]
    tz = bytes.fromhex(ob["tz"][1]) if ob.get("tz") else b""
    return bytes(app), tz


def oracle(case, res, fam, offer):
    """-> list of (signature, message, extra) for everything the property demands and the output does not satisfy"""
    ms = res["mixins"]
    kind = kind_of(ms, res["image_type"])
    img = bytes.fromhex(res["image"])
    cfg = rom_cfg(fam, ms, res["image_type"], case)
    keys = rom_keys(case, res)
    cls = ",".join(input_classes(case, res, kind)) or "-"
    fails = []

    def fail(what, msg):
        fails.append((f"{what}:{kind}:{cls}", f"{case['family']} {case['target']}/{case['auth']} ({kind}): {msg}"))
    rot = expected_rot(case)
    if rot and (not isinstance(res.get("rkth"), str) or bytes.fromhex(res["rkth"]) != rot[1]):
        fail("rkth", "MasterBootImage.rkth is not the hash of the table of hashes of the configured root keys "
                     f"(reported {res.get('rkth')}, expected {rot[1].hex()})")
    ok, r = rom.accept(cfg, keys, img)
    if not ok:
        reason = re.sub(r"[0-9]+", "N", r.split(":")[0])[:60].strip().replace(" ", "-")
        fail(f"rom-reject({reason})", f"the exported image is rejected by the reference ROM: {r}")
        return fails, None
    signed = [(bytes.fromhex(a), bytes.fromhex(b)) for a, b in res.get("signed", [])]
    isigs = [o for o in r["obl"] if o[0] == "ImageSig"]
    if kind in ("signed-v1", "signed-v1-hmac", "encrypted", "signed-v21", "signed-vx"):
        if len(isigs) != 1 or len(signed) != 1:
            fail("sig-count", f"{len(isigs)} image signature obligations, {len(signed)} signing calls")
        else:
            if isigs[0][3] != signed[0][0]:
                fail("sig-range", "the bytes handed to the signature provider are not exactly the bytes the ROM authenticates")
            if isigs[0][4] != signed[0][1]:
                fail("sig-bytes", "the signature in the image is not the one returned by the signature provider")
    if kind in ("signed-v1", "signed-v1-hmac", "encrypted"):
        ri = rom.root_index(r["obl"][0])
        if ri != case["cert"]["main"]:
            fail("root-index", f"root key hash found at table entry {ri}, configured signing root {case['cert']['main']}")
        if len([o for o in r["obl"] if o[0] == "CertChain"]) != case["cert"]["depth"]:
            fail("chain-depth", "number of certificate links differs from the configured chain")
    if kind == "signed-v21":
        off = int.from_bytes(img[0x28:0x2C], "little")
        flags = int.from_bytes(img[off + 12: off + 16], "little")
        if (flags >> 8) & 0xF != case["cert"]["main"] or (flags >> 4) & 0xF != len(case["cert"]["roots"]):
            fail("root-index", "root key record flags do not name the configured signing root / root count")
        if bool(case["cert"].get("isk")) != any(o[0] == "IskSig" for o in r["obl"]):
            fail("isk-presence", "ISK certificate presence differs from the configuration")
    if kind == "encrypted":
        app, tz = expected_plain(case, res, img)
        p = r["plain"]
        if p[:len(app)] != app or (tz and p[-len(tz):] != tz) or (not res["input"].get("reloc") and p != app + tz):
            fail("decrypt", "the image does not decrypt (derived AES-CTR key, IV after the certificate block) to the plaintext image")
    if case.get("cli"):
        ci = res.get("cli_image")
        if not isinstance(ci, str):
            fail("cli", f"nxpimage mbi export failed: {ci}")
        else:
            ok2, r2 = rom.accept(cfg, keys, bytes.fromhex(ci))
            if not ok2:
                fail("cli-rom-reject", f"the file written by nxpimage mbi export is rejected: {r2}")
            elif kind in ("crc", "signed-v1") and bytes.fromhex(ci) != img:
                fail("cli-differs", "nxpimage mbi export writes other bytes than MasterBootImage.export()")
    return fails, r


def det_view(kind, img, r):
    """the image with the regions that legitimately carry fresh randomness (ECDSA signatures and what depends on them) blanked"""
    b = bytearray(img)

    def blank(a, e):
        b[a:e] = bytes(max(0, min(e, len(b)) - a))
    if kind in ("signed-v21", "signed-vx"):
        for name in ("signature", "digest"):
            if name in r["regions"]:
                blank(*r["regions"][name])
    if kind == "signed-v21":
        off = int.from_bytes(img[0x28:0x2C], "little")
        size = int.from_bytes(img[off + 8:off + 12], "little")
        flags = int.from_bytes(img[off + 12:off + 16], "little")
        if not flags >> 31:                               # ISK certificate: its ECDSA signature closes the block
            hl = 32 if flags & 0xF == 1 else 48
            blank(off + size - 2 * hl, off + size)
    if kind == "signed-vx":
        blank(0x410 + 72, 0x410 + 136)
        blank(0x4A0, 0x4B0)
    return bytes(b)


def history_checks(rep, gen, results):
    """oracles over operation histories on ONE object: export twice; change a member, export"""
    fresh = {}
    for (stream, case, fam, offer) in gen:
        if case.get("role") == "B":
            fresh[case["pair"]] = (case, results[id(case)])
    n = 0
    for (stream, case, fam, offer) in gen:
        if case.get("role") != "A":
            continue
        res = results[id(case)]
        if res.get("export") != "ok" or "image2" not in res:
            continue
        n += 1
        ops = case["history"]
        what = ops[0][0]
        kind = kind_of(res["mixins"], res["image_type"])
        replay = {"kind": "history", "case": case, "operations": ["load_from_config", "export"] + [o[0] for o in ops] +
                  (["export"] if what != "export" else []), "first_image": res["image"],
                  "second_image": res["image2"] if isinstance(res["image2"], str) else None}
        if not isinstance(res["image2"], str):
            if what == "export" or res["image2"][1] != 1:
                rep.failing(f"history:second-export-differs:{kind}:second-export-fails",
                            f"{case['family']} {case['target']}/{case['auth']}: the second export on the same object ends with {res['image2'][2]}", replay)
            continue                                      # a refused export after a change exports nothing
        img1, img2 = bytes.fromhex(res["image"]), bytes.fromhex(res["image2"])
        if what == "export":
            case2 = case
        else:
            case2, resb = fresh.get(case["pair"], (None, None))
            if case2 is None:
                continue
        res2 = dict(res)
        res2.update({"image": res["image2"], "signed": res["signed2"], "rkth": res["rkth2"], "input": res["input2"],
                     "app_len": res["app_len2"]})
        fails, r2 = oracle(case2, res2, fam, offer)
        tag = "second-export-differs" if what == "export" else "stale-after-change"
        for sig, msg in fails:
            rep.failing(f"history:{tag}:{what}:{sig}", f"after [{', '.join(replay['operations'])}] the exported image violates C02: " + msg, replay)
        if r2 is None:
            continue
        if what == "export":
            ok1, r1 = rom.accept(rom_cfg(fam, res["mixins"], res["image_type"], case), rom_keys(case, res), img1)
            if ok1 and det_view(kind, img1, r1) != det_view(kind, img2, r2):
                rep.failing(f"history:second-export-differs:{kind}", f"{case['family']} {case['target']}/{case['auth']}: a second export() "
                            "of the same object differs from the first outside the ECDSA signature regions", replay)
        elif resb.get("export") == "ok":
            imgb = bytes.fromhex(resb["image"])
            okb, rb = rom.accept(rom_cfg(fam, resb["mixins"], resb["image_type"], case2), rom_keys(case2, resb), imgb)
            if okb and det_view(kind, imgb, rb) != det_view(kind, img2, r2):
                replay["fresh_image"] = resb["image"]
                rep.failing(f"history:stale-after-change:{what}:{kind}", f"{case['family']} {case['target']}/{case['auth']}: export after "
                            f"{what} differs from the export of a fresh object configured with the new settings", replay)
    return n


def tamper_positions(rng, img, r, kind, every):
    """one byte per region (or every byte): -> list of (position, region name)"""
    n = len(img)
    if every:
        pos = [(i, "byte") for i in range(n)]
    else:
        marks = [(0, "vector"), (0x20, "ivt-length"), (0x24, "ivt-flags"), (0x28, "ivt-crc-or-cert-offset"), (0x34, "ivt-load"),
                 (0x3C, "header"), (n - 1, "last")]
        if n > 0x60:
            marks += [(rng.randrange(0x60, n), "body"), (rng.randrange(0x60, n), "body")]
        for name, (a, b) in r["regions"].items():
            if b > a:
                marks += [(a, name + "-first"), (b - 1, name + "-last"), (rng.randrange(a, b), name)]
        if kind in ("signed-v1", "signed-v1-hmac", "encrypted", "signed-v21"):
            off = int.from_bytes(img[0x28:0x2C], "little")
            shift = 0
            if "hmac" in r["regions"]:
                shift = 32 + (1424 if "keystore" in r["regions"] else 0)
            sig0 = r["regions"]["signature"][0]
            cb0 = off + shift
            if cb0 < sig0:
                marks += [(cb0, "cert-block-first"), (rng.randrange(cb0, sig0), "cert-block..signature"),
                          (rng.randrange(cb0, sig0), "cert-block..signature"), (sig0 - 1, "before-signature")]
        pos = [(p, nm) for p, nm in marks if 0 <= p < n]
    out = []
    for p, nm in pos:
        if kind in ("signed-vx", "crc-bca"):
            # MC56F81xxx: 0x400..0xC00 holds flash configuration / certificates that the image signature does not cover
            if 0x400 <= p < 0xC00 and not (kind == "signed-vx" and 0x410 <= p < 0x410 + 136):
                continue
            if kind == "crc-bca" and p < 0xC00 and not (0x3C4 <= p < 0x3D0):
                continue
        if "keystore" in r["regions"] and r["regions"]["keystore"][0] <= p < r["regions"]["keystore"][1]:
            continue                                     # PUF key codes: not authenticated by the ROM (self-protecting)
        out.append((p, nm))
    return out


def refuted_theorems(rep):
    """`..._refuted` theorems exhibit a recorded finding on the model.  While the finding is reproduced on the implementation
    they must compile; when the defect has been repaired upstream (finding not reproduced, model changed) a theorem that no
    longer compiles is reported as 'finding disappeared' and not as a broken obligation."""
    for name, fid in REFUTED.items():
        ok, out = vlib.coqc(f"Props/{PID}/{name}.v", timeout=900)
        closed = ok and all(c for c, _ in vlib.parse_assumptions(out)) and bool(vlib.parse_assumptions(out))
        if closed:
            rep.obligation(f"theorem:{name}", True)
        elif fid in rep.known_hits:
            rep.obligation(f"theorem:{name}", False, out)
        else:
            vlib.log(f"  note: {name} no longer holds and finding {fid} is not reproduced on the implementation: the finding has disappeared")
            rep.obligation(f"theorem:{name} (finding {fid} disappeared)", True)


# ------------------------------------------------------------------ main
def clean_work():
    shutil.rmtree(RUN, ignore_errors=True)


def run(tier):
    rep = vlib.Report(PID, tier)
    rng = vlib.Rng(vlib.seed())
    thorough = tier == "thorough"
    os.makedirs(WORK, exist_ok=True)
    clean_work()
    os.makedirs(RUN, exist_ok=True)
    # (T1) regenerate the extracted parts of the models this property builds on
    for name, mod in (("database+mixins->Gen/GenMbi.v", "regen_c01"), ("keystore/crc constants->Gen/GenCrypto.v", "regen_c09")):
        try:
            __import__(mod).regen()
            rep.obligation(f"translate:{name}", True)
        except Exception as ex:  # noqa
            rep.obligation(f"translate:{name}", False, repr(ex))
    # (P) proofs
    dev = os.environ.get("C02_DEV") == "1"          # development only: skip the proof build
    model_ok, mout = (os.path.exists(os.path.join(vlib.COQ, "Model/MbiRomModel.vo")), "") if dev else \
        vlib.coq_make(["Model/MbiRomModel.vo", "Model/MbiIoModel.vo"])
    if not dev:
        vlib.check_theorems(rep, PID, THEOREMS, ["Proofs/MbiRomProofs.vo"])
    if thorough:
        vlib.coqchk(rep, PID, THEOREMS)
    vlib.audit(rep)
    # key material + database (failures here are failures of the harness, not of the property)
    try:
        idx = c02_keys.ensure(KEYS, vlib.log)
        db = vlib.run_impl("c02_impl.py", {"mode": "dump"})
        gen = gen_cases(tier, rng, db, idx)
        rep.obligation("harness:key fixtures (tools/props/c02.keys.json), database dump, case generation", True)
    except Exception as ex:  # noqa
        rep.obligation("harness:key fixtures (tools/props/c02.keys.json), database dump, case generation", False, repr(ex)[-1500:])
        clean_work()
        return rep.finish(rule="harness failure before any case was evaluated", trusted_base=[], checker_cmd="", assumptions=[])
    # (T2) implementation
    t0 = time.time()
    chunks = [gen[i::8] for i in range(8)]
    results = {}

    def run_chunk(k):
        sub = chunks[k]
        r = vlib.run_impl("c02_impl.py", {"work": os.path.join(RUN, f"w{k}"), "cases": [c for (_, c, _, _) in sub]}, timeout=3000)
        return r["results"]
    from concurrent.futures import ThreadPoolExecutor
    with ThreadPoolExecutor(8) as ex:
        for k, rs in enumerate(ex.map(run_chunk, range(8))):
            for j, r in enumerate(rs):
                results[id(chunks[k][j][1])] = r
    vlib.log(f"  implementation: {len(gen)} cases in {time.time() - t0:.1f} s")
    streams = {}
    accepted = []                 # (stream, case, fam, offer, res, romresult, kind)
    rejected = []                 # exported, but rejected by the reference ROM: (case, res)
    refused = []                  # loaded, export refused with an SPSDK error: (case, res)
    rejected_inputs = 0
    for (stream, case, fam, offer) in gen:
        res = results[id(case)]
        st = streams.setdefault(stream, {"n": 0, "exported": set(), "samples": [], "kinds": {}})
        st["n"] += 1
        if res.get("export") != "ok":
            rejected_inputs += 1
            err = res.get("export") or res.get("load") or res.get("config")
            # an input SPSDK refuses is not an exported image; a non-SPSDK exception or a hang is reported
            if isinstance(err, list) and err[1] == 1 and res.get("export") and res.get("input") and model_supported(res["mixins"]):
                refused.append((case, res))
            if isinstance(err, list) and err[1] != 1:
                rep.failing(f"export-crash:{kind_of(offer['mixins'], offer['image_type'])}:kind{err[1]}",
                            f"export of {case['family']} {case['target']}/{case['auth']} ends with {err[2]}",
                            {"kind": "impl-oracle", "case": case, "result": err})
            continue
        kind = kind_of(res["mixins"], res["image_type"])
        st["kinds"][kind] = st["kinds"].get(kind, 0) + 1
        fails, r = oracle(case, res, fam, offer)
        for sig, msg in fails:
            rep.failing(sig, "exported image violates C02: " + msg,
                        {"kind": "impl-oracle", "case": case, "image": res["image"], "rkth": res.get("rkth"),
                         "rom_cfg": rom_cfg(fam, res["mixins"], res["image_type"], case), "how": "tools/props/c02.py --replay <this file>"})
        st["exported"].add(hashlib.sha1(bytes.fromhex(res["image"])).hexdigest())
        if len(st["samples"]) < 3:
            st["samples"].append({"family": case["family"], "target": case["target"], "auth": case["auth"],
                                  "app_len": len(case["app"]) // 2, "cert": {k: v for k, v in (case.get("cert") or {}).items()
                                                                           if k in ("kind", "size", "main", "depth", "curve", "isk")}})
        if r is not None:
            accepted.append((stream, case, fam, offer, res, r, kind))
        else:
            rejected.append((case, res))
    nhist = history_checks(rep, gen, results)
    # tamper: single-bit corruptions must be rejected by ROM + oracle
    t0 = time.time()
    ntamper, tamper_samples, tamper_model = 0, [], []
    for (stream, case, fam, offer, res, r, kind) in accepted:
        img = bytes.fromhex(res["image"])
        cfg, keys = rom_cfg(fam, res["mixins"], res["image_type"], case), rom_keys(case, res)
        every = thorough and len(img) <= 700
        for (p, nm) in tamper_positions(rng, img, r, kind, every):
            bad = bytearray(img)
            bad[p] ^= 1 << rng.randrange(8)
            ok, _ = rom.accept(cfg, keys, bytes(bad))
            ntamper += 1
            if ok:
                rep.failing(f"tamper-accepted:{kind}:{nm if not every else 'byte'}",
                            f"a single-bit corruption at offset {p} ({nm}) of an exported {kind} image is still accepted by the "
                            "reference ROM: that byte is outside everything SPSDK signed, hashed or MACed",
                            {"kind": "tamper", "case": case, "image": res["image"], "offset": p})
            if model_supported(res["mixins"]) and kind != "plain" and (len(tamper_model) < (2000 if thorough else 260)) and \
                    (not every or p % 23 == 0):
                try:
                    rom.rom_mbi(cfg, keys, bytes(bad))
                    structural = 1
                except rom.Reject:
                    structural = 0
                tamper_model.append((cfg, keys, bytes(bad), structural))
        if len(tamper_samples) < 3:
            tamper_samples.append({"family": case["family"], "kind": kind, "image_len": len(img)})
    vlib.log(f"  tamper: {ntamper} corrupted images in {time.time() - t0:.1f} s")
    # (T2) Coq models on the same bytes
    ndis = 0
    if model_ok:
        try:
            exprs, expect = [], []
            for (stream, case, fam, offer, res, r, kind) in accepted:
                if not model_supported(res["mixins"]):
                    continue
                cfg, keys = rom_cfg(fam, res["mixins"], res["image_type"], case), rom_keys(case, res)
                img = bytes.fromhex(res["image"])
                args = [cfg_value(cfg), VB(keys["rkth"] or b""), VB(keys["user_key"] or b""), VB(img)]
                exprs.append("MbiRomModel.run_case 1 [" + "; ".join(lit(a) for a in args) + "]")
                expect.append(("rom", case, res, r))
                sig = bytes.fromhex(res["signed"][0][1]) if res.get("signed") else b""
                exprs.append("MbiRomModel.run_case 2 [" + "; ".join(lit(a) for a in
                             [class_value(res["mixins"], res["image_type"]), mbi_value(res["input"]), VB(sig)]) + "]")
                expect.append(("export", case, res, r))
            for (case, res) in rejected:
                if not model_supported(res["mixins"]):
                    continue
                sig = bytes.fromhex(res["signed"][0][1]) if res.get("signed") else b""
                exprs.append("MbiRomModel.run_case 2 [" + "; ".join(lit(a) for a in
                             [class_value(res["mixins"], res["image_type"]), mbi_value(res["input"]), VB(sig)]) + "]")
                expect.append(("export", case, res, None))
            for (case, res) in refused:
                exprs.append("MbiRomModel.run_case 2 [" + "; ".join(lit(a) for a in
                             [class_value(res["mixins"], res["image_type"]), mbi_value(res["input"]), VB(b"")]) + "]")
                expect.append(("refused", case, res))
            for (cfg, keys, bad, structural) in tamper_model:
                args = [cfg_value(cfg), VB(keys["rkth"] or b""), VB(keys["user_key"] or b""), VB(bad)]
                exprs.append("MbiRomModel.run_case 3 [" + "; ".join(lit(a) for a in args) + "]")
                expect.append(("tamper", structural))
            t0 = time.time()
            got = run_model("c02", exprs, shard=30, jobs=8)      # small shards: bounded memory per coqc process
            vlib.log(f"  model: {len(exprs)} evaluations in {time.time() - t0:.1f} s")
            for e, g in zip(expect, got):
                bad = None
                if e[0] == "rom":
                    _, case, res, r = e
                    want = ("l", [("i", 1), ("b", r["plain"]), ("b", r["msg"]), ("l", [enc_obl(o) for o in r["obl"]])])
                    if g != want:
                        bad = f"ROM model differs from the reference ROM on the image exported for {case['family']} {case['target']}/{case['auth']}"
                elif e[0] == "refused":
                    if g != ("e", 1):
                        bad = (f"SPSDK refuses to export {e[1]['family']} {e[1]['target']}/{e[1]['auth']} ({e[2].get('export')}) "
                               f"but the export model answers {g[0]} {g[1] if g[0] == 'e' else ''}")
                elif e[0] == "export":
                    _, case, res, r = e
                    dts = bytes.fromhex(res["signed"][0][0]) if res.get("signed") else b""
                    want = ("l", [("b", bytes.fromhex(res["image"])), ("b", dts)])
                    if g != want:
                        bad = (f"export model (real HMAC / AES-CTR / hash) differs from SPSDK for {case['family']} {case['target']}/{case['auth']}: "
                               + (f"model {g[0]} {g[1] if g[0] == 'e' else ''}" if g[0] != "l" else
                                  f"bytes equal: {g[1][0] == want[1][0]}, data_to_sign equal: {g[1][1] == want[1][1]}"))
                else:
                    if g != ("i", e[1]):
                        bad = f"ROM model accepts={g} reference ROM accepts={e[1]} on a corrupted image"
                if bad:
                    ndis += 1
                    if ndis <= 5:
                        vlib.log("  disagreement: " + bad)
            rep.obligation("correspondence:Coq ROM model = reference ROM, Coq export model = SPSDK on all cases", ndis == 0,
                           f"{ndis} disagreements" if ndis else "")
            rep.add_stream("model evaluations (rom / export / refused / corrupted)", len(exprs), len(exprs) - len(tamper_model),
                           samples=[{"n_rom+export": len(exprs) - len(tamper_model) - len(refused), "n_refused": len(refused),
                                     "n_corrupted": len(tamper_model)}])
        except Exception as ex:  # noqa
            rep.obligation("correspondence:model evaluation", False, repr(ex)[-1500:])
    else:
        rep.obligation("correspondence:model builds", False, mout[-1500:])
    for name, st in streams.items():
        rep.add_stream(name, st["n"], len(st["exported"]), samples=st["samples"], extra={"kinds": st["kinds"]})
    rep.add_stream("single-bit corruptions", ntamper, ntamper, samples=tamper_samples)
    rep.add_stream("histories checked (second export / change then export)", nhist, nhist)
    if not dev and model_ok:
        refuted_theorems(rep)
    clean_work()
    return rep.finish(
        rule="cases are drawn from VERIF_SEED over (family, class) x key material x options; distinct_nontrivial counts distinct "
             "exported images (inputs SPSDK accepted); every exported image is checked by the reference ROM + independent "
             "signature oracle, corrupted once per region (thorough: every byte of small images) and evaluated by both Coq models",
        trusted_base=["Coq 8.16.1 kernel + vm_compute", "Model/MbiModel.v (C01 export model) tied by correspondence here and in C01",
                      "Model/SymWrapModel.v (C09 wrappers) + CryptoRef", "reference ROM written from the documented formats "
                      "(tools/props/c02_rom.py = Model/MbiRomModel.v)", "cryptography/OpenSSL for RSA/ECDSA/X.509 in the oracle",
                      "tools/regen_c01.py, tools/regen_c09.py extractors"],
        checker_cmd="coqc -R . V Props/C02/*.v (after make Proofs/MbiRomProofs.vo)",
        assumptions=["asymmetric verification and X.509 parsing are obligations discharged by the independent oracle, not Coq",
                     "theorems over the export model assume no relocation table (covered by correspondence + oracles)",
                     "MC56F81xxx (BCA / cert block Vx) images are covered by the reference ROM and oracles only",
                     "the key store (PUF key codes) is not authenticated by the ROM"])


def enc_obl(o):
    if o[0] == "RootKeyIn":
        return ("l", [("i", 1), ("b", o[1]), ("l", [("b", t) for t in o[2]])])
    if o[0] == "CertChain":
        return ("l", [("i", 2), ("b", o[1]), ("b", o[2])])
    if o[0] == "ImageSig":
        return ("l", [("i", 3), ("i", o[1]), ("b", o[2]), ("i", len(o[3])), ("b", o[4])])
    return ("l", [("i", 4), ("i", o[1]), ("b", o[2]), ("b", o[3]), ("b", o[4])])


def replay(path):
    """re-run one recorded failing input on the implementation and the oracles"""
    d = json.load(open(path))
    r = d["replay"]
    os.makedirs(RUN, exist_ok=True)
    db = vlib.run_impl("c02_impl.py", {"mode": "dump"})
    fam = [f for f in db["families"] if f["family"] == r["case"]["family"]][0]
    offer = [o for o in fam["offers"] if o["target"] == r["case"]["target"] and o["auth"] == r["case"]["auth"]][0]
    res = vlib.run_impl("c02_impl.py", {"work": os.path.join(RUN, "replay"), "cases": [r["case"]]})["results"][0]
    if res.get("export") != "ok":
        print("export:", res.get("export") or res.get("load") or res.get("config"))
        return 0
    img = bytes.fromhex(res["image"])
    if r.get("kind") == "tamper":
        bad = bytearray(img)
        bad[r["offset"]] ^= 1
        ok, why = rom.accept(rom_cfg(fam, res["mixins"], res["image_type"], case), rom_keys(r["case"], res), bytes(bad))
        print("corrupted image accepted by the reference ROM:", ok)
        return 1 if ok else 0
    fails, _ = oracle(r["case"], res, fam, offer)
    for sig, msg in fails:
        print("FAIL", sig, msg)
    clean_work()
    return 1 if fails else 0


if __name__ == "__main__":
    if len(sys.argv) > 2 and sys.argv[1] == "--replay":
        sys.exit(replay(sys.argv[2]))
    sys.exit(run(sys.argv[1] if len(sys.argv) > 1 else "quick"))
