"""C09 -- ciphers, MACs, hashes, CRCs and KDFs match their standards and invert (DESIGN.md section 3, C09)."""
import hashlib
import hmac as pyhmac
import os
import subprocess
import sys
import zlib

sys.path.insert(0, os.path.dirname(os.path.dirname(os.path.abspath(__file__))))
import vlib
from vlib import VI, VB, VS, VL
import regen_c09
import regen_c20

PID = "C09"
THEOREMS = [
    # modes, parametric in the block cipher
    "ecb_dec_enc", "cbc_dec_enc", "ctr_involutive", "ccm_dec_enc", "xts_dec_enc", "unwrap_wrap",
    # the concrete block ciphers
    "aes_inv_cipher", "sm4_dec_enc",
    # SPSDK wrappers
    "wrap_cbc_roundtrip", "wrap_cbc_roundtrip_default_iv", "wrap_sm4_cbc_roundtrip", "wrap_ecb_roundtrip", "wrap_ctr_roundtrip",
    "wrap_xts_roundtrip", "wrap_ccm_roundtrip", "wrap_keywrap_roundtrip",
    "counter_advance", "counter_wraps_at_2_32",
    "crc_table_standard", "crc_split", "keystore_derivations", "sb31_kdf_spec", "mac_hash_wrappers_reference",
]
FN = {1: "aes_ecb_encrypt/decrypt", 2: "aes_ecb_decrypt", 3: "aes_cbc_encrypt/decrypt", 4: "aes_cbc_decrypt",
      5: "aes_ctr_encrypt/decrypt", 7: "aes_xts_encrypt/decrypt", 8: "aes_xts_decrypt", 9: "aes_ccm_encrypt/decrypt",
      10: "aes_ccm_decrypt", 11: "aes_key_wrap/unwrap", 12: "aes_key_unwrap", 13: "sm4_cbc_encrypt/decrypt",
      14: "sm4_cbc_decrypt", 15: "Counter", 20: "get_hash", 21: "hmac", 22: "hmac_validate", 23: "cmac",
      24: "cmac_validate", 25: "hkdf", 26: "crc(label)", 27: "crc(enum)", 28: "hash/hmac defaults",
      30: "KeyStore.derive_hmac_key", 31: "KeyStore.derive_enc_image_key", 32: "KeyStore.derive_sb_kek_key",
      33: "KeyStore.derive_otfad_kek_key", 34: "sb31.derive_kdk", 35: "sb31.derive_block_key",
      36: "sb31.KeyDerivator.get_block_key", 37: "Hash.update/update_int/finalize"}
NOT_MODELLED_HASH = {0: "sha1", 4: "md5", 5: "sm3"}       # oracle (hashlib) only
HASHLIB = {0: "sha1", 1: "sha256", 2: "sha384", 3: "sha512", 4: "md5", 5: "sm3"}
NONE = VL([])


def some(v):
    return VL([v])


# ====================================================================== independent reference implementations
# ---- AES (FIPS 197) in plain Python, forward and inverse cipher; tables derived from the GF(2^8) definition
def _gmul(a, b):
    r = 0
    while b:
        if b & 1:
            r ^= a
        a <<= 1
        if a & 0x100:
            a ^= 0x11B
        b >>= 1
    return r


def _mk_sbox():
    inv = [0] * 256
    for a in range(1, 256):
        x = a
        for _ in range(253):       # a^254 = a^-1
            x = _gmul(x, a)
        inv[a] = x
    rot = lambda v, n: ((v << n) | (v >> (8 - n))) & 0xFF
    sb = [i ^ rot(i, 1) ^ rot(i, 2) ^ rot(i, 3) ^ rot(i, 4) ^ 0x63 for i in inv]
    isb = [0] * 256
    for i, v in enumerate(sb):
        isb[v] = i
    return sb, isb


SBOX, ISBOX = _mk_sbox()
MUL = {c: [_gmul(x, c) for x in range(256)] for c in (2, 3, 9, 11, 13, 14)}


def aes_expand(key):
    nk = len(key) // 4
    assert nk in (4, 6, 8)
    w = [list(key[4 * i:4 * i + 4]) for i in range(nk)]
    rc = 1
    for i in range(nk, 4 * (nk + 7)):
        t = list(w[i - 1])
        if i % nk == 0:
            t = [SBOX[t[1]] ^ rc, SBOX[t[2]], SBOX[t[3]], SBOX[t[0]]]
            rc = _gmul(rc, 2)
        elif nk > 6 and i % nk == 4:
            t = [SBOX[b] for b in t]
        w.append([a ^ b for a, b in zip(w[i - nk], t)])
    return [sum(w[4 * r:4 * r + 4], []) for r in range(nk + 7)]


def aes_enc_block(rks, b):
    s = [x ^ k for x, k in zip(b, rks[0])]
    for r in range(1, len(rks)):
        s = [SBOX[x] for x in s]
        s = [s[(i + 4 * (i % 4)) % 16] for i in range(16)]
        if r != len(rks) - 1:
            n = []
            for c in range(4):
                a0, a1, a2, a3 = s[4 * c:4 * c + 4]
                n += [MUL[2][a0] ^ MUL[3][a1] ^ a2 ^ a3, a0 ^ MUL[2][a1] ^ MUL[3][a2] ^ a3,
                      a0 ^ a1 ^ MUL[2][a2] ^ MUL[3][a3], MUL[3][a0] ^ a1 ^ a2 ^ MUL[2][a3]]
            s = n
        s = [x ^ k for x, k in zip(s, rks[r])]
    return bytes(s)


def xor(a, b):
    return bytes(x ^ y for x, y in zip(a, b))


def ref_cbcmac(rks, data):
    acc = bytes(16)
    for i in range(0, len(data), 16):
        acc = aes_enc_block(rks, xor(acc, data[i:i + 16]))
    return acc


def ref_ccm(key, nonce, aad, taglen, p):
    """RFC 3610 / SP 800-38C."""
    rks = aes_expand(key)
    q = 15 - len(nonce)
    b0 = bytes([(64 if aad else 0) + 8 * ((taglen - 2) // 2) + (q - 1)]) + nonce + len(p).to_bytes(q, "big")
    blocks = b0
    if aad:
        la = len(aad)
        enc = la.to_bytes(2, "big") if la < 0xFF00 else (b"\xff\xfe" + la.to_bytes(4, "big"))
        a = enc + aad
        blocks += a + bytes(-len(a) % 16)
    blocks += p + bytes(-len(p) % 16)
    t = ref_cbcmac(rks, blocks)[:taglen]
    ctr = lambda i: bytes([q - 1]) + nonce + i.to_bytes(q, "big")
    ct = b"".join(xor(p[16 * i:16 * i + 16], aes_enc_block(rks, ctr(i + 1))) for i in range((len(p) + 15) // 16))
    return ct + xor(t, aes_enc_block(rks, ctr(0)))


def ref_cmac(key, m):
    """SP 800-38B."""
    rks = aes_expand(key)

    def dbl(b):
        v = int.from_bytes(b, "big") << 1
        if v >> 128:
            v = (v & ((1 << 128) - 1)) ^ 0x87
        return v.to_bytes(16, "big")
    k1 = dbl(aes_enc_block(rks, bytes(16)))
    k2 = dbl(k1)
    n = max(1, (len(m) + 15) // 16)
    last = m[16 * (n - 1):]
    last = xor(last, k1) if len(last) == 16 else xor(last + b"\x80" + bytes(15 - len(last)), k2)
    return ref_cbcmac(rks, m[:16 * (n - 1)] + last)


def ref_xts_encrypt(key, tweak, p):
    """IEEE 1619 with ciphertext stealing (forward cipher only)."""
    h = len(key) // 2
    r1, r2 = aes_expand(key[:h]), aes_expand(key[h:])
    t = aes_enc_block(r2, tweak)

    def mul(t):
        v = int.from_bytes(t, "little") << 1
        if v >> 128:
            v = (v & ((1 << 128) - 1)) ^ 0x87
        return v.to_bytes(16, "little")

    def blk(t, b):
        return xor(aes_enc_block(r1, xor(b, t)), t)
    nfull, rem = divmod(len(p), 16)
    out = []
    for i in range(nfull):
        out.append(blk(t, p[16 * i:16 * i + 16]))
        t = mul(t)
    if rem:
        cc = out.pop()
        tail = p[16 * nfull:]
        out.append(blk(t, tail + cc[rem:]))
        out.append(cc[:rem])
    return b"".join(out)


def ecb_block_fns(key):
    """Raw single-block AES primitive of the `cryptography` package (ECB on exactly one block), used directly --
    not its keywrap module, which is what SPSDK's wrapper calls."""
    from cryptography.hazmat.primitives.ciphers import Cipher, algorithms, modes
    c = Cipher(algorithms.AES(key), modes.ECB())

    def enc(b):
        assert len(b) == 16
        return c.encryptor().update(b)

    def dec(b):
        assert len(b) == 16
        return c.decryptor().update(b)
    return enc, dec


def ref_wrap(block_enc, data):
    """RFC 3394 section 2.2.1 (index based): A / R registers, 6*n steps."""
    n = len(data) // 8
    a = b"\xa6" * 8
    r = [data[8 * i:8 * i + 8] for i in range(n)]
    for j in range(6):
        for i in range(n):
            b = block_enc(a + r[i])
            a = xor(b[:8], (n * j + i + 1).to_bytes(8, "big"))
            r[i] = b[8:]
    return a + b"".join(r)


def ref_unwrap(block_dec, wrapped):
    """RFC 3394 section 2.2.2 with the integrity check of 2.2.3; None when the IV does not come out."""
    n = len(wrapped) // 8 - 1
    a = wrapped[:8]
    r = [wrapped[8 * (i + 1):8 * (i + 2)] for i in range(n)]
    for j in range(5, -1, -1):
        for i in range(n - 1, -1, -1):
            b = block_dec(xor(a, (n * j + i + 1).to_bytes(8, "big")) + r[i])
            a, r[i] = b[:8], b[8:]
    return b"".join(r) if a == b"\xa6" * 8 else None


def ref_cbc_encrypt(key, iv, data):
    """SP 800-38A 6.2 over the plain-Python forward cipher."""
    rks = aes_expand(key)
    out, prev = [], iv
    for i in range(0, len(data), 16):
        prev = aes_enc_block(rks, xor(data[i:i + 16], prev))
        out.append(prev)
    return b"".join(out)


def ref_ctr(key, ctr0, data):
    """SP 800-38A 6.5, 128-bit big-endian counter."""
    rks = aes_expand(key)
    c = int.from_bytes(ctr0, "big")
    out = []
    for i in range(0, len(data), 16):
        out.append(xor(data[i:i + 16], aes_enc_block(rks, (c % (1 << 128)).to_bytes(16, "big"))))
        c += 1
    return b"".join(out)


def ref_hkdf(salt, ikm, info, length):
    """RFC 5869 on top of the hmac module."""
    prk = pyhmac.new(salt if salt else bytes(32), ikm, hashlib.sha256).digest()
    t, okm, i = b"", b"", 1
    while len(okm) < length:
        t = pyhmac.new(prk, t + info + bytes([i]), hashlib.sha256).digest()
        okm += t
        i += 1
    return okm[:length]


CATALOGUE = {"crc32": (32, 0x04C11DB7, 0xFFFFFFFF, True, True, 0xFFFFFFFF),           # CRC-32/ISO-HDLC
             "crc32-mpeg": (32, 0x04C11DB7, 0xFFFFFFFF, False, False, 0),             # CRC-32/MPEG-2
             "crc16-xmodem": (16, 0x1021, 0, False, False, 0)}                        # CRC-16/XMODEM


def ref_crc(name, data):
    w, poly, reg, refin, refout, xorout = CATALOGUE[name]
    rev = lambda v, n: int(format(v, f"0{n}b")[::-1], 2)
    for b in data:
        reg ^= (rev(b, 8) if refin else b) << (w - 8)
        for _ in range(8):
            reg = ((reg << 1) ^ poly if reg >> (w - 1) else reg << 1) & ((1 << w) - 1)
    return (rev(reg, w) if refout else reg) ^ xorout


class OracleUnavailable(Exception):
    """An external oracle tool (openssl CLI, a hashlib algorithm) could not give an answer. Never a property verdict."""


ORACLE_DIR = os.path.join(vlib.WORK, PID)
TOOL = {"calls": 0, "retries": 0, "unavailable": 0, "internal_errors": 0, "messages": []}


def tool_note(msg):
    if len(TOOL["messages"]) < 10:
        TOOL["messages"].append(msg[:300])


def openssl(args, data, expect_len):
    """Run the openssl CLI on `data` given as a FILE (-in), never a pipe; an answer is accepted only with exit status 0
    and the expected output length. One retry; then OracleUnavailable."""
    os.makedirs(ORACLE_DIR, exist_ok=True)
    path = os.path.join(ORACLE_DIR, f"oracle_in_{os.getpid()}.bin")
    with open(path, "wb") as f:
        f.write(data)
    TOOL["calls"] += 1
    err = ""
    try:
        for attempt in (0, 1):
            try:
                # `openssl mac` takes the algorithm name as its last argument
                cmd = (["openssl"] + args[:-1] + ["-in", path] + args[-1:]) if args[0] == "mac" else (["openssl"] + args + ["-in", path])
                p = subprocess.run(cmd, stdin=subprocess.DEVNULL, stdout=subprocess.PIPE, stderr=subprocess.PIPE, timeout=60)
                if p.returncode == 0 and len(p.stdout) == expect_len:
                    return p.stdout
                err = f"rc={p.returncode} out={len(p.stdout)}B (expected {expect_len}) {p.stderr.decode(errors='replace')[:160]}"
            except (subprocess.TimeoutExpired, OSError) as ex:
                err = repr(ex)
            if attempt == 0:
                TOOL["retries"] += 1
    finally:
        try:
            os.remove(path)
        except OSError:
            pass
    TOOL["unavailable"] += 1
    tool_note("openssl " + " ".join(args[:2]) + ": " + err)
    raise OracleUnavailable(err)


def ossl_enc(cipher, key, iv, data):
    """Only for streamable modes of `openssl enc` (ECB / CBC / CTR / SM4-CBC on whole blocks or a stream cipher)."""
    a = ["enc", "-" + cipher, "-e", "-nopad", "-K", key.hex()]
    if iv is not None:
        a += ["-iv", iv.hex()]
    return openssl(a, data, len(data))


def lib_hash(name, data):
    try:
        return hashlib.new(name, data).digest()
    except ValueError as ex:          # algorithm not provided by this build of OpenSSL
        TOOL["unavailable"] += 1
        tool_note(f"hashlib {name}: {ex}")
        raise OracleUnavailable(str(ex))


def lib_hmac(key, data, name):
    try:
        return pyhmac.new(key, data, name).digest()
    except ValueError as ex:
        TOOL["unavailable"] += 1
        tool_note(f"hmac {name}: {ex}")
        raise OracleUnavailable(str(ex))


# ====================================================================== spec oracles on the implementation's outputs
def pad16(d):
    return d + bytes(-len(d) % 16)


def is_err(r):
    return r[0] == "e"


def unopt(v):
    return None if v[1] == [] else v[1][0][1]


class Oracle:
    """Each method returns None or (signature, message). `use_cli` limits the number of openssl processes."""

    def __init__(self, cli_budget):
        self.cli_budget = cli_budget
        self.cli_used = 0
        self.hits = {}

    def cli(self):
        if self.cli_used < self.cli_budget:
            self.cli_used += 1
            return True
        return False

    def count(self, what):
        self.hits[what] = self.hits.get(what, 0) + 1

    def roundtrip(self, name, res, want_plain, accept_expected):
        """res = [ct, dec] or error; accept_expected: whether the property says this input must be accepted."""
        if is_err(res):
            if accept_expected:
                return (f"{name}:rejects-valid-input:e{res[1]}", f"{name} refused a legal input ({res[1:]})")
            return None
        ct, dec = res[1]
        if is_err(dec):
            return (f"{name}:decrypt-fails-on-own-ciphertext:e{dec[1]}", f"decrypt raised {dec[1:]} on the wrapper's own output")
        if dec[1] != want_plain:
            return (f"{name}:roundtrip-mismatch", f"decrypt(encrypt(m)) = {dec[1].hex()[:80]} expected {want_plain.hex()[:80]}")
        self.count(name + " roundtrip")
        return None

    def via_cli(self, name, got, call):
        """compare with the CLI when it answers; a tool failure is counted, never reported as a violation"""
        try:
            want = call()
        except OracleUnavailable:
            self.count("oracle unavailable: openssl-cli")
            return None
        return self.same_as(name, got, want, "openssl-cli")

    def same_as(self, name, got, want, who):
        if got != want:
            return (f"{name}:differs-from-{who}", f"{name}: SPSDK {got.hex()[:96]} != {who} {want.hex()[:96]}")
        self.count(f"{name} = {who}")
        return None

    def check(self, case, r):
        fn = case[0]
        a = [x[1] for x in case[1:]]
        name = FN[fn]
        if is_err(r) and r[1] in (3, 98):
            return (f"{name}:hang-or-harness:{r[1]}", f"{name}: {r}")
        if fn == 1:
            k, d = a
            legal = len(k) in (16, 24, 32) and len(d) % 16 == 0
            o = self.roundtrip(name, r, d, legal)
            if o or is_err(r):
                return o
            if len(d) and self.cli():
                o = self.via_cli(name, r[1][0][1], lambda: ossl_enc(f"aes-{8 * len(k)}-ecb", k, None, d))
                if o:
                    return o
            return self.same_as(name, r[1][0][1], b"".join(aes_enc_block(aes_expand(k), d[i:i + 16]) for i in range(0, len(d), 16)), "python-fips197")
        if fn in (3, 13):
            k, d = a[0], a[1]
            ive, ivd = unopt(case[3]), unopt(case[4])
            klegal = len(k) in ((16, 24, 32) if fn == 3 else (16,))
            both_default = ive is None and ivd is None
            same_explicit = ive is not None and ivd is not None and ive == ivd and len(ive) == 16
            if not (both_default or same_explicit):
                return None                   # mixed defaults / different IVs: correspondence only
            o = self.roundtrip(name + ("(default IV)" if both_default else ""), r, pad16(d), klegal)
            if o or is_err(r):
                return o
            iv = ive if ive is not None else bytes(16)     # the documented default is an all-zero block
            ciph = f"aes-{8 * len(k)}-cbc" if fn == 3 else "sm4-cbc"
            if len(d) and self.cli():
                o = self.via_cli(name, r[1][0][1], lambda: ossl_enc(ciph, k, iv, pad16(d)))
                if o:
                    return o
            if fn == 3:
                return self.same_as(name, r[1][0][1], ref_cbc_encrypt(k, iv, pad16(d)), "python-sp800-38a")
            return None
        if fn == 5:
            k, d, n = a
            legal = len(k) in (16, 24, 32) and len(n) == 16
            o = self.roundtrip(name, r, d, legal)
            if o or is_err(r):
                return o
            if len(d) and self.cli():
                o = self.via_cli(name, r[1][0][1], lambda: ossl_enc(f"aes-{8 * len(k)}-ctr", k, n, d))
                if o:
                    return o
            return self.same_as(name, r[1][0][1], ref_ctr(k, n, d), "python-sp800-38a")
        if fn == 7:
            k, d, t = a
            legal = len(k) in (32, 64) and len(t) == 16 and (len(d) >= 16) and k[:len(k) // 2] != k[len(k) // 2:]
            o = self.roundtrip(name, r, d, legal)
            if o or is_err(r):
                return o
            return self.same_as(name, r[1][0][1], ref_xts_encrypt(k, t, d), "python-ieee1619") if d else None
        if fn == 9:
            k, d, n = a[0], a[1], a[2]
            aad, tl = unopt(case[4]), unopt(case[5])
            t = 16 if tl is None else tl
            legal = len(k) in (16, 24, 32) and 7 <= len(n) <= 13 and t in (4, 6, 8, 10, 12, 14, 16) and len(d) < (1 << (8 * (15 - len(n)))) and len(d) < 65536
            o = self.roundtrip(name, r, d, legal)
            if o or is_err(r):
                return o
            return self.same_as(name, r[1][0][1], ref_ccm(k, n, aad or b"", t, d), "python-sp800-38c")
        if fn == 11:
            k, d = a
            legal = len(k) in (16, 24, 32) and len(d) >= 16 and len(d) % 8 == 0
            o = self.roundtrip(name, r, d, legal)
            if o or is_err(r):
                return o
            # (openssl enc cannot be used here: its key-wrap ciphers are not streamable)
            wrapped = r[1][0][1]
            benc, bdec = ecb_block_fns(k)
            o = self.same_as(name, wrapped, ref_wrap(benc, d), "python-rfc3394-over-raw-ecb-block")
            if o:
                return o
            if ref_unwrap(bdec, wrapped) != d:
                return (f"{name}:reference-unwrap-rejects", f"RFC 3394 unwrap (IV check) of SPSDK's output {wrapped.hex()[:96]} does not give the key data")
            rks = aes_expand(k)
            return self.same_as(name, wrapped, ref_wrap(lambda b: aes_enc_block(rks, b), d), "python-rfc3394-over-python-fips197")
        if fn == 15:
            nonce, cv, big, incs = a[0], unopt(case[2]), a[2], [x[1] for x in a[3]]
            if len(nonce) != 16:
                return None if is_err(r) else (f"{name}:accepts-bad-nonce", f"Counter accepted a {len(nonce)}-byte nonce")
            if is_err(r):
                return (f"{name}:constructor-rejects", f"Counter({nonce.hex()}, {cv}) raised {r[1:]}")
            if (cv or 0) < 0 or any(i < 0 for i in incs):
                return None                   # going backwards is outside the documented use
            order = "big" if big else "little"
            c = int.from_bytes(nonce[12:], order) + (cv or 0)
            for step, obs in enumerate(r[1]):
                if step:
                    c += incs[step - 1]
                want = nonce[:12] + (c % (1 << 32)).to_bytes(4, order)
                if is_err(obs):
                    cls = "wrap-past-2^32" if c >= 1 << 32 else "in-range"
                    return (f"{name}.value:{cls}:raises-e{obs[1]}",
                            f"Counter({nonce.hex()}, {cv}, {order}) after increments {incs[:step]}: value raised {obs[1:]} "
                            f"(counter {c:#x}); a 32-bit block counter must read {want.hex()}")
                if obs[1] != want:
                    return (f"{name}.value:wrong", f"Counter value {obs[1].hex()} expected {want.hex()} after {incs[:step]}")
            self.count("Counter trace")
            return None
        if fn in (20, 37):
            if fn == 20:
                data, tag = a
            else:
                tag = a[0]
                data = b"".join(p[1] if p[0] == "b" else abs(p[1]).to_bytes((abs(p[1]).bit_length() + 7) // 8, "big") for p in a[1])
            if tag not in HASHLIB:
                return None if is_err(r) else (f"{name}:accepts-unknown-algorithm", f"tag {tag}")
            if is_err(r):
                return (f"{name}:rejects-valid-input:e{r[1]}", f"{name} tag {tag} raised {r[1:]}")
            return self.same_as(f"{name}[{HASHLIB[tag]}]", r[1], lib_hash(HASHLIB[tag], data), "hashlib")
        if fn == 21:
            k, d, tag = a
            if tag not in HASHLIB:
                return None
            if is_err(r):
                return (f"{name}:rejects-valid-input:e{r[1]}", f"{name} raised {r[1:]}")
            return self.same_as(f"{name}[{HASHLIB[tag]}]", r[1], lib_hmac(k, d, HASHLIB[tag]), "python-hmac")
        if fn == 22:
            k, d, s, tag = a
            if tag not in HASHLIB:
                return None
            want = lib_hmac(k, d, HASHLIB[tag]) == s
            if is_err(r) or bool(r[1]) != want:
                return (f"{name}:wrong-verdict", f"hmac_validate -> {r} expected {want}")
            self.count("hmac_validate verdict")
            return None
        if fn == 23:
            k, d = a
            if len(k) not in (16, 24, 32):
                return None
            if is_err(r):
                return (f"{name}:rejects-valid-input:e{r[1]}", f"{name} raised {r[1:]}")
            if self.cli():
                o = self.via_cli(name, r[1], lambda: openssl(["mac", "-cipher", f"AES-{8 * len(k)}-CBC", "-macopt", "hexkey:" + k.hex(),
                                                                "-binary", "CMAC"], d, 16))
                if o:
                    return o
            return self.same_as(name, r[1], ref_cmac(k, d), "python-sp800-38b")
        if fn == 24:
            k, d, s = a
            if len(k) not in (16, 24, 32):
                return None
            want = ref_cmac(k, d) == s
            if is_err(r) or bool(r[1]) != want:
                return (f"{name}:wrong-verdict", f"cmac_validate -> {r} expected {want}")
            self.count("cmac_validate verdict")
            return None
        if fn == 25:
            salt, ikm, info, ln = a
            if not 0 <= ln <= 8160:
                return None
            if is_err(r):
                return (f"{name}:rejects-valid-input:e{r[1]}", f"{name} raised {r[1:]}")
            return self.same_as(name, r[1], ref_hkdf(salt, ikm, info, ln), "python-rfc5869")
        if fn in (26, 27):
            label, d = a
            nm = label.lower()
            if nm not in CATALOGUE:
                return None if is_err(r) else (f"{name}:accepts-unknown-name", label)
            if is_err(r):
                return (f"{name}:rejects-valid-input:e{r[1]}", f"crc {label} raised {r[1:]}")
            want = ref_crc(nm, d)
            if nm == "crc32":
                assert want == zlib.crc32(d)
            if r[1] != want:
                return (f"{name}:{nm}:differs-from-catalogue", f"{nm}({d.hex()[:64]}) = {r[1]:#x}, catalogue algorithm gives {want:#x}")
            self.count("crc = catalogue")
            return None
        if fn == 28:
            d = a[0]
            want = [hashlib.sha256(d).digest(), pyhmac.new(b"key", d, "sha256").digest(), 1, 32, 48, 64]
            got = None if is_err(r) else [x[1] for x in r[1]]
            if got != want:
                return (f"{name}:defaults", f"defaults: {r}")
            self.count("defaults")
            return None
        if fn in (30, 31, 32, 33):
            k = a[0]
            const = {30: bytes(16), 31: bytes([1] + [0] * 15 + [2] + [0] * 15), 32: bytes([3] + [0] * 15 + [4] + [0] * 15)}.get(fn)
            if fn == 33:
                const = a[1]
                legal = len(k) == 32 and len(const) == 16
            else:
                legal = len(k) == 32
            if not legal:
                return None if is_err(r) else (f"{name}:accepts-bad-length", f"{name} accepted key {len(k)} bytes")
            if is_err(r):
                return (f"{name}:rejects-valid-input:e{r[1]}", f"{name} raised {r[1:]}")
            rks = aes_expand(k)
            want = b"".join(aes_enc_block(rks, const[i:i + 16]) for i in range(0, len(const), 16))
            return self.same_as(name, r[1], want, "python-fips197")
        if fn in (34, 35, 36):
            if fn == 36:
                k, ts, kl, rights, bn = a
            else:
                k, const, kl, rights = a

            def kdf(key, const, mode):
                out = b""
                for it in range(1, (2 if kl == 256 else 1) + 1):
                    data = (const.to_bytes(12, "little") + bytes(8) + bytes([rights << 6, 1 if mode == 1 else 0x10, 0, 0x20 if kl == 128 else 0x21])
                            + kl.to_bytes(4, "big") + it.to_bytes(4, "big"))
                    out += ref_cmac(key, data)
                return out
            consts = [ts, bn] if fn == 36 else [const]
            legal = len(k) in (16, 24, 32) and kl in (128, 256) and rights in (0, 1, 2, 3) and all(0 <= c < 1 << 96 for c in consts)
            if not legal:
                return None if is_err(r) else (f"{name}:accepts-invalid", f"{name}{tuple(a[1:])} accepted")
            if is_err(r):
                return (f"{name}:rejects-valid-input:e{r[1]}", f"{name} raised {r[1:]}")
            want = kdf(k, const, 1) if fn == 34 else kdf(k, const, 2) if fn == 35 else kdf(kdf(k, ts, 1), bn, 2)
            return self.same_as(name, r[1], want, "python-kdf-spec")
        return None


# ====================================================================== case generation
def gen_cases(tier, rng):
    th = tier == "thorough"
    S = {}

    def rb(n):
        return bytes(rng.getrandbits(8) for _ in range(n))

    def lens(maxex, extra):
        return list(range(0, maxex + 1)) + extra
    mlens = lens(80 if th else 36, [95, 96, 97, 127, 128, 255, 256, 1000, 2048, 4096] if th else [47, 48, 49, 64, 65, 80, 512])
    keys = [16, 24, 32]
    # ---- ECB / CTR / CBC / SM4
    ecb, ctr, cbc, sm4, dec = [], [], [], [], []
    for n in mlens:
        for kl in keys:
            k = rb(kl)
            d = rb(n)
            if n % 16 == 0 or n < 40:
                ecb.append([1, VB(k), VB(d)])
            nonce = rng.choice([rb(16), rb(12) + b"\xff\xff\xff\xff", b"\xff" * 16, rb(8) + b"\xff" * 8])
            ctr.append([5, VB(k), VB(d), VB(nonce)])
            iv = rb(16)
            for (e, dd) in ((NONE, NONE), (some(VB(iv)), some(VB(iv)))) + (((NONE, some(VB(bytes(16)))), (some(VB(bytes(16))), NONE),
                                                                          (some(VB(b"")), NONE)) if n in (0, 1, 16, 17, 33) else ()):
                cbc.append([3, VB(k), VB(d), e, dd])
        k = rb(16)
        iv = rb(16)
        sm4.append([13, VB(k), VB(rb(n)), NONE, NONE])
        sm4.append([13, VB(k), VB(rb(n)), some(VB(iv)), some(VB(iv))])
    for kl in (0, 1, 15, 17, 31, 33, 48, 64):
        k = rb(kl)
        ecb.append([1, VB(k), VB(rb(16))])
        ctr.append([5, VB(k), VB(rb(5)), VB(rb(16))])
        cbc.append([3, VB(k), VB(rb(20)), NONE, NONE])
        sm4.append([13, VB(k), VB(rb(20)), NONE, NONE])
        dec.append([4, VB(k), VB(rb(16)), NONE])
    for ivl in (1, 8, 15, 17, 32, 128):
        cbc.append([3, VB(rb(16)), VB(rb(20)), some(VB(rb(ivl))), some(VB(rb(ivl)))])
        sm4.append([13, VB(rb(16)), VB(rb(20)), some(VB(rb(ivl))), NONE])
        dec.append([4, VB(rb(16)), VB(rb(32)), some(VB(rb(ivl)))])
        dec.append([14, VB(rb(16)), VB(rb(32)), some(VB(rb(ivl)))])
    for nl in (0, 12, 15, 17):
        ctr.append([5, VB(rb(16)), VB(rb(33)), VB(rb(nl))])
    for n in list(range(0, 40)) + [48, 64, 100]:          # decrypting arbitrary data
        dec.append([4, VB(rb(rng.choice(keys))), VB(rb(n)), rng.choice([NONE, some(VB(rb(16)))])])
        dec.append([14, VB(rb(16)), VB(rb(n)), rng.choice([NONE, some(VB(rb(16)))])])
        dec.append([2, VB(rb(rng.choice(keys))), VB(rb(n))])
    S["AES-ECB encrypt->decrypt, all message lengths x key sizes"] = ecb
    S["AES-CTR encrypt->decrypt (incl. counter blocks that carry / wrap)"] = ctr
    S["AES-CBC encrypt->decrypt, IV given / defaulted on either side"] = cbc
    S["SM4-CBC encrypt->decrypt"] = sm4
    S["ECB/CBC decrypt of arbitrary data"] = dec
    # ---- XTS
    xts = []
    for n in lens(70 if th else 40, [79, 80, 81, 255, 256, 257, 1024] if th else [47, 48, 49, 64, 65, 200]):
        for kl in (32, 64):
            xts.append([7, VB(rb(kl)), VB(rb(n)), VB(rb(16))])
    for kl in (16, 31, 48, 63, 65):
        xts.append([7, VB(rb(kl)), VB(rb(32)), VB(rb(16))])
    xts.append([7, VB(bytes(32)), VB(rb(32)), VB(rb(16))])                      # duplicated halves
    xts.append([7, VB(rb(16) * 2), VB(rb(32)), VB(rb(16))])
    for tl in (0, 15, 17):
        xts.append([7, VB(rb(32)), VB(rb(32)), VB(rb(tl))])
    for n in (0, 1, 15, 16, 17, 31, 32, 33, 47, 48, 100):
        xts.append([8, VB(rb(rng.choice([32, 64]))), VB(rb(n)), VB(rb(16))])
    xts.append([8, VB(bytes(32)), VB(rb(32)), VB(rb(16))])
    S["AES-XTS encrypt->decrypt incl. ciphertext stealing"] = xts
    # ---- CCM
    ccm = []
    tags = [4, 6, 8, 10, 12, 14, 16]
    for n in lens(48 if th else 36, [63, 64, 65, 300, 1024] if th else [64, 200]):
        for rep in range(2 if th else 1):
            kl = rng.choice(keys)
            nl = rng.choice(range(7, 14))
            aad = rng.choice([NONE, some(VB(b"")), some(VB(rb(rng.choice([1, 8, 13, 14, 15, 16, 17, 30, 40]))))])
            tl = rng.choice([NONE] + [some(VI(t)) for t in tags])
            ccm.append([9, VB(rb(kl)), VB(rb(n)), VB(rb(nl)), aad, tl])
    for nl in range(5, 16):
        for tl in tags:
            if th or (nl + tl) % 3 == 0:
                ccm.append([9, VB(rb(16)), VB(rb(rng.randrange(0, 40))), VB(rb(nl)), some(VB(rb(rng.randrange(0, 20)))), some(VI(tl))])
    for tl in (-2, 0, 2, 3, 5, 15, 17, 18, 32):
        ccm.append([9, VB(rb(16)), VB(rb(10)), VB(rb(12)), NONE, some(VI(tl))])
    for kl in (0, 15, 17, 48, 64):
        ccm.append([9, VB(rb(kl)), VB(rb(10)), VB(rb(12)), NONE, NONE])
    ccm.append([9, VB(rb(16)), VB(rb(5)), VB(rb(12)), some(VB(rb(0xFF00 + 5))), NONE])          # 6-byte AAD length encoding
    ccm.append([9, VB(rb(16)), VB(rb(5)), VB(rb(12)), some(VB(rb(0xFEFF))), some(VI(8))])
    for n in (0, 3, 4, 15, 16, 17, 20, 40):                                               # tampered / random ciphertexts
        ccm.append([10, VB(rb(16)), VB(rb(n)), VB(rb(12)), VB(rb(3)), rng.choice([NONE, some(VI(4)), some(VI(8))])])
    S["AES-CCM encrypt->decrypt, nonce 7..13 x tag 4..16 x AAD"] = ccm
    # ---- key wrap
    kw = []
    for n in list(range(0, 81, 8)) + [7, 9, 15, 17, 20, 33] + ([128, 256, 512] if th else [128]):
        for kl in keys:
            kw.append([11, VB(rb(kl)), VB(rb(n))])
    for kl in (0, 15, 17, 48, 64):
        kw.append([11, VB(rb(kl)), VB(rb(16))])
        kw.append([12, VB(rb(kl)), VB(rb(24))])
    for n in (0, 8, 16, 23, 24, 25, 32, 40):
        kw.append([12, VB(rb(rng.choice(keys))), VB(rb(n))])
    S["RFC 3394 wrap->unwrap"] = kw
    # ---- Counter
    cn = []
    starts = ([0, 1, 2, 0x7FFFFFFF, 0x80000000, 0xFFFFFFF0, 0xFFFFFFFE, 0xFFFFFFFF] if th else [0, 1, 0x7FFFFFFF, 0xFFFFFFFE, 0xFFFFFFFF]) + [rng.getrandbits(32) for _ in range(12 if th else 3)]
    incsets = [[], [1], [1, 1, 1], [2, 3, 5], [16, 1, 1], [0x10000, 1], [0xFFFFFFFF], [0x7FFFFFFF, 0x7FFFFFFF, 2], [0, 0], [1 << 32, 1], [1 << 40]]
    incsets += [[rng.choice([1, 1, 2, 3, 7, 64, 1000, 1 << 20, 1 << 31]) for _ in range(rng.randrange(1, 6))] for _ in range(20 if th else 6)]
    for s in starts:
        for big in (0, 1):
            for incs in incsets:
                cvs = [NONE, some(VI(0)), some(VI(rng.choice([1, 5, 0x100, 0xFFFFFFFF, 1 << 32])))]
                cv = cvs[(s + len(incs) + big) % 3] if not th else None
                for c in ([cv] if cv is not None else cvs):
                    nonce = rb(12) + s.to_bytes(4, "big" if big else "little")
                    cn.append([15, VB(nonce), c, VI(big), VL([VI(i) for i in incs])])
    for nl in (0, 4, 12, 15, 17, 32):
        cn.append([15, VB(rb(nl)), NONE, VI(0), VL([])])
    cn.append([15, VB(bytes(16)), some(VI(-1)), VI(0), VL([VI(1)])])
    cn.append([15, VB(bytes(16)), NONE, VI(1), VL([VI(-1), VI(2)])])
    S["Counter: start values x ctr_value x byte order x increment sequences (incl. 32-bit wrap)"] = cn
    # ---- hashes / HMAC / CMAC / HKDF
    hs = []
    hl = lens(140 if th else 70, [111, 112, 113, 119, 120, 127, 128, 129, 239, 240, 255, 256, 1000, 4096] if th else [111, 112, 119, 120, 127, 128, 129, 1000])
    for n in hl:
        d = rb(n)
        for tag in (1, 2, 3, 0, 4, 5):
            if tag in (1,) or n % 3 == tag % 3 or th:
                hs.append([20, VB(d), VI(tag)])
    hs.append([20, VB(b"abc"), VI(254)])
    for _ in range(40 if th else 12):
        ps = []
        for _ in range(rng.randrange(0, 5)):
            ps.append(VB(rb(rng.randrange(0, 70))) if rng.random() < 0.6 else VI(rng.choice([0, 1, 255, 256, -256, -1, rng.getrandbits(64), -rng.getrandbits(130), 1 << 64])))
        hs.append([37, VI(rng.choice([1, 1, 2, 3, 0])), VL(ps)])
    for n in (0, 1, 55, 64, 200):
        hs.append([28, VB(rb(n))])
    S["get_hash / Hash object vs hashlib and CryptoRef"] = hs
    mac = []
    for klen in [0, 1, 16, 32, 63, 64, 65, 127, 128, 129, 200]:
        for n in ([0, 1, 31, 32, 55, 56, 64, 100] + ([300, 1000] if th else [])):
            tag = rng.choice([1, 1, 2, 3] + ([0, 4, 5] if n < 40 else []))
            k, d = rb(klen), rb(n)
            mac.append([21, VB(k), VB(d), VI(tag)])
            if n in (0, 32):
                try:
                    good = pyhmac.new(k, d, HASHLIB[tag]).digest()
                except ValueError:       # algorithm missing in this OpenSSL build: no validate cases for it
                    continue
                bad = bytes([good[0] ^ 1]) + good[1:]
                for s in (good, bad, good[:-1], b""):
                    mac.append([22, VB(k), VB(d), VB(s), VI(tag)])
    mac.append([21, VB(b"k"), VB(b""), VI(254)])
    for n in lens(50 if th else 34, [63, 64, 65, 200, 1024] if th else [64, 65, 200]):
        kl = rng.choice(keys)
        k, d = rb(kl), rb(n)
        mac.append([23, VB(k), VB(d)])
        if n % 7 == 0:
            good = ref_cmac(k, d)
            for s in (good, bytes([good[0] ^ 0x80]) + good[1:], good[:8], b""):
                mac.append([24, VB(k), VB(d), VB(s)])
    for kl in (0, 15, 17, 48, 64):
        mac.append([23, VB(rb(kl)), VB(rb(5))])
    S["HMAC / CMAC (+validate)"] = mac
    kd = []
    for ln in [0, 1, 16, 31, 32, 33, 64, 65, 100] + ([255, 500, 8160, 8161] if th else [200, 8161]):
        for _ in range(2):
            kd.append([25, VB(rb(rng.choice([0, 1, 16, 32, 64, 65, 100]))), VB(rb(rng.choice([0, 1, 22, 32, 80]))), VB(rb(rng.choice([0, 1, 10, 50]))), VI(ln)])
    S["HKDF-SHA256"] = kd
    # ---- CRC
    cr = []
    names = ["crc32", "crc32-mpeg", "crc16-xmodem"]
    small = [b""] + [bytes([x]) for x in range(256)]
    if th:
        small += [bytes([x, y]) for x in range(256) for y in range(0, 256, 3)]
    else:
        small += [bytes([x, y]) for x in range(0, 256, 9) for y in range(0, 256, 51)]
    for nm in names:
        for d in small:
            cr.append([26, VS(nm), VB(d)])
        for n in [3, 4, 5, 8, 9, 16, 100, 255, 1024] + ([4096] if th else []):
            cr.append([26, VS(nm), VB(rb(n))])
        cr.append([27, VS(nm), VB(b"123456789")])
        cr.append([26, VS(nm.upper()), VB(b"123456789")])
    cr.append([26, VS("crc-32"), VB(b"1")])
    cr.append([26, VS(""), VB(b"1")])
    S["CRC32 / CRC32-MPEG / CRC16-XMODEM: all 0..1 byte strings, grid of 2-byte strings, long random"] = cr
    # ---- KeyStore / SB3.1 KDF
    ks = []
    for _ in range(12 if th else 4):
        k = rb(32)
        ks += [[30, VB(k)], [31, VB(k)], [32, VB(k)], [33, VB(k), VB(rb(16))]]
    for kl in (0, 16, 24, 31, 33, 64):
        k = rb(kl)
        ks += [[30, VB(k)], [31, VB(k)], [32, VB(k)], [33, VB(k), VB(rb(16))]]
    for il in (0, 15, 17, 32):
        ks.append([33, VB(rb(32)), VB(rb(il))])
    for _ in range(60 if th else 20):
        kl = rng.choice([128, 256])
        k = rb(rng.choice([16, 32, 32, 24]))
        const = rng.choice([0, 1, 2, 0xFFFFFFFF, 1 << 32, (1 << 96) - 1, rng.getrandbits(32), rng.getrandbits(90)])
        rights = rng.choice([0, 1, 2, 3])
        ks.append([rng.choice([34, 35]), VB(k), VI(const), VI(kl), VI(rights)])
        ks.append([36, VB(k), VI(const), VI(kl), VI(rights), VI(rng.choice([0, 1, 2, 77, 1 << 31]))])
    for (const, kl, rights) in ((1, 64, 0), (1, 192, 0), (1, 128, 4), (1, 128, -1), (-1, 128, 0), (1 << 96, 256, 3), (1, 0, 0)):
        ks.append([34, VB(rb(32)), VI(const), VI(kl), VI(rights)])
        ks.append([35, VB(rb(16)), VI(const), VI(kl), VI(rights)])
    for kl in (0, 15, 33, 64):
        ks.append([34, VB(rb(kl)), VI(5), VI(128), VI(0)])
    S["KeyStore.derive_* and SB3.1 CMAC KDF"] = ks
    return S


# ====================================================================== model side
def has_model(case):
    fn = case[0]
    if fn in (20, 21, 22):
        return case[-1][1] not in NOT_MODELLED_HASH
    if fn == 37:
        return case[1][1] not in NOT_MODELLED_HASH
    return True


def to_model_expr(case):
    fn = 26 if case[0] == 27 else case[0]
    return f"run_case {fn} [{'; '.join(vlib.coq_lit(a) for a in case[1:])}]"


def norm(v):
    """implementation result (JSON) -> comparable value tuples; error kinds keep only the class."""
    if v[0] == "e":
        return ("e", v[1])
    if v[0] == "l":
        return ("l", [norm(x) for x in v[1]])
    return vlib.vj(v)


def same(case, ri, rm):
    return ri == rm


def run(tier):
    rep = vlib.Report(PID, tier)
    rng = vlib.Rng(vlib.seed())
    import time as _t
    t0 = _t.time()
    phases = {}

    def phase(name):
        phases[name] = round(_t.time() - t0, 1)
    work = os.path.join(vlib.WORK, PID)
    os.makedirs(work, exist_ok=True)
    # (T1) regenerate the extracted tables from the current source
    try:
        regen_c09.regen()
        rep.obligation("translate:crc.py+symmetric.py+keystore.py->Gen/GenCrypto.v", True)
    except Exception as ex:  # noqa
        rep.obligation("translate:crc.py+symmetric.py+keystore.py->Gen/GenCrypto.v", False, repr(ex))
    try:
        regen_c20.regen()         # align_block (zero padding of the CBC encryptors) is the C20 model
        rep.obligation("translate:spsdk/utils/misc.py->Gen/GenMisc.v (align_block dependency)", True)
    except Exception as ex:  # noqa
        rep.obligation("translate:spsdk/utils/misc.py->Gen/GenMisc.v (align_block dependency)", False, repr(ex))
    # (P) proofs
    model_ok, mlog = vlib.coq_make(["Model/SymWrapModel.vo", "Crypto/CryptoVectors.vo"])
    rep.obligation("build:CryptoRef standard test vectors (Crypto/*.v Example ... vm_compute) + model", model_ok, mlog)
    if not model_ok:
        model_ok, _ = vlib.coq_make(["Model/SymWrapModel.vo"])
    vlib.check_theorems(rep, PID, THEOREMS, ["Proofs/SymWrapProofs.vo"])
    vlib.audit(rep)
    if tier == "thorough":
        vlib.coqchk(rep, PID, THEOREMS)        # independent re-check of the compiled theorem closure
    phase("regen+build+theorems+audit")
    # (T2) correspondence + property oracles on the implementation
    streams = gen_cases(tier, rng)
    flat, owner = [], []
    for name, cs in streams.items():
        for c in cs:
            flat.append(c)
            owner.append(name)
    impl = vlib.run_impl("c09_impl.py", {"cases": [[c[0]] + [vlib.jv(a) for a in c[1:]] for c in flat]}, timeout=3000)
    impl_res = [norm(r) for r in impl["results"]]
    phase("implementation run")
    raw = impl["results"]
    orc = Oracle(cli_budget=4000 if tier == "thorough" else 700)
    for c, r, rr in zip(flat, impl_res, raw):
        try:
            o = orc.check(c, r)
        except OracleUnavailable:
            orc.count("oracle unavailable: " + FN[c[0]])
            o = None
        except Exception as ex:  # noqa   a defect of the oracle code is a harness problem, never a verdict on SPSDK
            TOOL["internal_errors"] += 1
            tool_note(f"oracle code failed on {FN[c[0]]}: {ex!r}")
            o = None
        if o:
            rep.failing(o[0], "implementation violates the C09 contract: " + o[1],
                        {"kind": "impl-oracle", "function": FN[c[0]], "case": [c[0]] + [vlib.jv(a) for a in c[1:]], "impl_result": rr})
    phase("oracles")
    # harness health, reported as such: external oracle tools must answer (a few transient failures are tolerated,
    # those cases are still compared SPSDK <-> Coq model exactly) and the oracle code itself must not fail
    tool_ok = TOOL["unavailable"] <= max(3, (TOOL["calls"] + len(flat)) // 50) and TOOL["internal_errors"] == 0
    rep.obligation("oracle:tool-availability", tool_ok, f"{TOOL}")
    ndis, nmodel = 0, 0
    if model_ok:
        try:
            idx = [i for i, c in enumerate(flat) if has_model(c)]
            nmodel = len(idx)
            model_res = vlib.run_model_cases("c09", "Value SymWrapModel", [to_model_expr(flat[i]) for i in idx],
                                             shard=110, timeout=1500, jobs=8)
            for i, rm in zip(idx, model_res):
                c, ri = flat[i], impl_res[i]
                rm = norm(vlib.jv(rm))
                if not same(c, ri, rm):
                    ndis += 1
                    if ndis <= 5:
                        vlib.log(f"  disagreement {FN[c[0]]} {str(c[1:])[:300]}: impl {str(ri)[:200]} model {str(rm)[:200]}")
                    try:
                        hit = orc.check(c, ri)
                    except Exception:  # noqa  (already accounted for in the oracle pass)
                        hit = None
                    if not hit:
                        nm = f"correspondence:{FN[c[0]]}"
                        if nm not in rep.broken:
                            rep.broken.append(nm)
            rep.obligation("correspondence:model=implementation on all modelled cases", ndis == 0, f"{ndis} disagreements" if ndis else "")
        except Exception as ex:  # noqa
            rep.obligation("correspondence:model evaluation", False, repr(ex))
    else:
        rep.obligation("correspondence:model builds", False, "Model/SymWrapModel.vo did not build")
    phase("model evaluation + comparison")
    vlib.log(f"  phases (cumulative s): {phases}")
    for name, cs in streams.items():
        idx = [i for i, o in enumerate(owner) if o == name]
        distinct = len({(repr(flat[i]), repr(impl_res[i])) for i in idx if impl_res[i][0] != "e"})
        nerr = sum(1 for i in idx if impl_res[i][0] == "e")
        rep.add_stream(name, len(idx), distinct, samples=[[flat[i][0]] + [vlib.jv(a) for a in flat[i][1:]] for i in idx[1:3]],
                       exhaustive=False, extra={"rejected_or_error": nerr})
    try:
        os.rmdir(work)
    except OSError:
        pass
    return rep.finish(
        rule="cases are drawn from VERIF_SEED over every message length 0..N, every legal key size, None defaults on either side and "
             "malformed sizes; distinct_nontrivial counts distinct (input, accepted result) pairs; each accepted result is compared "
             "with an independent implementation (openssl CLI / hashlib / hmac / plain-Python FIPS-197, SP 800-38B/C, IEEE 1619, "
             "RFC 3394/5869, catalogue CRC) and with the Coq CryptoRef model",
        trusted_base=["Coq 8.16.1 kernel + vm_compute", "tools/regen_c09.py (ast extraction of tables/defaults)",
                      "hand model Model/SymWrapModel.v over coq/Crypto (CryptoRef), tied by correspondence",
                      "cryptography/OpenSSL C code: that it implements the standards is validated by vectors and 3-way differential runs, not proved",
                      "oracle reference implementations in tools/props/c09.py, openssl 3.0 CLI, hashlib"],
        checker_cmd="coqc -R . V Props/C09/*.v (after make Proofs/SymWrapProofs.vo)",
        assumptions=["messages up to 4 KiB in the differential runs (theorems are unbounded)", "CCM payloads shorter than 2^16 bytes",
                     "Counter increments are non-negative in the oracle (negative ones are compared with the model only, which follows Python's & 0xFFFFFFFF)",
                     "SHA-1 / MD5 / SM3 are compared with hashlib only (no Coq reference)"],
        extra_cov={"phases_cumulative_s": phases, "oracle_tools": TOOL, "oracle_agreements": orc.hits, "openssl_cli_calls": orc.cli_used, "model_evaluations": nmodel})


if __name__ == "__main__":
    sys.exit(run(sys.argv[1] if len(sys.argv) > 1 else "quick"))
