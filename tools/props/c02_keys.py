"""C02 key / certificate fixtures.  The private / public keys are FIXED material committed in tools/props/c02.keys.json
(generated once with `cryptography`, never through SPSDK); at run time they are written to /verif/.work/C02/keys (the
implementation needs file paths) and the X.509 certificates are derived from them deterministically (fixed serial numbers and
dates, RSASSA-PKCS1-v1_5).  Only a key missing from the fixture file is generated (and, for the leading-zero keys, searched).

RSA (cert block v1):  for size in 2048/3072/4096: 4 root keys; per root a self-signed non-CA certificate (used as the sole
certificate, depth 1) and a self-signed CA certificate (used with chains); per root and depth d in 2..4 the chain
certificates root -> (CA intermediates) -> non-CA leaf.  The signing key of a case is the key of the last certificate.
ECC (cert block v2.1): for curve in p256/p384: 4 root keys (private PEM + public PEM), one ISK key per curve.
"""
import datetime
import json
import os

from cryptography import x509
from cryptography.hazmat.primitives import hashes, serialization
from cryptography.hazmat.primitives.asymmetric import ec, rsa
from cryptography.x509.oid import NameOID

RSA_SIZES = (2048, 3072, 4096)
CURVES = {"p256": ec.SECP256R1, "p384": ec.SECP384R1}


def _pem_priv(key):
    return key.private_bytes(serialization.Encoding.PEM, serialization.PrivateFormat.PKCS8, serialization.NoEncryption())


def _pem_pub(key):
    return key.public_key().public_bytes(serialization.Encoding.PEM, serialization.PublicFormat.SubjectPublicKeyInfo)


def _load_priv(path):
    return serialization.load_pem_private_key(open(path, "rb").read(), None)


def _cert(subject_cn, subject_key, issuer_cn, issuer_key, ca, serial):
    nb = datetime.datetime(2024, 1, 1)
    b = (x509.CertificateBuilder()
         .subject_name(x509.Name([x509.NameAttribute(NameOID.COMMON_NAME, subject_cn)]))
         .issuer_name(x509.Name([x509.NameAttribute(NameOID.COMMON_NAME, issuer_cn)]))
         .public_key(subject_key.public_key()).serial_number(serial)
         .not_valid_before(nb).not_valid_after(nb + datetime.timedelta(days=36500))
         .add_extension(x509.BasicConstraints(ca=ca, path_length=None), critical=True))
    return b.sign(issuer_key, hashes.SHA256())


FIXTURE = os.path.join(os.path.dirname(os.path.abspath(__file__)), "c02.keys.json")


def ensure(keydir, log=lambda s: None):
    """Materialise the committed keys, derive the certificates; return the index dict (paths)."""
    os.makedirs(keydir, exist_ok=True)
    idx = {"rsa": {}, "ecc": {}}
    try:
        fixed = json.load(open(FIXTURE))["files"]
    except FileNotFoundError:
        fixed = {}
    for name, text in fixed.items():
        path = os.path.join(keydir, name)
        try:
            same = open(path).read() == text
        except FileNotFoundError:
            same = False
        if not same:
            with open(path + ".tmp%d" % os.getpid(), "w") as f:
                f.write(text)
            os.replace(path + ".tmp%d" % os.getpid(), path)
            # certificates derived from an older key are stale
            if name.startswith("rsa"):
                import glob
                for old in glob.glob(os.path.join(keydir, name.split("_")[0] + "_*.der")):
                    os.remove(old)

    def have(p):
        return os.path.exists(p) and os.path.getsize(p) > 0

    def wr(p, b):
        tmp = p + ".tmp%d" % os.getpid()
        with open(tmp, "wb") as f:
            f.write(b)
        os.replace(tmp, p)

    for size in RSA_SIZES:
        ent = {"roots": [], "chain_keys": []}
        keys = []
        for name in [f"rsa{size}_root{i}" for i in range(4)] + [f"rsa{size}_chain{j}" for j in range(3)]:
            p = os.path.join(keydir, name + ".pem")
            if not have(p):
                log(f"  generating {name}")
                wr(p, _pem_priv(rsa.generate_private_key(public_exponent=65537, key_size=size)))
            keys.append(p)
        roots, chains = keys[:4], keys[4:]
        ent["chain_keys"] = chains
        for i, rk in enumerate(roots):
            r = {"key": rk, "leaf_cert": os.path.join(keydir, f"rsa{size}_root{i}_leaf.der"),
                 "ca_cert": os.path.join(keydir, f"rsa{size}_root{i}_ca.der"), "chains": {}}
            need = not (have(r["leaf_cert"]) and have(r["ca_cert"]))
            for d in (2, 3, 4):
                r["chains"][str(d)] = [os.path.join(keydir, f"rsa{size}_root{i}_d{d}_c{j}.der") for j in range(d - 1)]
                need = need or not all(have(p) for p in r["chains"][str(d)])
            if need:
                rkey = _load_priv(rk)
                ckeys = [_load_priv(p) for p in chains]
                cn = f"root{i}-{size}"
                wr(r["leaf_cert"], _cert(cn, rkey, cn, rkey, False, 100 + i).public_bytes(serialization.Encoding.DER))
                wr(r["ca_cert"], _cert(cn, rkey, cn, rkey, True, 200 + i).public_bytes(serialization.Encoding.DER))
                for d in (2, 3, 4):
                    parent_cn, parent_key = cn, rkey
                    for j in range(d - 1):
                        last = j == d - 2
                        scn = f"{cn}-d{d}-c{j}"
                        c = _cert(scn, ckeys[j], parent_cn, parent_key, not last, 1000 + 100 * i + 10 * d + j)
                        wr(r["chains"][str(d)][j], c.public_bytes(serialization.Encoding.DER))
                        parent_cn, parent_key = scn, ckeys[j]
            ent["roots"].append(r)
        idx["rsa"][str(size)] = ent
    for cname, curve in CURVES.items():
        ent = {"roots": [], "isk": None}
        for name in [f"ec{cname}_root{i}" for i in range(4)] + [f"ec{cname}_isk"]:
            p, q = os.path.join(keydir, name + ".pem"), os.path.join(keydir, name + "_pub.pem")
            if not (have(p) and have(q)):
                k = ec.generate_private_key(curve())
                wr(p, _pem_priv(k))
                wr(q, _pem_pub(k))
            if name.endswith("isk"):
                ent["isk"] = {"key": p, "pub": q}
            else:
                ent["roots"].append({"key": p, "pub": q})
        idx["ecc"][cname] = ent
    # root keys whose X (resp. Y) coordinate has a leading zero byte (1 key in 256 each): minimal-length serialisation of a
    # coordinate changes the hash of exactly these keys
    for cname, curve in CURVES.items():
        cl = 32 if cname == "p256" else 48
        for coord in ("x", "y"):
            name = f"ec{cname}_lz{coord}"
            p, q = os.path.join(keydir, name + ".pem"), os.path.join(keydir, name + "_pub.pem")
            if not (have(p) and have(q)):
                log(f"  searching {name}")
                while True:
                    k = ec.generate_private_key(curve())
                    pn = k.public_key().public_numbers()
                    v = pn.x if coord == "x" else pn.y
                    w = pn.y if coord == "x" else pn.x
                    if v >> (8 * (cl - 1)) == 0 and w >> (8 * (cl - 1)) != 0:
                        break
                wr(p, _pem_priv(k))
                wr(q, _pem_pub(k))
            idx["ecc"][cname]["lz" + coord] = {"key": p, "pub": q}
    with open(os.path.join(keydir, "index.json"), "w") as f:
        json.dump(idx, f, indent=1)
    return idx


def rsa_case(idx, size, nroots, main, depth):
    """Files for a cert-block-v1 configuration: root certificates 0..nroots-1, signing root `main`, chain of `depth`."""
    ent = idx["rsa"][str(size)]
    roots = ent["roots"]
    certs = []
    for i in range(nroots):
        certs.append(roots[i]["ca_cert"] if (i == main and depth > 1) else roots[i]["leaf_cert"])
    chain = roots[main]["chains"][str(depth)] if depth > 1 else []
    key = ent["chain_keys"][depth - 2] if depth > 1 else roots[main]["key"]
    return {"kind": "v1", "size": size, "roots": certs, "main": main, "chain": chain, "key": key, "depth": depth}


def ecc_case(idx, curve, nroots, main, isk, isk_data_len=0, special=None):
    """isk: None | 'p256' | 'p384' (curve of the image signing key certified by the root).
    special = (position, 'lzx' | 'lzy'): the root at that position is a key with a leading-zero coordinate."""
    ent = idx["ecc"][curve]
    roots = [dict(r) for r in ent["roots"][:nroots]]
    if special:
        roots[special[0]] = dict(ent[special[1]])
    c = {"kind": "v21", "curve": curve, "roots": [r["pub"] for r in roots], "main": main,
         "root_key": roots[main]["key"], "isk": None, "isk_data_len": isk_data_len}
    ent = dict(ent)
    ent["roots"] = roots
    if isk:
        c["isk"] = isk
        c["isk_pub"] = idx["ecc"][isk]["isk"]["pub"]
        c["key"] = idx["ecc"][isk]["isk"]["key"]
    else:
        c["key"] = ent["roots"][main]["key"]
    return c
