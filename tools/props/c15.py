"""C15 -- Debug authentication: credentials and responses are bound and verifiable (DESIGN.md section 3, C15)."""
import hashlib
import os
import struct
import sys
import time

sys.path.insert(0, os.path.dirname(os.path.dirname(os.path.abspath(__file__))))
sys.path.insert(0, os.path.dirname(os.path.abspath(__file__)))
import vlib
from vlib import VI, VB, VL, VE
import regen_c15
import c15_keys

from cryptography.exceptions import InvalidSignature
from cryptography.hazmat.primitives import hashes
from cryptography.hazmat.primitives.asymmetric import ec, padding, utils as asym_utils

PID = "C15"
THEOREMS = ["struct_roundtrip", "dc_roundtrip", "dc_roundtrip_p521", "dc_created_roundtrip", "dc_ele_v1_roundtrip", "dcv2_roundtrip",
            "dc_sig_covers_all", "dc_verify_obligation", "dc_names_rot_key", "dc_rot_hash_rsa", "dc_rot_hash_ecc", "dar_embeds_dc_beacon",
            "dar_binds", "dar_verify_sound", "dac_roundtrip", "parse_dispatch"]
KEYDIR = os.path.join(vlib.WORK, PID, "keys")
TMPDIR = os.path.join(vlib.WORK, PID, "tmp")
KLASS = {"DebugCredentialCertificateRsa": 0, "DebugCredentialCertificateEcc": 1, "DebugCredentialEdgeLockEnclave": 2}
KTYPES = ["r2048", "r4096", "p256", "p384", "p521"]
VERSION_OF = {"r2048": (1, 0), "r4096": (1, 1), "p256": (2, 0), "p384": (2, 1), "p521": (2, 2)}
M32 = 0xFFFFFFFF


# ------------------------------------------------------------------------------------------------ small helpers
def ktype(kid):
    return kid.split("_")[0]


def cs_of(bits):
    return (bits + 7) // 8


def key_blob_min(info):
    """NXP raw export: RSA modulus||exponent (both minimal), ECC X||Y (curve width)."""
    if info["k"] == "rsa":
        n, e = info["n"], info["e"]
        return n.to_bytes((n.bit_length() + 7) // 8, "big") + e.to_bytes((e.bit_length() + 7) // 8, "big")
    w = cs_of(info["bits"])
    return info["x"].to_bytes(w, "big") + info["y"].to_bytes(w, "big")


def dc_key_blob(info, klass):
    """How the DAT specification stores a public key inside a credential of the given class."""
    if klass == 0:
        n, e = info["n"], info["e"]
        return n.to_bytes(info["bits"] // 8, "big") + e.to_bytes(4, "big")
    return key_blob_min(info)


def sig_len(info):
    return info["bits"] // 8 if info["k"] == "rsa" else 2 * cs_of(info["bits"])


class HarnessError(Exception):
    """a failure of an oracle tool or helper of this check -- never evidence about the property"""


def verify_sig(info, msg, sig, pss):
    """Independent of SPSDK: `cryptography` directly.  ECDSA signatures are raw r||s.
    False = the signature does not verify; a tool failure (key construction, backend error) raises HarnessError."""
    try:
        pub = c15_keys.public_key(info)
    except Exception as ex:  # noqa
        raise HarnessError(f"cannot build the verification key: {ex!r}") from ex
    try:
        if info["k"] == "rsa":
            pad = padding.PSS(mgf=padding.MGF1(hashes.SHA256()), salt_length=32) if pss else padding.PKCS1v15()
            pub.verify(sig, msg, pad, hashes.SHA256())
        else:
            w = cs_of(info["bits"])
            if len(sig) != 2 * w:
                return False
            der = asym_utils.encode_dss_signature(int.from_bytes(sig[:w], "big"), int.from_bytes(sig[w:], "big"))
            h = {256: hashes.SHA256(), 384: hashes.SHA384(), 521: hashes.SHA512()}[info["bits"]]
            pub.verify(der, msg, ec.ECDSA(h))
        return True
    except (InvalidSignature, ValueError):
        return False                # ValueError: signature bytes of a shape the scheme cannot even decode
    except Exception as ex:  # noqa
        raise HarnessError(f"signature verifier failed: {ex!r}") from ex


def hash_for(bits):
    return {256: hashlib.sha256, 384: hashlib.sha384, 521: hashlib.sha512}[bits]


def rkh_spec(info):
    """documented per-key record (C03): SHA-256(modulus||exponent) / SHA-<curve>(X||Y)"""
    if info["k"] == "rsa":
        return hashlib.sha256(key_blob_min(info)).digest()
    return hash_for(info["bits"])(key_blob_min(info)).digest()


def rot_spec(infos):
    """documented RoT hash for the key set (C03): v1 table for RSA, v2.1 for ECC; None where the image tools have none."""
    if infos[0]["k"] == "rsa":
        t = b"".join(rkh_spec(i) for i in infos)
        return hashlib.sha256(t + bytes(128 - len(t))).digest()
    if infos[0]["bits"] == 521:
        return None
    if len(infos) == 1:
        return rkh_spec(infos[0])
    return hash_for(infos[0]["bits"])(b"".join(rkh_spec(i) for i in infos)).digest()


# ------------------------------------------------------------------------------------------------ model literals
def key_lit(info):
    if info["k"] == "rsa":
        n = info["n"]
        return VL([VI(0), VB(n.to_bytes((n.bit_length() + 7) // 8, "big")), VI(info["e"])])
    w = cs_of(info["bits"])
    return VL([VI(1), VI(info["bits"]), VB(info["x"].to_bytes(w, "big")), VB(info["y"].to_bytes(w, "big"))])


def key_from_impl(j):
    if j[0] == "rsa":
        n = int(j[1], 16)
        return VL([VI(0), VB(n.to_bytes((n.bit_length() + 7) // 8, "big")), VI(j[2])])
    if j[0] == "ecc":
        w = cs_of(j[1])
        return VL([VI(1), VI(j[1]), VB(int(j[2], 16).to_bytes(w, "big")), VB(int(j[3], 16).to_bytes(w, "big"))])
    return VE(98)


def e_or(x, f):
    """impl JSON error dict -> ('e', k) else f(x)"""
    if isinstance(x, dict) and "err" in x:
        return VE(x["err"])
    return f(x)


def hexb(x):
    return VB(bytes.fromhex(x))


def cmp_b(ref, out):
    """mirror of DatModel.cmp_res: 1 when equal to the reference"""
    if isinstance(out, dict):
        return VE(out["err"])
    if isinstance(ref, str) and ref == out:
        return VI(1)
    return hexb(out)


def fields_from_impl_cmp(ref, sig, f):
    return VL([VI(KLASS.get(f["cls"], 9)), VI(f["major"]), VI(f["minor"]), VI(f["socc"]), hexb(f["uuid"]), VI(f["socu"]),
               VI(f["vu"]), VI(f["beacon"]), cmp_b(ref["rot_meta"], f["rot_meta"]),
               VI(1) if f["dck"] == ref["dck"] else key_from_impl(f["dck"]),
               VI(1) if f["rot"] == ref["rot"] else key_from_impl(f["rot"]), cmp_b(sig, f["sig"])])


def fields_from_impl(f):
    return VL([VI(KLASS.get(f["cls"], 9)), VI(f["major"]), VI(f["minor"]), VI(f["socc"]), hexb(f["uuid"]), VI(f["socu"]),
               VI(f["vu"]), VI(f["beacon"]), e_or(f["rot_meta"], hexb), key_from_impl(f["dck"]), key_from_impl(f["rot"]),
               hexb(f["sig"])])


def dc_value_from_impl(r):
    """impl result of a `dc` case -> the value the model's run_case 1 returns (without the tbs slot)"""
    c = r["create"]
    if "err" in c:
        return VE(c["err"])
    ex = r["export"]
    if isinstance(ex, dict):
        pp = VE(ex["err"])
    else:
        p = r["parse"]
        if "err" in p:
            pp = VE(p["err"])
        else:
            pp = VL([fields_from_impl_cmp(c, r.get("sig") or "", p["fields"]), e_or(p["eq"], lambda b: VI(int(b))),
                     cmp_b(ex, p["reexport"])])
    return VL([VI(KLASS.get(c["cls"], 9)), VI(c["major"]), VI(c["minor"]), e_or(ex, hexb), pp, e_or(r["hash"], hexb)])


def strip_tbs(v):
    """model value of run_case 1 -> same shape as dc_value_from_impl, plus the tbs value"""
    if v[0] != "l":
        return v, None
    x = v[1]
    return VL([x[0], x[1], x[2], x[3], x[5], x[6]]), x[4]


def same(a, b):
    return a == b


def first_diff(a, b, path=""):
    """where two values differ (for the log)"""
    if a[0] != b[0]:
        return f"{path}: {str(a)[:120]} vs {str(b)[:120]}"
    if a[0] == "l":
        if len(a[1]) != len(b[1]):
            return f"{path}: list lengths {len(a[1])} vs {len(b[1])}"
        for i, (x, y) in enumerate(zip(a[1], b[1])):
            if x != y:
                return first_diff(x, y, f"{path}/{i}")
        return None
    if a[1] != b[1]:
        if a[0] == "b":
            k = next((i for i, (x, y) in enumerate(zip(a[1], b[1])) if x != y), min(len(a[1]), len(b[1])))
            return f"{path}: bytes differ at {k} (len {len(a[1])} vs {len(b[1])}): {a[1][k:k+16].hex()} vs {b[1][k:k+16].hex()}"
        return f"{path}: {str(a)[:120]} vs {str(b)[:120]}"
    return None


def has_notmodelled(v):
    if v[0] == "e":
        return v[1] == 99
    if v[0] == "l":
        return any(has_notmodelled(y) for y in v[1])
    return False


# ------------------------------------------------------------------------------------------------ case generation
class World:
    def __init__(self, db, pool):
        self.pool = pool
        self.fams = db["families"]
        self.soccs = {r["socc"]: r for r in db["soccs"]}
        self.by_name = {(f["family"], f["revision"]): f for f in self.fams}

    def facts(self, case):
        if case.get("family"):
            rev = case.get("revision")
            if rev:
                return self.by_name[(case["family"], rev)]
            return [f for f in self.fams if f["family"] == case["family"] and f["latest"]][0]
        s = self.soccs[case["socc"]]
        return dict(s, family=s["ambassador"], revision="latest")


def known_class(case, w):
    """input classes of the five repaired defects (C15-F1..F4; F5 is `dcv2:field:socc`): only used to tag the oracle
    signatures, so that a regression is reported under a specific name -- nothing is excused"""
    f = w.facts(case)
    kts = [ktype(k) for k in case["keys"]]
    rid = case["rot_id"]
    if not (0 <= rid < len(kts)):
        return None
    rt = kts[rid]
    if len(bytes.fromhex(case["uuid"])) != 16:
        return "uuid-not-16-bytes"
    if ktype(case["dck"]) != rt:
        return "dck-type-mismatch"
    if not f["ele"] and rt == "p521" and len(kts) >= 2:
        return "p521-multi-key"
    amb = w.soccs.get(f["socc"])
    if f["ele"] and f["cnt"] == 1 and amb and amb["cnt"] == 2 and rt != "p256":
        return "ele-v1-revision-of-v2-socc"
    return None


def regular(case, w):
    """inputs inside the property's quantifier: one key type, 1..4 keys (4 for EdgeLock), index in range, matching
    DCK and signing key, 16-byte uuid, 32-bit values"""
    f = w.facts(case)
    kts = [ktype(k) for k in case["keys"]]
    if f["ele"] and f["cnt"] != 1:
        return False
    if not kts or len(set(kts)) != 1 or kts[0] not in KTYPES:
        return False
    if not (1 <= len(kts) <= 4) or (f["ele"] and len(kts) != 4):
        return False
    if not (0 <= case["rot_id"] < len(kts)) or case["rotk"] != case["keys"][case["rot_id"]]:
        return False
    if ktype(case["dck"]) != kts[0] or len(bytes.fromhex(case["uuid"])) != 16:
        return False
    if any(not (0 <= case[x] <= M32) for x in ("socu", "vu", "beacon")):
        return False
    return True


def gen_cases(tier, rng, w):
    thorough = tier == "thorough"
    streams = {}
    plain = [f for f in w.fams if not f["ele"]]
    ele1 = [f for f in w.fams if f["ele"] and f["cnt"] == 1]
    ele2 = [f for f in w.fams if f["ele"] and f["cnt"] == 2]

    def val32():
        return rng.choice([0, 1, 0x3FF, M32, 0x80000000, rng.getrandbits(32), rng.getrandbits(32), rng.getrandbits(12)])

    def uuid16():
        return rng.choice([bytes(16), bytes(rng.getrandbits(8) for _ in range(16)), bytes(rng.getrandbits(8) for _ in range(16)),
                           bytes([0] * 15 + [1]), bytes([0xFF] * 16)]).hex()

    def mk(f, kt, n, rid, **kw):
        ids = list(range(5 if kt == "r4096" else 6))
        rng.shuffle(ids)
        keys = [f"{kt}_{i}" for i in ids[:n]]
        c = {"op": "dc", "family": f["family"], "revision": f["revision"], "keys": keys, "rot_id": rid,
             "rotk": keys[rid] if 0 <= rid < n else keys[0], "dck": f"{kt}_{ids[n]}", "uuid": uuid16(), "socu": val32(),
             "vu": val32(), "beacon": val32()}
        c.update(kw)
        return c

    combos_plain = [(kt, n, rid) for kt in KTYPES for n in (1, 2, 3, 4) for rid in range(n)]
    combos_ele = [(kt, 4, rid) for kt in KTYPES for rid in range(4)]
    # ---- 1. every family/revision of the database, rotating through the combinations
    cs = []
    reps = 6 if thorough else 1
    for rep in range(reps):
        for i, f in enumerate(plain):
            kt, n, rid = combos_plain[(i + 7 * rep) % len(combos_plain)]
            cs.append(mk(f, kt, n, rid))
        for i, f in enumerate(ele1):
            kt, n, rid = combos_ele[(i + 3 * rep) % len(combos_ele)]
            cs.append(mk(f, kt, n, rid, flag_ca=rng.choice([0, 0, 1])))
    streams["credential life cycle: every DAT family/revision of the database"] = cs
    # ---- 2. every (key type, number of RoT keys, used index) on representative families
    cs = []
    rep_plain = [f for f in plain if f["latest"]]
    rep_ele = [f for f in ele1 if f["latest"]]
    for k in range(4 if thorough else 1):
        for (kt, n, rid) in combos_plain:
            cs.append(mk(rng.choice(rep_plain), kt, n, rid))
        for (kt, n, rid) in combos_ele:
            cs.append(mk(rng.choice(rep_ele), kt, n, rid))
    streams["credential life cycle: all (protocol version, RoT key count 1..4, used index)"] = cs
    # ---- 3. irregular inputs (outside the quantifier or in a recorded class): creation may be refused, but whatever is
    #         created must still parse back and verify
    cs = []
    fp, fe = rep_plain[0], rep_ele[0]
    for f in ([fp, rng.choice(rep_plain)] + ([rng.choice(plain) for _ in range(6)] if thorough else [])):
        for kt in KTYPES:
            for ul in (0, 15, 17, 32):
                cs.append(mk(f, kt, 2, 1, uuid=bytes(rng.getrandbits(8) for _ in range(ul)).hex()))
        for rt, dk in [("r2048", "r4096_4"), ("r4096", "r2048_5"), ("p256", "p384_5"), ("p384", "p256_5"), ("p384", "p521_5"),
                       ("p521", "p256_5"), ("r2048", "p256_5"), ("p256", "r2048_5"), ("r2048", "r3072_0"), ("r2048", "r2048e3_0")]:
            cs.append(mk(f, rt, 2, 0, dck=dk))
        cs.append(mk(f, "r2048", 2, 0, keys=["r2048_0", "r4096_1"], rotk="r2048_0", dck="r2048_5"))
        cs.append(mk(f, "r2048", 2, 1, keys=["r2048_0", "r4096_1"], rotk="r4096_1", dck="r4096_4"))
        cs.append(mk(f, "p256", 2, 0, keys=["p256_0", "p384_1"], rotk="p256_0", dck="p256_5"))
        cs.append(mk(f, "p256", 2, 0, keys=["p256_0", "r2048_1"], rotk="p256_0", dck="p256_5"))
        cs.append(mk(f, "r2048", 2, 0, keys=["r2048_0", "p256_1"], rotk="r2048_0", dck="r2048_5"))
        cs.append(mk(f, "r2048", 1, 0, keys=["r2048e3_0"], rotk="r2048e3_0", dck="r2048_5"))
        cs.append(mk(f, "r2048", 1, 0, keys=["r3072_0"], rotk="r3072_0", dck="r2048_5"))
        for kt in ("r2048", "p256", "p521"):
            cs.append(mk(f, kt, 5, 0))
            cs.append(mk(f, kt, 2, 2))
            cs.append(mk(f, kt, 2, 0, rotk=f"{kt}_5", keys=[f"{kt}_0", f"{kt}_1"], dck=f"{kt}_2"))
            cs.append(mk(f, kt, 2, 1, socu=1 << 32))
            cs.append(mk(f, kt, 2, 1, beacon=(1 << 32) + 5))
            c = mk(f, kt, 2, 1)
            c["socc"] = f["socc"]
            c["family"] = None
            c["revision"] = None
            cs.append(c)
    for f in ([fe] + ([rng.choice(ele1) for _ in range(4)] if thorough else [])):
        for kt in KTYPES:
            for n in (1, 2, 3):
                cs.append(mk(f, kt, n, 0))
            cs.append(mk(f, kt, 4, 2, uuid="11" * 15))
        cs.append(mk(f, "p256", 4, 1, dck="p384_5"))
        cs.append(mk(f, "p384", 4, 1, dck="r2048_5"))
        cs.append(mk(f, "r2048", 4, 1, dck="p256_5"))
        cs.append(mk(f, "p256", 4, 0, keys=["p256_0", "p256_1", "p384_2", "p256_3"], rotk="p256_0", dck="p256_5"))
        cs.append(mk(f, "p256", 4, 3, keys=["p256_0", "p256_1", "p256_2", "r2048_3"], rotk="r2048_3", dck="r2048_5"))
    streams["credential life cycle: irregular inputs (wrong uuid length, mismatched DCK, mixed/too many keys, index out of range)"] = cs
    # ---- 4. responses
    cs = []
    fams_dar = [(rng.choice(rep_plain), kt, n, rid) for kt in KTYPES for (n, rid) in ((1, 0), (2, 1), (4, 2))] \
        + [(rng.choice(rep_ele), kt, 4, rid) for kt in KTYPES for rid in (0, 3)]
    if thorough:
        fams_dar += [(rng.choice(plain), kt, n, rid) for kt in KTYPES for n in (1, 2, 3, 4) for rid in range(n)]
        fams_dar += [(rng.choice(ele1), kt, 4, rid) for kt in KTYPES for rid in range(4)]
    for f, kt, n, rid in fams_dar:
        c = mk(f, kt, n, rid)
        c["op"] = "dar"
        c["dck_priv"] = c["dck"]
        u1, u2 = bytes(rng.getrandbits(8) for _ in range(16)), bytes(rng.getrandbits(8) for _ in range(16))
        ch = [bytes(rng.getrandbits(8) for _ in range(32)) for _ in range(3)] + [bytes(32), bytes([0xFF] * 32)]
        c["requests"] = [{"uuid": u1.hex(), "challenge": ch[0].hex(), "beacon": val32()},
                         {"uuid": u1.hex(), "challenge": ch[1].hex(), "beacon": val32()},
                         {"uuid": u2.hex(), "challenge": ch[0].hex(), "beacon": 0},
                         {"uuid": u2.hex(), "challenge": rng.choice(ch[3:]).hex(), "beacon": M32}]
        cs.append(c)
    streams["authentication responses: several challenges / device uuids / beacons per credential"] = cs
    # ---- 5. EdgeLock container version 2 (AHAB certificate): outside the Coq model, spec oracles only
    cs = []
    for f in ele2:
        for kt in (KTYPES if thorough else ["p256", "p384", "p521", "r2048"]):
            for k in range(3 if thorough else 1):
                ids = list(range(5))
                rng.shuffle(ids)
                uu = bytes([rng.randrange(1, 256)] + [rng.getrandbits(8) for _ in range(15)])   # value_to_bytes drops leading zero bytes
                cs.append({"op": "dc", "v2": 1, "family": f["family"], "revision": f["revision"], "keys": [f"{kt}_{ids[0]}"], "rot_id": 0,
                           "rotk": f"{kt}_{ids[0]}", "dck": f"{kt}_{ids[1]}", "uuid": uu.hex(), "socu": val32(), "vu": 0, "beacon": 0,
                           "fuse_version": rng.choice([0, 1, 255])})
        # uuids with leading zero bytes (the configuration gives the uuid as a number)
        for uu in (bytes(15) + b"\x01", bytes(4) + bytes(rng.getrandbits(8) | 1 for _ in range(12)), bytes([0]) + bytes(rng.getrandbits(8) | 1 for _ in range(15)),
                   bytes(16)):
            cs.append({"op": "dc", "v2": 1, "family": f["family"], "revision": f["revision"], "keys": ["p256_0"], "rot_id": 0, "rotk": "p256_0",
                       "dck": "p256_1", "uuid": uu.hex(), "socu": val32(), "vu": 0, "beacon": 0, "fuse_version": 0})
    streams["EdgeLock container-v2 credentials (AHAB certificate): life cycle, exact correspondence + spec oracles"] = cs
    # ---- 6. object history: the SAME object exported twice, re-signed, changed through its public members and exported again
    cs = []
    for rep_i in range(3 if thorough else 1):
        plan = [(rng.choice(rep_plain), kt, 0) for kt in KTYPES] + [(rng.choice(rep_ele), kt, 0) for kt in ("p256", "p384", "r2048")] \
            + [(rng.choice([f for f in ele2 if f["latest"]] or ele2), kt, 1) for kt in ("p256", "r2048")]
        for f, kt, v2 in plan:
            n1 = 4 if f["ele"] else rng.choice([1, 2, 3, 4])
            n2 = 4 if f["ele"] else rng.choice([n for n in (1, 2, 3, 4) if n != n1])
            c = mk(f, kt, max(n1, n2), 0)
            keys = c["keys"]
            c.update({"op": "history", "keys": keys[:n1], "rotk": keys[0], "dck_priv": c["dck"]})
            if f["ele"] and not v2:
                c["flag_ca"] = 0
            ch = dict(c, keys=keys[:n2], uuid=uuid16(), socu=val32(), vu=val32(), beacon=val32())
            ch.pop("changed", None)
            if f["ele"] and not v2:
                ch["flag_ca"] = 1
            if v2:
                c.update({"v2": 1, "keys": keys[:1], "fuse_version": 1, "uuid": bytes([rng.randrange(1, 256)] + [rng.getrandbits(8) for _ in range(15)]).hex()})
                ch = dict(c, socu=val32())
            else:
                u1 = bytes(rng.getrandbits(8) for _ in range(16)).hex()
                c["requests"] = [{"uuid": u1, "challenge": bytes(rng.getrandbits(8) for _ in range(32)).hex(), "beacon": val32()},
                                 {"uuid": u1, "challenge": bytes(rng.getrandbits(8) for _ in range(32)).hex(), "beacon": val32()}]
            ch.pop("requests", None)
            c["changed"] = ch
            cs.append(c)
    streams["object history: export twice / re-sign / change public members, against a fresh object (credentials and responses)"] = cs
    # ---- 7. process history: the key files a configuration names are rewritten (key rotation) between creations in ONE interpreter
    cs = []
    fixed = [(rep_plain[0], "r2048", 1), (rep_plain[0], "r2048", 3), (rep_plain[-1], "r4096", 2), (rep_plain[0], "p256", 2),
             (rep_plain[-1], "p384", 4), (rep_plain[0], "p521", 3), (rep_ele[0], "p256", 4)]
    if thorough:
        fixed += [(rng.choice(rep_plain), kt, n) for kt in KTYPES for n in (1, 2, 3, 4)] + [(rng.choice(rep_ele), kt, 4) for kt in KTYPES]
    for f, kt, n in fixed:
        rid = n - 1
        a = [f"{kt}_{i}" for i in range(n)]
        b = [f"{kt}_{i}" for i in (1, 2, 3, 4)][:n]
        cs.append({"op": "rotation", "family": f["family"], "revision": f["revision"], "rot_id": rid, "uuid": uuid16(), "socu": val32(),
                   "vu": val32(), "beacon": val32(),
                   "sets": [{"keys": a, "rotk": a[rid], "dck": f"{kt}_4"}, {"keys": b, "rotk": b[rid], "dck": f"{kt}_0"}]})
    streams["process history: RoT / DCK / signing key files rewritten under the same paths between creations in one interpreter"] = cs
    return streams


def derived_streams(tier, rng, w, dc_cases, dc_results):
    """second round: byte-level inputs derived from credentials the implementation exported in the first round"""
    thorough = tier == "thorough"
    exports = []
    for c, r in zip(dc_cases, dc_results):
        if isinstance(r.get("export"), str) and not c.get("v2") and regular(c, w):
            exports.append((c, bytes.fromhex(r["export"])))
    streams = {}
    # ---- parse of damaged credentials
    seen, cs = set(), []
    pick = []
    for c, b in exports:
        key = (w.facts(c)["ele"], ktype(c["keys"][0]), len(c["keys"]) if thorough else 0)
        if key not in seen or (thorough and rng.random() < 0.15):
            seen.add(key)
            pick.append((c, b))
    soccs = sorted(w.soccs)
    for c, b in pick:
        light = (not thorough) and len(b) > 1500
        muts = [b, b + b"\xa5" * 7, b[:-1], b[:len(b) // 2], b[:28], b[:27], b[:4], b[:3], b"", b[:40], b[:36], b[:152]]
        if light:
            muts = muts[:4]
        for (ma, mi) in ([(1, 0), (2, 1), (3, 0)] if light else [(1, 0), (1, 1), (2, 0), (2, 1), (2, 2), (3, 0), (0, 2), (2, 3), (1, 2), (258, 0)]):
            muts.append(struct.pack("<2H", ma, mi) + b[4:])
        for s in rng.sample(soccs, (2 if light else 4) if not thorough else len(soccs)) + [0x12345678]:
            muts.append(b[:4] + struct.pack("<L", s) + b[8:])
        if b[:2] == b"\x02\x00":
            fl = struct.unpack_from("<L", b, 36)[0]
            for nf in (fl & 0x7FFFFFFF, fl & ~0xF0 | 0x50, fl & ~0xF0, fl & ~0xF00 | 0x400, fl | 0xF, fl & ~0xF0 | 0x10,
                       fl & ~0xFF0 | 0x20, fl & ~0xFF0 | 0x340):
                muts.append(b[:36] + struct.pack("<L", nf & M32) + b[40:])
            if w.facts(c)["ele"]:
                # SRK table / record headers: tag, length, version, record tag, algorithm, hash, key size id, flags, lengths
                for off, vals in ((40, (0xD7, 0)), (41, (0, 0xFF)), (43, (0x42, 0x43)), (44, (0xE1, 0xE2)), (47, (0x21, 0x27, 0x28, 0xD1, 0x29)),
                                  (48, (1, 3, 9)), (49, (1, 2, 5, 4, 0)), (51, (0x80, 1)), (52, (1, 0x21)), (45, (0, 1))):
                    for v in vals:
                        if b[off] != v:
                            muts.append(b[:off] + bytes([v]) + b[off + 1:])
        for m in muts:
            cs.append({"op": "parse", "data": m.hex()})
    streams["DebugCredentialCertificate.parse of truncated / re-versioned / re-classed / flag-damaged credentials"] = cs
    # ---- parse of damaged container-v2 credentials (AHAB certificate): header, permissions, offsets, record, data, signature
    cs = []
    seen2 = set()
    for c, r in zip(dc_cases, dc_results):
        if not (c.get("v2") and isinstance(r.get("export"), str)):
            continue
        key = (ktype(c["dck"]), 0 if not thorough else c["family"])
        if key in seen2:
            continue
        seen2.add(key)
        b = bytes.fromhex(r["export"])
        so = struct.unpack_from("<H", b, 4)[0]
        muts = [b, b + b"\x5a" * 5, b[:-1], b[:so + 8], b[:so + 7], b[:so], b[:116], b[:40], b[:39], b[:4], b""]
        for off, vals in ((0, (1, 3)), (1, (b[1] ^ 1, 0xFF)), (2, (0xFF,)), (3, (0xAE, 0)), (4, (b[4] ^ 4, 0)), (5, (1,)), (6, (b[6] ^ 1,)),
                          (7, (b[7] ^ 2, 0)), (8, (0, 0xFF)), (0x14, (7,)), (0x18, (0,)), (40, (0xE0,)), (41, (b[41] ^ 8, 0x4B)),
                          (43, (0x21, 0x27, 0xD1, 0x29)), (44, (1, 7, 9)), (45, (1, 2, 5, 4, 0)), (47, (0x80,)), (48, (1,)),
                          (52, (b[52] ^ 1,)), (116, (1,)), (117, (b[117] ^ 1, 3, 8, 11)), (119, (0x5C,)), (120, (1, 3)), (124, (b[124] ^ 1,)),
                          (so, (1,)), (so + 1, (b[so + 1] ^ 1, 7, 8)), (so + 3, (0xD7,)), (so + 8, (b[so + 8] ^ 1,))):
            for v in vals:
                if off < len(b) and b[off] != v:
                    muts.append(b[:off] + bytes([v & 0xFF]) + b[off + 1:])
        for m in muts:
            cs.append({"op": "parsev2", "data": m.hex()})
    streams["DebugCredentialCertificate.parse of damaged container-v2 credentials (AHAB certificate)"] = cs
    # ---- challenges
    cs = []
    for s in soccs + [0x77]:
        for (ma, mi) in [(1, 0), (1, 1), (2, 0), (2, 1), (2, 2), (0, 2), (1, 2), (3, 0)]:
            for hl in (32, 48, 64):
                body = struct.pack("<2HL16sL", ma, mi, s, bytes(rng.getrandbits(8) for _ in range(16)), rng.getrandbits(32)) \
                    + bytes(rng.getrandbits(8) for _ in range(hl)) + struct.pack("<3L", rng.getrandbits(32), rng.getrandbits(32), rng.getrandbits(32)) \
                    + bytes(rng.getrandbits(8) for _ in range(32))
                cs.append({"op": "dac", "data": body.hex()})
                if hl == 32:
                    cs.append({"op": "dac", "data": body[:rng.choice([0, 27, 28, 60, len(body) - 1])].hex()})
    streams["DebugAuthenticationChallenge.parse for every SOCC x version x hash width (+ truncations)"] = cs
    # ---- validate_against_dc
    cs = []
    byfam = {}
    for c, b in exports:
        byfam.setdefault((w.facts(c)["socc"], b[:4]), (c, b))
    for (socc, ver), (c, b) in sorted(byfam.items(), key=lambda kv: (kv[0][0], kv[0][1])):
        f = w.facts(c)
        amb = w.soccs[socc]
        ma, mi = struct.unpack("<2H", ver)
        hl = 32 if amb["ele"] else (48 if (ma == 2 and mi == 1 and not amb["sha256"]) else 64 if (ma == 2 and mi == 2 and not amb["sha256"]) else 32)
        for variant in (range(6) if (thorough or len(b) < 700) else (0, 2, 4)):
            vma, vmi = (ma, mi)
            uu = b[8:24]
            so = socc
            rk = None
            if variant == 1:
                uu = bytes(rng.getrandbits(8) for _ in range(16))
            if variant == 2:
                so = rng.choice([s for s in soccs if s != socc])
            if variant == 3:
                vma, vmi = rng.choice([v for v in [(1, 0), (1, 1), (2, 0), (2, 1), (2, 2)] if v != (ma, mi)])
            if variant == 4:
                rk = "good"
            if variant == 5:
                rk = "short"
            cs.append({"op": "validate", "family": f["family"], "dc": b.hex(), "_meta": {"variant": variant, "rk": rk, "hl": hl,
                       "ver": [vma, vmi], "socc": so, "uuid": uu.hex(), "swapped": amb["swapped"]}})
    streams["DebugAuthenticationChallenge.validate_against_dc (matching / foreign uuid, socc, version, RoT hash)"] = cs
    return streams


# ------------------------------------------------------------------------------------------------ spec oracles
def spec_layout(klass, rot_info, dck_info, n_keys, blob):
    """Field offsets of a credential as the DAT specification lays it out (independent of SPSDK's parser).
    -> dict name -> (start, end) or None when the blob cannot have this layout."""
    L = {"version": (0, 4), "socc": (4, 8), "uuid": (8, 24)}
    sl = sig_len(rot_info)
    if klass == 0:
        ks = rot_info["bits"] // 8 + 4
        L.update({"rot_meta": (24, 152), "dck": (152, 152 + ks), "socu": (152 + ks, 156 + ks), "vu": (156 + ks, 160 + ks),
                  "beacon": (160 + ks, 164 + ks), "rot_pub": (164 + ks, 164 + 2 * ks), "sig": (164 + 2 * ks, 164 + 2 * ks + sl)})
    else:
        L.update({"socu": (24, 28), "vu": (28, 32), "beacon": (32, 36)})
        if klass == 1:
            hl = hash_for(rot_info["bits"])().digest_size
            ml = 4 + (hl * n_keys if n_keys > 1 else 0)
            rl = 2 * cs_of(rot_info["bits"])
            dl = len(dc_key_blob(dck_info, 1))
            L.update({"rot_meta": (36, 36 + ml), "rot_pub": (36 + ml, 36 + ml + rl), "dck": (36 + ml + rl, 36 + ml + rl + dl),
                      "sig": (36 + ml + rl + dl, 36 + ml + rl + dl + sl)})
        else:
            if len(blob) < 44:
                return None
            tl = struct.unpack_from("<H", blob, 41)[0]
            ml = 4 + tl
            dl = len(dc_key_blob(dck_info, 2))
            L.update({"rot_meta": (36, 36 + ml), "dck": (36 + ml, 36 + ml + dl), "sig": (36 + ml + dl, 36 + ml + dl + sl)})
    if L["sig"][1] != len(blob):
        return None
    return L


def spec_rot_meta(klass, infos, rot_id, blob_meta):
    """What the RoT meta must contain for the key set (None = no independent statement)."""
    if klass == 0:
        t = b"".join(rkh_spec(i) for i in infos)
        return t + bytes(128 - len(t))
    flags = struct.pack("<L", 0x80000000 | (rot_id << 8) | (len(infos) << 4))
    if klass == 1:
        return flags + (b"".join(rkh_spec(i) for i in infos) if len(infos) > 1 else b"")
    # EdgeLock: flags + AHAB SRK table holding the four keys (record = 12-byte header + key numbers)
    if blob_meta[:4] != flags:
        return None
    t = blob_meta[4:]
    if len(t) < 4 or t[0] != 0xD7 or t[3] != 0x42 or struct.unpack_from("<H", t, 1)[0] != len(t):
        return None
    off = 4
    for i in infos:
        kb = (i["n"].to_bytes(i["bits"] // 8, "big") + i["e"].to_bytes(4, "big")) if i["k"] == "rsa" else key_blob_min(i)
        if t[off] != 0xE1 or struct.unpack_from("<H", t, off + 1)[0] != 12 + len(kb) or t[off + 12:off + 12 + len(kb)] != kb:
            return None
        off += 12 + len(kb)
    return blob_meta if off == len(t) else None


def oracle_dc(case, r, w):
    """-> list of (signature, message)"""
    out = []
    f = w.facts(case)
    kc = known_class(case, w)
    tag = kc or "regular"
    reg = regular(case, w)

    def bad(issue, msg):
        out.append((f"dc:{tag}:{issue}", f"{msg} [family {case.get('family') or hex(case.get('socc', 0))} rev {case.get('revision')} "
                    f"keys {case['keys']} rot_id {case['rot_id']} dck {case['dck']} uuid {case['uuid']}]"))

    for step in ("create", "sign", "export", "parse", "hash"):
        v = r.get(step)
        if isinstance(v, dict) and v.get("err") == 3:
            bad("hang", f"{step} does not terminate")
    c = r["create"]
    if "err" in c:
        if reg:
            bad("rejects-valid", f"create_from_yaml_config refuses a regular configuration ({c.get('exc')})")
        return out
    if isinstance(r["sign"], dict):
        if reg:
            bad("rejects-valid", f"sign() fails on a regular configuration ({r['sign'].get('exc')})")
        return out
    ex = r["export"]
    if isinstance(ex, dict):
        if reg:
            bad("rejects-valid", f"export() fails on a regular configuration ({ex.get('exc')})")
        return out
    blob = bytes.fromhex(ex)
    # (a) whatever SPSDK created must parse back to equal field values
    p = r["parse"]
    if "err" in p:
        bad("roundtrip", f"the credential SPSDK exported ({len(blob)} bytes) cannot be parsed back: {p.get('exc')}")
    else:
        cf, pf = c, p["fields"]
        diff = [k for k in ("cls", "major", "minor", "socc", "uuid", "socu", "vu", "beacon", "rot_meta", "dck", "rot") if cf.get(k) != pf.get(k)]
        if pf.get("sig") != r.get("sig"):
            diff.append("sig")
        if diff or p["eq"] is not True or p["reexport"] != ex:
            bad("roundtrip", f"parse(export(dc)) differs from dc in {diff or 'equality/re-export'}")
    if not (0 <= case["rot_id"] < len(case["keys"])):
        return out
    infos = [w.pool[k] for k in case["keys"]]
    rot_info, dck_info = infos[case["rot_id"]], w.pool[case["dck"]]
    klass = KLASS.get(c["cls"])
    if klass is None:
        bad("class", f"unexpected credential class {c['cls']}")
        return out
    if not reg:
        # irregular but created: signature over everything in front of it must still verify under the RoT key
        sl = sig_len(rot_info)
        if not verify_sig(rot_info, blob[:-sl], blob[-sl:], f["pss"]):
            bad("signature", "signature does not verify under the RoT key over all preceding bytes")
        return out
    # ---- regular inputs: full statement
    want_class = 2 if f["ele"] else (0 if rot_info["k"] == "rsa" else 1)
    if klass != want_class or (c["major"], c["minor"]) != VERSION_OF[ktype(case["keys"][0])]:
        bad("class", f"class {c['cls']} version {c['major']}.{c['minor']} for {case['keys'][0]}")
    L = spec_layout(klass, rot_info, dck_info, len(infos), blob)
    if L is None:
        bad("layout", f"exported credential ({len(blob)} bytes) does not have the documented layout")
        return out
    g = lambda name: blob[L[name][0]:L[name][1]]
    want = {"version": struct.pack("<2H", *VERSION_OF[ktype(case["keys"][0])]), "socc": struct.pack("<L", f["socc"]),
            "uuid": bytes.fromhex(case["uuid"]), "socu": struct.pack("<L", case["socu"]), "vu": struct.pack("<L", case["vu"]),
            "beacon": struct.pack("<L", case["beacon"]), "dck": dc_key_blob(dck_info, klass)}
    if klass != 2:
        want["rot_pub"] = dc_key_blob(rot_info, klass)
    sm = spec_rot_meta(klass, infos, case["rot_id"], g("rot_meta"))
    if not (rot_info["k"] == "rsa" and rot_info["e"].bit_length() > 24):
        want["rot_meta"] = sm
    for name, val in want.items():
        if val is None or g(name) != val:
            bad("field:" + name, f"field {name} at {L[name]} is {g(name).hex()[:80]}, specified {val.hex()[:80] if val else None}")
    # (b) the signature verifies under the RoT key it names, over ALL preceding bytes (every field lies in that range)
    s0 = L["sig"][0]
    if max(e for k, (s, e) in L.items() if k != "sig") != s0:
        bad("signed-range", "fields do not end where the signature starts")
    if not verify_sig(rot_info, blob[:s0], blob[s0:], f["pss"]):
        bad("signature", f"signature does not verify under RoT key #{case['rot_id']} over bytes [0,{s0})")
    for j, other in enumerate(infos):
        if j != case["rot_id"] and other != rot_info and verify_sig(other, blob[:s0], blob[s0:], f["pss"]):
            bad("signature", f"signature verifies under RoT key #{j}, not the named one")
    if len(blob) > 40 and verify_sig(rot_info, blob[:s0 - 1] + bytes([blob[s0 - 1] ^ 1]), blob[s0:], f["pss"]):
        bad("signature", "signature still verifies after the last signed byte is changed")
    # (c) the RoT hash: a function of the RoT meta inside the credential, and the value the image tools give (C03)
    h = r["hash"]
    spec = rot_spec(infos)
    if isinstance(h, dict):
        if spec is not None and klass != 2:
            bad("rot-hash", f"calculate_hash fails ({h.get('exc')})")
    else:
        hb = bytes.fromhex(h)
        meta = g("rot_meta")
        if klass == 0:
            bound = hashlib.sha256(meta).digest()
        elif klass == 2:
            bound = hashlib.sha256(meta[4:]).digest()
        else:
            bound = hash_for(rot_info["bits"])(meta[4:] if len(infos) > 1 else g("rot_pub")).digest()
        if hb != bound:
            bad("rot-hash", f"calculate_hash {h[:32]} is not the hash of the RoT meta / key inside the credential")
        if spec is not None and klass != 2 and hb != spec:
            bad("rot-hash", f"calculate_hash {h[:32]} differs from the image-tool value {spec.hex()[:32]} for the same keys")
    return out


def oracle_dcv2(case, r, w):
    """EdgeLock container version 2: the credential is an AHAB certificate (documented layout: header, signature offset,
    permissions, 96-bit permission data = SoC class | SoC usage | beacon, fuse version, uuid, DCK record, signature)."""
    out = []
    f = w.facts(case)

    # input class of the repaired defect C15-F6 (a uuid with four or more leading zero bytes): names the signature only
    tag = "uuid-leading-zeros:" if len(uuid_shortest_aligned(case["uuid"])) != 16 else ""

    def bad(issue, msg):
        out.append((f"dcv2:{tag}{issue}", f"{msg} [family {case['family']} rev {case['revision']} signer {case['rotk']} dck {case['dck']} "
                    f"uuid {case['uuid']} socu {case['socu']}]"))
    for step in ("create", "sign", "export"):
        v = r.get(step)
        if isinstance(v, dict) and "err" in v:
            bad("hang" if v.get("err") == 3 else "rejects-valid", f"{step} fails on a regular configuration ({v.get('exc')})")
            return out
    b = bytes.fromhex(r["export"])
    p = r["parse"]
    if "err" in p:
        bad("roundtrip", f"the exported credential cannot be parsed back ({p.get('exc')})")
    else:
        diff = [k for k in ("cls", "socc", "socu", "beacon", "uuid", "perm", "perm_data", "fuse") if p["fields"].get(k) != r["create"].get(k)]
        if diff or p["eq"] is not True or p["reexport"] != r["export"]:
            bad("roundtrip", f"parse(export(dc)) differs from dc in {diff or 'equality/re-export'}")
    if len(b) < 0x28 or b[0] != 2 or b[3] != 0xAF or struct.unpack_from("<H", b, 1)[0] != len(b):
        bad("layout", "not an AHAB certificate of the exported length")
        return out
    so = struct.unpack_from("<H", b, 4)[0]
    if b[6] != (~b[7] & 0xFF) or not (b[7] & 0x02):
        bad("field:permissions", f"permissions {b[7]:#x} / inverted {b[6]:#x}: debug permission missing or not inverted")
    want_pd = struct.pack("<LLL", f["socc"], case["socu"], 0)
    if b[8:12] != want_pd[:4]:
        bad("field:socc", f"SoC class in the permission data is {b[8:12].hex()}, the family's SOCC is {want_pd[:4].hex()}")
    if b[12:20] != want_pd[4:]:
        bad("field:socu", f"SoC usage / beacon in the permission data are {b[12:20].hex()}, specified {want_pd[4:].hex()}")
    if b[0x14] != case.get("fuse_version", 0):
        bad("field:fuse_version", f"fuse version {b[0x14]}")
    if b[0x18:0x28] != bytes.fromhex(case["uuid"]):
        bad("field:uuid", f"uuid {b[0x18:0x28].hex()}")
    dck, signer = w.pool[case["dck"]], w.pool[case["rotk"]]
    kb = (dck["n"].to_bytes(dck["bits"] // 8, "big")) if dck["k"] == "rsa" else key_blob_min(dck)
    if not (0x28 < so <= len(b)) or kb not in b[0x28:so]:
        bad("field:dck", "the DCK numbers are not inside the signed part of the certificate")
        return out
    sc = b[so:]
    sl = sig_len(signer)
    if len(sc) != 8 + sl or sc[3] != 0xD8 or struct.unpack_from("<H", sc, 1)[0] != len(sc):
        bad("layout", f"signature container of {len(sc)} bytes at {so:#x}")
        return out
    if not verify_sig(signer, b[:so], sc[8:], True):
        bad("signature", f"signature does not verify under the signing (SRK) key over bytes [0,{so:#x})")
    elif verify_sig(signer, b[:so - 1] + bytes([b[so - 1] ^ 1]), sc[8:], True):
        bad("signature", "signature still verifies after the last signed byte is changed")
    return out


def info_of_pem(text):
    """public numbers of a key file, read here with `cryptography` (not through SPSDK)"""
    from cryptography.hazmat.primitives import serialization as ser
    from cryptography.hazmat.primitives.asymmetric import rsa as _rsa
    try:
        k = ser.load_pem_public_key(text.encode())
        nums = k.public_numbers()
    except Exception as ex:  # noqa
        raise HarnessError(f"cannot read a key file snapshot: {ex!r}") from ex
    if isinstance(k, _rsa.RSAPublicKey):
        return {"k": "rsa", "bits": nums.n.bit_length(), "n": nums.n, "e": nums.e}
    return {"k": "ecc", "bits": k.curve.key_size, "x": nums.x, "y": nums.y}


class Overlay:
    """a World whose key pool is extended by the keys found in file snapshots"""
    def __init__(self, w, extra):
        self.__dict__.update(w.__dict__)
        self.pool = dict(w.pool, **extra)
        self._w = w

    def facts(self, case):
        return self._w.facts(case)


def oracle_rotation(case, r, w):
    """Every creation must describe the keys that are in the files AT THAT MOMENT: RoT table entries / RoT hash are the
    digests of the current key files (hashlib over the numbers read from the file snapshots), the RoT key and the DCK inside
    the credential are the current ones, and the signature verifies under the current RoT key."""
    out = []
    history = []
    for i, st in enumerate(r["rotation"]):
        history.append(f"{i}: {st['op']}")
        extra, names = {}, []
        n = len(case["sets"][0]["keys"])
        for j in range(n):
            info = info_of_pem(st["files"][f"rot{j}.pub"])
            name = ("r%d" if info["k"] == "rsa" else "p%d") % info["bits"] + f"_file{j}s{i}"
            extra[name] = info
            names.append(name)
        dinfo = info_of_pem(st["files"]["dck.pub"])
        dname = ("r%d" if dinfo["k"] == "rsa" else "p%d") % dinfo["bits"] + f"_filedcks{i}"
        extra[dname] = dinfo
        c2 = {"op": "dc", "family": case["family"], "revision": case["revision"], "keys": names, "rot_id": case["rot_id"],
              "rotk": names[case["rot_id"]], "dck": dname, "uuid": case["uuid"], "socu": case["socu"], "vu": case["vu"],
              "beacon": case["beacon"]}
        for sig, msg in oracle_dc(c2, st["out"], Overlay(w, extra)):
            out.append(("history:stale-key-files:" + sig.split(":", 2)[2] + f"@creation{i}",
                        f"creation {i} does not describe the keys currently in the files: {msg}; history: {' | '.join(history)}"))
    return out


def oracle_history(case, r, w):
    """A second export of the same object is an export: identical where the output is deterministic, otherwise identical
    outside the signature and still verifying; after a change through public members it must equal a fresh object's export."""
    out = []
    h = r["history"]
    f = w.facts(case)
    pss = True if case.get("v2") else f["pss"]

    def bad(kind, what, msg):
        out.append((f"history:{kind}:{what}", f"{msg} [family {case['family']} rev {case['revision']} keys {case['keys']} dck {case['dck']}; "
                    f"operations: {' ; '.join(h.get('ops', []))}]"))
    if "err" in h:
        bad("second-export-differs", "raises-" + str(h.get("exc")), "the operation sequence on one object fails")
        return out
    B = {k: bytes.fromhex(v) for k, v in h.items() if isinstance(v, str)}
    signer = w.pool[case["rotk"]]
    det_sig = signer["k"] == "rsa" and not pss

    def split(b):
        """-> (deterministic part, signed message, signature)"""
        if case.get("v2"):
            so = struct.unpack_from("<H", b, 4)[0]
            return b[:so + 8], b[:so], b[so + 8:]
        sl = sig_len(signer)
        return b[:-sl], b[:-sl], b[-sl:]

    def same_export(x, y):
        dx, mx, sx = split(x)
        dy, my, sy = split(y)
        if det_sig:
            return x == y
        return dx == dy and verify_sig(signer, my, sy, pss)
    if B["e1b"] != B["e1"]:
        bad("second-export-differs", "credential-export-repeated", "export() called twice without re-signing gives different bytes")
    if not same_export(B["e1"], B["e2"]):
        bad("second-export-differs", "credential-after-resign", "sign() + export() a second time: deterministic part differs or the signature no longer verifies")
    if not verify_sig(signer, split(B["fresh"])[1], split(B["fresh"])[2], pss):
        bad("second-export-differs", "fresh-object", "the fresh comparison object does not verify")
    elif not same_export(B["fresh"], B["changed"]):
        k = next((i for i, (x, y) in enumerate(zip(B["fresh"], B["changed"])) if x != y), min(len(B["fresh"]), len(B["changed"])))
        bad("stale-after-change", "credential", f"after changing public members and re-signing the export ({len(B['changed'])} bytes) differs from a "
            f"fresh object's ({len(B['fresh'])} bytes) at offset {k} or does not verify")
    if "r1" in B:
        dck = w.pool[case["dck"]]
        sl = sig_len(dck)
        det2 = dck["k"] == "rsa" and not f["pss"]
        ch1, ch2 = (bytes.fromhex(q["challenge"]) for q in case["requests"])
        if B["r1b"][:-sl] != B["r1"][:-sl] or (det2 and B["r1b"] != B["r1"]) or not verify_sig(dck, B["r1b"][:-sl] + ch1, B["r1b"][-sl:], f["pss"]):
            bad("second-export-differs", "response", "the second export() of one response object differs outside the signature or does not verify")
        rc, rf = B["r_changed"], B["r_fresh"]
        if rc[:-sl] != rf[:-sl] or (det2 and rc != rf) or not verify_sig(dck, rc[:-sl] + ch2, rc[-sl:], f["pss"]):
            bad("stale-after-change", "response", "after assigning another challenge/beacon the response differs from a fresh object's or does not "
                "verify for the new challenge")
        if verify_sig(dck, rc[:-sl] + ch1, rc[-sl:], f["pss"]):
            bad("stale-after-change", "response-signed-for-old-challenge", "the response exported after the change still verifies for the previous challenge")
    return out


def oracle_dar(case, r, w):
    out = []
    if not regular(case, w) or not isinstance(r.get("export"), str):
        return out
    f = w.facts(case)
    dcb = bytes.fromhex(r["export"])
    dck = w.pool[case["dck"]]
    ecc_proto = VERSION_OF[ktype(case["keys"][0])][0] == 2
    sl = sig_len(dck)

    def bad(issue, msg):
        out.append((f"dar:{known_class(case, w) or 'regular'}:{issue}", f"{msg} [family {case['family']} rev {case['revision']} keys {case['keys']} dck {case['dck']}]"))

    resp = r.get("responses", [])
    if len(resp) != len(case["requests"]):
        bad("missing", "no response produced")
        return out
    good = []
    for rq, rs in zip(case["requests"], resp):
        if isinstance(rs, dict):
            bad("rejects-valid", f"response creation/export failed: {rs.get('exc')}")
            continue
        b = bytes.fromhex(rs[1])
        uu, ch = bytes.fromhex(rq["uuid"]), bytes.fromhex(rq["challenge"])
        common = dcb + struct.pack("<L", rq["beacon"]) + (uu if ecc_proto else b"")
        if b[:len(dcb)] != dcb:
            bad("embeds-dc", "the response does not start with the credential")
        elif b[len(dcb):len(dcb) + 4] != struct.pack("<L", rq["beacon"]):
            bad("embeds-beacon", "the authentication beacon does not follow the credential")
        elif b[:len(common)] != common or len(b) != len(common) + sl:
            bad("layout", f"response is {len(b)} bytes, specified credential+beacon{'+uuid' if ecc_proto else ''}+signature = {len(common) + sl}")
        else:
            sig = b[len(common):]
            if not verify_sig(dck, common + ch, sig, f["pss"]):
                bad("signature", "response signature does not verify under the DCK over credential|beacon|[uuid]|challenge")
            else:
                good.append((rq, common, sig))
    # negatives: a response never verifies for another challenge / uuid / credential / beacon
    for (rq, common, sig) in good:
        ch = bytes.fromhex(rq["challenge"])
        for (rq2, common2, sig2) in good:
            ch2 = bytes.fromhex(rq2["challenge"])
            if (common2 + ch2) != (common + ch) and verify_sig(dck, common2 + ch2, sig, f["pss"]):
                bad("cross-verifies", f"response for challenge {rq['challenge'][:16]} verifies for {rq2['challenge'][:16]}/uuid {rq2['uuid'][:8]}")
        flip = bytes([ch[0] ^ 0x80]) + ch[1:]
        if verify_sig(dck, common + flip, sig, f["pss"]):
            bad("cross-verifies", "response verifies for a challenge differing in one bit")
        other_dc = dcb[:30] + bytes([dcb[30] ^ 1]) + dcb[31:]
        if verify_sig(dck, other_dc + common[len(dcb):] + ch, sig, f["pss"]):
            bad("cross-verifies", "response verifies with a different credential in front")
        if ecc_proto:
            u2 = bytes([common[len(dcb) + 4] ^ 1]) + common[len(dcb) + 5:]
            if verify_sig(dck, common[:len(dcb) + 4] + u2 + ch, sig, f["pss"]):
                bad("cross-verifies", "response verifies for a different device uuid")
    return out


def spec_dac(data, w):
    """documented challenge layout -> fields or None (too short / unknown SOCC / invalid version)"""
    if len(data) < 28:
        return None
    ma, mi, socc, uu, rev = struct.unpack_from("<2HL16sL", data, 0)
    amb = w.soccs.get(socc)
    if amb is None:
        return None
    hl = 32 if amb["ele"] else (48 if (ma == 2 and mi == 1 and not amb["sha256"]) else 64 if (ma == 2 and mi == 2 and not amb["sha256"]) else 32)
    if len(data) < 28 + hl + 12 + 32:
        return None
    if amb["swapped"]:
        ma, mi = mi, ma
    if (ma, mi) not in [(1, 0), (1, 1), (2, 0), (2, 1), (2, 2)]:
        return None
    rk = data[28:28 + hl]
    pin, dfl, vu = struct.unpack_from("<3L", data, 28 + hl)
    ch = data[28 + hl + 12:28 + hl + 44]
    return {"major": ma, "minor": mi, "socc": socc, "uuid": uu.hex(), "revocation": rev, "rkth": rk.hex(), "pinned": pin,
            "default": dfl, "vu": vu, "challenge": ch.hex()}


# ------------------------------------------------------------------------------------------------ model expressions
def lit(v):
    """vlib.coq_lit, with long byte strings as big-endian 128-byte chunks: VBytes (bx [0x..%N; ...] last)"""
    t, x = v
    if t == "b" and len(x) > 48:
        chunks = [x[i:i + 128] for i in range(0, len(x), 128)]
        return "VBytes (bx [" + "; ".join("0x" + c.hex() + "%N" for c in chunks) + f"] {len(chunks[-1])})"
    if t == "l":
        return "VList [" + "; ".join("(" + lit(y) + ")" for y in x) + "]"
    return vlib.coq_lit(v)


def uuid_bytes_v2(hexstr):
    """what AhabCertificate.load_from_config makes of the configured uuid: value_to_bytes("0x...", byte_cnt=16) = the integer as a
    16-byte big-endian field (leading zero bytes kept)"""
    return int(hexstr, 16).to_bytes(16, "big")


def uuid_shortest_aligned(hexstr):
    """the shortest aligned form (1, 2, 4, 8, 12, 16 bytes) value_to_bytes() returns without byte_cnt: only used to NAME the input
    class of the repaired defect C15-F6 (uuid with four or more leading zero bytes)"""
    v = int(hexstr, 16)
    n = max(1, (v.bit_length() + 7) // 8)
    if n > 2:
        n = (n + 3) // 4 * 4
    return v.to_bytes(n, "big")


def cert_value_from_impl(f):
    """impl fields of a container-v2 credential -> the value DatV2Model.val_of_cert prints"""
    pk, pkd = f["pk"], f["pkd"]
    return VL([VI(f["len"]), VI(f["sig_off"]), VI(f["perm"]), hexb(f["perm_data"]), VI(f["fuse"]), hexb(f["uuid"]), VI(f["socc"]),
               VI(f["socu"]), VI(f["beacon"]), VL([VI(pk[0]), VI(pk[1]), VI(pk[2]), VI(pk[3]), VI(pk[4]), hexb(pk[5])]),
               VL([VI(pkd[0]), VI(pkd[1]), hexb(pkd[2])]), VI(f["sig_len"]), hexb(f["sig"]),
               VE(f["key"]["err"]) if isinstance(f["key"], dict) else key_from_impl(f["key"])])


def dcv2_expr(case, r, w):
    f = w.facts(case)
    sig = bytes.fromhex(r.get("sig") or "") if isinstance(r.get("sign"), str) else b""
    args = [VI(f["socc"]), VI(case["socu"]), VB(uuid_bytes_v2(case["uuid"])), VI(case.get("fuse_version", 0)),
            key_lit(w.pool[case["dck"]]), VB(sig)]
    return "run_case_v2 1 [" + "; ".join(lit(a) for a in args) + "]"


def dcv2_compare(case, r, mv):
    """exact correspondence of the container-v2 life cycle: exported bytes, parsed object, equality, re-export"""
    c = r["create"]
    if "err" in c:
        return mv == VE(c["err"]), f"create: impl error {c['err']} model {str(mv)[:80]}"
    if mv[0] != "l" or len(mv[1]) != 4:
        return False, f"model {str(mv)[:120]}"
    _obj, mex, mflag, mparse = mv[1]
    ex = r["export"]
    iex = VE(ex["err"]) if isinstance(ex, dict) else hexb(ex)
    if iex != mex:
        return False, "export: " + str(first_diff(iex, mex))
    if isinstance(ex, str) and mflag != VI(1):
        return False, "the signed message of the model is not the exported prefix of length signature_offset"
    if isinstance(ex, dict):
        return True, ""
    p = r["parse"]
    if "err" in p:
        ip = VE(p["err"])
    else:
        ip = VL([cert_value_from_impl(p["fields"]), e_or(p["eq"], lambda b: VI(int(b))), cmp_b(ex, p["reexport"])])
    return ip == mparse, "parse: " + str(first_diff(ip, mparse) if ip[0] == mparse[0] else (str(ip)[:100], str(mparse)[:100]))


def dc_expr(case, r, w):
    f = w.facts(case)
    sig = bytes.fromhex(r.get("sig") or "") if isinstance(r.get("sign"), str) else b""
    args = [VI(int(f["ele"])), VI(f["cnt"]), VI(f["socc"]), VL([key_lit(w.pool[k]) for k in case["keys"]]), VI(case["rot_id"]),
            key_lit(w.pool[case["dck"]]), VB(bytes.fromhex(case["uuid"])), VI(case["socu"]), VI(case["vu"]), VI(case["beacon"]),
            VI(int(bool(case.get("flag_ca", 0)))), VB(sig)]
    return "run_case 1 [" + "; ".join(lit(a) for a in args) + "]"


def run(tier):
    rep = vlib.Report(PID, tier)
    rng = vlib.Rng(vlib.seed())
    os.makedirs(TMPDIR, exist_ok=True)
    # (T1) regenerate layouts / tables / database facts from the current source
    gen = None
    try:
        gen = regen_c15.regen()
        rep.obligation("translate:spsdk/dat formats, version tables, database facts -> Gen/GenDat.v", True)
    except Exception as ex:  # noqa
        rep.obligation("translate:spsdk/dat formats, version tables, database facts -> Gen/GenDat.v", False, repr(ex))
    # (P) proofs
    model_ok, mlog = vlib.coq_make(["Model/DatModel.vo", "Model/DatV2Model.vo"])
    if not model_ok:
        rep.obligation("build:Model/DatModel.vo (layouts of the model = layouts extracted from the source)", False, mlog)
    vlib.check_theorems(rep, PID, THEOREMS, ["Proofs/DatProofs.vo", "Proofs/DatCreateProofs.vo", "Proofs/DatHashProofs.vo",
                                            "Proofs/DatEleProofs.vo", "Proofs/DatV2Proofs.vo"])
    if tier == "thorough":
        vlib.coqchk(rep, PID, THEOREMS)
    vlib.audit(rep)
    # database facts for the generators / oracles: from the extraction when it worked, else straight from the implementation
    def harness_stop(what, ex):
        rep.obligation("harness:" + what, False, repr(ex))
        return rep.finish(rule="the run stopped on a harness problem before any case was evaluated",
                          trusted_base=["this is a failure of the check's own tooling, not a statement about the property"],
                          checker_cmd="")
    try:
        pool = c15_keys.load_pool(KEYDIR)
    except Exception as ex:  # noqa
        return harness_stop("committed key fixture tools/props/c15.keys.json loads", ex)
    try:
        db = gen["db"] if gen else vlib.run_impl("c15_impl.py", {"mode": "extract", "keydir": KEYDIR}, timeout=900)
    except Exception as ex:  # noqa
        return harness_stop("implementation runner delivers the database facts", ex)
    w = World(db, pool)
    streams = gen_cases(tier, rng, w)
    flat, owner = [], []
    for name, cs in streams.items():
        for c in cs:
            flat.append(c)
            owner.append(name)

    def run_impl_chunks(cases, chunk=40):
        """the implementation subprocesses run a few at a time (each case costs 0.1-0.3 s of key loading and signing)"""
        from concurrent.futures import ThreadPoolExecutor
        parts = [[{k: v for k, v in c.items() if not k.startswith("_")} for c in cases[i:i + chunk]]
                 for i in range(0, len(cases), chunk)]
        with ThreadPoolExecutor(max_workers=6) as ex:
            outs = list(ex.map(lambda part: vlib.run_impl("c15_impl.py", {"mode": "cases", "keydir": KEYDIR, "tmpdir": TMPDIR, "cases": part},
                                                          timeout=3000)["results"], parts))
        return [r for o in outs for r in o]
    t_impl = time.time()
    try:
        impl = run_impl_chunks(flat)
    except Exception as ex:  # noqa
        return harness_stop("implementation runner (tools/impl/c15_impl.py) completes the first-round cases", ex)
    vlib.log(f"  implementation: {len(flat)} first-round cases in {time.time() - t_impl:.1f} s")
    # second round: inputs derived from exported credentials
    d2 = derived_streams(tier, rng, w, flat, impl)
    # challenge bytes for validate cases need the credential's own hash: build them now
    for name, cs in d2.items():
        for c in cs:
            if c["op"] == "validate":
                m = c["_meta"]
                dcb = bytes.fromhex(c["dc"])
                # RoT hash as the implementation reports it for this credential (first-round result)
                h = None
                for cc, rr in zip(flat, impl):
                    if rr.get("export") == c["dc"] and isinstance(rr.get("hash"), str):
                        h = bytes.fromhex(rr["hash"])
                        break
                rk = bytes(rng.getrandbits(8) for _ in range(m["hl"]))
                if m["rk"] == "good" and h:
                    rk = (h + bytes(64))[:m["hl"]]
                if m["rk"] == "short" and h:
                    rk = h[:16]
                ver = m["ver"][::-1] if m["swapped"] else m["ver"]
                body = struct.pack("<2HL16sL", ver[0], ver[1], m["socc"], bytes.fromhex(m["uuid"]), 0) + rk \
                    + struct.pack("<3L", 1, 2, 3) + bytes(rng.getrandbits(8) for _ in range(32))
                c["dac"] = body.hex()
    flat2, owner2 = [], []
    for name, cs in d2.items():
        for c in cs:
            flat2.append(c)
            owner2.append(name)
    t_impl = time.time()
    try:
        impl2 = run_impl_chunks(flat2, chunk=600)
    except Exception as ex:  # noqa
        return harness_stop("implementation runner (tools/impl/c15_impl.py) completes the derived cases", ex)
    vlib.log(f"  implementation: {len(flat2)} derived cases in {time.time() - t_impl:.1f} s")
    streams.update(d2)
    flat += flat2
    owner += owner2
    impl += impl2

    # ---- property oracles on the implementation's outputs
    nviol = 0
    oracle_failures = []
    for c, r in zip(flat, impl):
        hits = []
        try:
            if c["op"] in ("dc", "dar") and c.get("v2"):
                hits += oracle_dcv2(c, r, w)
            elif c["op"] in ("dc", "dar"):
                hits += oracle_dc(c, r, w)
            if c["op"] == "dar":
                hits += oracle_dar(c, r, w)
            if c["op"] == "history":
                hits += oracle_history(c, r, w)
            if c["op"] == "rotation":
                hits += oracle_rotation(c, r, w)
        except Exception as ex:  # noqa  (HarnessError or a bug of the oracle itself: not a statement about SPSDK)
            oracle_failures.append(f"{type(ex).__name__}: {ex} on case {str({k: v for k, v in c.items() if k not in ('requests',)})[:200]}")
            hits = []
        if c["op"] == "dac":
            want = spec_dac(bytes.fromhex(c["data"]), w)
            got = r["dac"]
            if isinstance(got, dict) and got.get("err") == 3:
                hits.append(("dac:hang", "DebugAuthenticationChallenge.parse does not terminate"))
            elif want is not None:
                if "err" in got:
                    hits.append(("dac:rejects-valid", f"well-formed challenge refused ({got.get('exc')}): {c['data'][:60]}"))
                elif any(got[k] != v for k, v in want.items()):
                    hits.append(("dac:fields", f"challenge fields differ from the documented layout: {c['data'][:60]}"))
        for sig, msg in hits:
            nviol += 1
            rep.failing(sig, "implementation violates C15: " + msg,
                        {"kind": "impl-oracle", "case": {k: v for k, v in c.items() if not k.startswith("_")}, "impl_result": r,
                         "keydir": KEYDIR, "keys": {k: {kk: (hex(vv) if isinstance(vv, int) and vv > 1 << 32 else vv) for kk, vv in w.pool[k].items()}
                                                    for k in set(c.get("keys", []) + ([c["dck"]] if "dck" in c else []))},
                         "how": "tools/impl/c15_impl.py mode=cases with this case"})

    rep.obligation("harness:spec oracles and their tools (cryptography verifier, layout decoders) ran without failure",
                   not oracle_failures, f"{len(oracle_failures)} failures; first: " + "; ".join(oracle_failures[:3]) if oracle_failures else "")
    # ---- correspondence: the Coq model on the same cases
    ndis, nskip, ncmp = 0, 0, 0
    dis_samples = []
    if model_ok:
        exprs, plan = [], []
        for i, (c, r) in enumerate(zip(flat, impl)):
            if c["op"] == "dc" and c.get("v2"):
                exprs.append(dcv2_expr(c, r, w))
                plan.append((i, "dcv2"))
            elif c["op"] == "parsev2":
                exprs.append(f"run_case_v2 2 [{lit(VB(bytes.fromhex(c['data'])))}]")
                plan.append((i, "parsev2"))
            elif c["op"] in ("dc", "dar"):
                if w.facts(c)["ele"] and w.facts(c)["cnt"] != 1:
                    continue
                exprs.append(dc_expr(c, r, w))
                plan.append((i, "dc"))
                if c["op"] == "dar" and isinstance(r.get("export"), str):
                    for j, (rq, rs) in enumerate(zip(c["requests"], r.get("responses", []))):
                        if isinstance(rs, dict):
                            continue
                        b = bytes.fromhex(rs[1])
                        dcb = bytes.fromhex(r["export"])
                        ma, mi = r["create"]["major"], r["create"]["minor"]
                        n = len(dcb) + 4 + (16 if ma == 2 else 0)
                        exprs.append("run_case 3 [" + "; ".join(lit(a) for a in [
                            VI(ma), VI(mi), VB(dcb), VI(rq["beacon"]), VB(bytes.fromhex(rq["uuid"])),
                            VB(bytes.fromhex(rq["challenge"])), VB(b[n:])]) + "]")
                        plan.append((i, ("dar", j)))
            elif c["op"] == "parse":
                exprs.append(f"run_case 2 [{lit(VB(bytes.fromhex(c['data'])))}]")
                plan.append((i, "parse"))
            elif c["op"] == "dac":
                exprs.append(f"run_case 4 [{lit(VB(bytes.fromhex(c['data'])))}]")
                plan.append((i, "dac"))
            elif c["op"] == "validate":
                f = w.facts(c)
                exprs.append("run_case 5 [" + "; ".join(lit(a) for a in [
                    VI(int(f["ele"])), VI(int(f["not_part"])), VI(int(f["could_be_invalid"])), VB(bytes.fromhex(c["dac"])),
                    VB(bytes.fromhex(c["dc"]))]) + "]")
                plan.append((i, "validate"))
        try:
            t_model = time.time()
            mres = vlib.run_model_cases("c15", "Value RotModel DatModel DatV2Model", exprs, shard=(60 if tier == "thorough" else 40), timeout=1500)
            vlib.log(f"  model: {len(exprs)} expressions in {time.time() - t_model:.1f} s")
            for (i, kind), mv in zip(plan, mres):
                c, r = flat[i], impl[i]
                if has_notmodelled(mv):
                    nskip += 1
                    continue
                ncmp += 1
                ok = True
                detail = ""
                if kind == "dcv2":
                    ok, detail = dcv2_compare(c, r, mv)
                elif kind == "parsev2":
                    p = r["parse"]
                    if "err" in p:
                        iv = VE(p["err"])
                    elif p["fields"]["cls"] == "DebugCredentialEdgeLockEnclaveV2":
                        iv = VL([VI(0), cert_value_from_impl(p["fields"]),
                                 e_or(p["reexport"], lambda h: VI(1) if c["data"].startswith(h) else hexb(h))])
                    else:
                        iv = VL([VI(1), VI(KLASS.get(p["fields"]["cls"], 9))])
                    ok = same(iv, mv)
                    detail = "impl vs model " + str(first_diff(iv, mv) if iv[0] == mv[0] else (str(iv)[:120], str(mv)[:120]))
                elif kind == "dc":
                    iv = dc_value_from_impl(r)
                    mv2, tbs = strip_tbs(mv)
                    ok = same(iv, mv2)
                    if ok and tbs is not None and mv2[0] == "l" and mv2[1][3][0] == "b" and tbs != VI(1):
                        ok = False          # the signed bytes are not a prefix of the exported credential
                    detail = "impl vs model " + str(first_diff(iv, mv2))
                elif kind == "parse":
                    p = r["parse"]
                    iv = VE(p["err"]) if "err" in p else VL([
                        fields_from_impl(p["fields"]),
                        e_or(p["reexport"], lambda h: VI(1) if c["data"].startswith(h) else hexb(h)), e_or(p["hash"], hexb)])
                    ok = same(iv, mv)
                    detail = "impl vs model " + str(first_diff(iv, mv))
                elif kind == "dac":
                    a = r["dac"]
                    iv = VE(a["err"]) if "err" in a else VL([VI(a["major"]), VI(a["minor"]), VI(a["socc"]), hexb(a["uuid"]), VI(a["revocation"]),
                                                            hexb(a["rkth"]), VI(a["pinned"]), VI(a["default"]), VI(a["vu"]), hexb(a["challenge"]),
                                                            e_or(a["export"], hexb)])
                    ok = same(iv, mv)
                    detail = "impl vs model " + str(first_diff(iv, mv))
                elif kind == "validate":
                    v = r["validate"]
                    iv = VI(0) if v == "ok" else VE(v["err"])
                    ok = same(iv, mv)
                    detail = f"impl {iv} model {mv}"
                else:
                    j = kind[1]
                    rq, rs = c["requests"][j], r["responses"][j]
                    b = bytes.fromhex(rs[1])
                    # model: [signed message; exported response]
                    ok = mv[0] == "l" and mv[1][1] == VB(b)
                    if ok:
                        # the message the model says is signed (1 = response without signature ++ challenge) must be the
                        # one that verifies under the DCK (independent check)
                        f = w.facts(c)
                        dck = w.pool[c["dck"]]
                        sl = sig_len(dck)
                        msg = (b[:-sl] + bytes.fromhex(rq["challenge"])) if mv[1][0] == VI(1) else (mv[1][0][1] if mv[1][0][0] == "b" else b"")
                        if regular(c, w) and not verify_sig(dck, msg, b[-sl:], f["pss"]):
                            ok = False
                    detail = f"response {rs[1][:80]} model {str(mv)[:200]}"
                if not ok:
                    ndis += 1
                    if ndis <= 40:
                        dis_samples.append({"kind": str(kind), "case": {k: v for k, v in c.items() if not k.startswith("_")},
                                            "impl": r, "model": str(mv)[:4000], "detail": detail})
                    if ndis <= 25:
                        vlib.log(f"  disagreement [{kind}] case {str({k: v for k, v in c.items() if k not in ('data', 'requests', 'dc', 'dac')})[:260]} {c.get('data', '')[:48]}: {detail}")
            if dis_samples:
                import json
                with open(os.path.join(vlib.WORK, PID, "last_disagreements.json"), "w") as fh:
                    json.dump(dis_samples, fh, indent=1, default=str)
            rep.obligation("correspondence:model=implementation on all cases", ndis == 0,
                           (f"{ndis} disagreements; first: " + "; ".join(d["detail"][:200] for d in dis_samples[:5])) if ndis else "")
        except Exception as ex:  # noqa
            rep.obligation("correspondence:model evaluation", False, repr(ex))
    else:
        rep.obligation("correspondence:model builds", False, "Model/DatModel.vo did not build")

    # ---- coverage accounting
    for name in streams:
        idx = [i for i, o in enumerate(owner) if o == name]
        okc = 0
        distinct = set()
        for i in idx:
            c, r = flat[i], impl[i]
            if c["op"] in ("dc", "dar"):
                if isinstance(r.get("export"), str):
                    okc += 1
                    distinct.add(r["export"][:200] + str(len(r["export"])))
            else:
                v = list(r.values())[0]
                if not (isinstance(v, dict) and "err" in v):
                    okc += 1
                    distinct.add(v.get("e1", "")[:200] if c["op"] == "history" else str(v)[:300] if c["op"] != "rotation"
                                 else str([st["out"].get("export", "")[:120] for st in v]))
        samples = [{k: v for k, v in flat[i].items() if not k.startswith("_") and k != "requests"} for i in idx[:3]]
        for s in samples:
            for k in ("data", "dc", "dac"):
                if k in s:
                    s[k] = s[k][:96] + "..."
        rep.add_stream(name, len(idx), len(distinct), samples=samples, exhaustive=False,
                       extra={"accepted": okc, "rejected_or_error": len(idx) - okc})
    import shutil
    shutil.rmtree(TMPDIR, ignore_errors=True)
    return rep.finish(
        rule="cases are drawn from VERIF_SEED over every DAT family/revision of the database x protocol version x RoT key count x "
             "used index; distinct_nontrivial counts distinct accepted outputs (exported credentials / parsed objects)",
        trusted_base=["Coq 8.16.1 kernel + vm_compute", "tools/regen_c15.py (formats / version tables / database facts as the code computes them)",
                      "hand models Model/DatModel.v and Model/DatV2Model.v tied by correspondence", "Model/RotModel.v + Crypto/Sha2.v (C03 / CryptoRef, imported)",
                      "`cryptography` (OpenSSL) as the independent RSA/ECDSA verifier and PEM decoder",
                      f"model cases compared {ncmp}, outside the modelled domain {nskip}"],
        checker_cmd="coqc -R . V Props/C15/*.v (after make Proofs/Dat{,Create,Hash,Ele,V2}Proofs.vo)",
        assumptions=["RSA/ECDSA primitives and PEM/DER decoding are black boxes (signature obligations discharged by `cryptography` in the run)",
                     "raw key blobs are never valid UTF-8 PEM text nor DER SubjectPublicKeyInfo",
                     "EdgeLock container version 2: second key set (public_key_1 / signature_1) and the responses (AHAB signed message) are outside the model",
                     "RoT-hash equality with the image tools is the C03 statement, restricted to RSA keys with a 3-byte exponent and P-256/P-384"])


if __name__ == "__main__":
    sys.exit(run(sys.argv[1] if len(sys.argv) > 1 else "quick"))
