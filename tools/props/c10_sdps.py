"""C10 extension -- SDPS / SDP bulk data phase over USB-HID with a negotiated report size (SDPBulkProtocol.configure,
_create_frames, _create_frame; SDPS.write_file).  Theorem sdps_hid_reports_negotiated_size_once_in_order
(Model/SdpsModel.v, Proofs/SdpsProofs.v) + correspondence model = implementation on the exact report list + an
independent oracle (no report larger than the negotiated size, payloads = data + < 1 report of zeros)."""
import vlib

THEOREMS = ["sdps_hid_reports_negotiated_size_once_in_order"]
DEPS = ["Proofs/SdpsProofs.vo"]
FAMILIES = ["mimx8mq", "mimx8ulp", "mimx93", "mimx95", "mimx28", "mimx8qxp", "mimx815"]


def gen(tier, rng):
    thorough = tier == "thorough"
    cases = []
    sizes = [1, 2, 3, 7, 8, 63, 64, 1020, 1024, 1025] + ([5, 16, 100, 512, 1019, 1021, 2048] if thorough else [])
    for sz in sizes:
        lens = sorted({0, 1, sz - 1, sz, sz + 1, 2 * sz - 1, 2 * sz, 2 * sz + 1, 3 * sz + 2} | {rng.randrange(0, 4 * sz + 2) for _ in range(6 if thorough else 2)})
        for ln in lens:
            if 0 <= ln <= 6000:
                cases.append({"size": sz, "data": bytes(rng.getrandbits(8) | (i == ln - 1) for i in range(ln)).hex(), "family": None})
    # small sizes exhaustively: every (size, length) in a box
    for sz in range(1, 9 if thorough else 6):
        for ln in range(0, 4 * sz + 2):
            cases.append({"size": sz, "data": bytes((7 * i + 3) % 255 + 1 for i in range(ln)).hex(), "family": None})
    # unconfigured protocol object (default DATA report)
    for ln in (0, 1, 1023, 1024, 1025, 2500):
        cases.append({"size": None, "data": bytes((i * 5 + 1) & 0xFF for i in range(ln)).hex(), "family": None})
    # object isolation: another protocol object was configured with another size earlier in the same process
    for prior in (1020, 64, 2048):
        for sz in (None, 1024, 512):
            for ln in (1, 5, 1021, 2100):
                cases.append({"size": sz, "prior": prior, "data": bytes((i * 3 + 2) & 0xFF for i in range(ln)).hex(), "family": None})
    return cases


def gen_families(tier, rng):
    out = []
    for fam in FAMILIES:
        for ln in (1, 1019, 1020, 1021, 1024, 1025, 2040, 2047, 2048, 3000 + rng.randrange(0, 100)):
            out.append({"size": None, "family": fam, "data": bytes(((i * 11 + 5) & 0xFF) | (i == ln - 1) for i in range(ln)).hex()})
    return out


def oracle(size, data, reports, skip=0):
    """independent statement of the contract on the DATA reports (after `skip` command reports)"""
    bad = []
    rs = reports[skip:]
    for k, r in enumerate(rs):
        if len(r) - 1 > size:
            bad.append(("packet-larger-than-negotiated", f"report {k} of {len(rs)} carries {len(r) - 1} bytes, negotiated size {size}"))
            break
        if len(r) - 1 != size:
            bad.append(("report-size", f"report {k} of {len(rs)} carries {len(r) - 1} bytes, the report size of this protocol object is {size}"))
            break
        if r[:1] != b"\x02":
            bad.append(("report-id", f"report {k} has id {r[:1].hex()}"))
            break
    got = b"".join(r[1:] for r in rs)
    if got[:len(data)] != data:
        bad.append(("data-wrong", f"the device received {got[:16].hex()}.. for {data[:16].hex()}.. ({len(data)} B)"))
    elif any(got[len(data):]) or len(got) - len(data) >= max(size, 1):
        bad.append(("surplus-bytes", f"{len(got) - len(data)} bytes beyond the {len(data)} written reach the device (negotiated size {size})"))
    return bad


def run(rep, tier, rng):
    ok, out = vlib.coq_make(["Model/SdpsModel.vo"])
    vlib.check_theorems(rep, "C10", THEOREMS, DEPS)
    cases = gen(tier, rng)
    fam = gen_families(tier, rng)
    res = vlib.run_impl("c10_sdps_impl.py", {"cases": cases + fam}, timeout=1200)["results"]
    nfam_ok = 0
    for c, r in zip(cases + fam, res):
        data = bytes.fromhex(c["data"])
        tag = f"family {c['family']}" if c["family"] else f"pack_size {c['size']}" + (f", another object configured with {c['prior']} before" if c.get("prior") else "")
        if not r["ok"]:
            if c["family"] and r["err"] == 1:
                continue                        # family not in this database / not an SDPS device: nothing to judge
            rep.failing(f"sdps:{'family' if c['family'] else 'raw'}:error:{r['err']}",
                        f"SDPS data phase ({tag}, {len(data)} B) raised/hung (class {r['err']}) on a fault-free link",
                        {"kind": "sdps", "case": c, "impl": r})
            continue
        nfam_ok += bool(c["family"])
        reports = [bytes.fromhex(x) for x in r["reports"]]
        for sig, msg in oracle(r["size"], data, reports, skip=0 if r["no_cmd"] else 1):
            rep.failing(f"sdps:{'family' if c['family'] else 'raw'}:{sig}", f"SDPS data phase ({tag}, {len(data)} B): {msg}",
                        {"kind": "sdps", "case": c, "negotiated": r["size"], "report_lengths": [len(x) for x in reports]})
    # correspondence: exact report list, model = implementation (DATA reports only)
    nd = 0
    if ok:
        sel = [(c, r) for c, r in zip(cases + fam, res) if r["ok"]]
        exprs = [f"run_case_sdps {r['size']} [{'; '.join(str(b) for b in bytes.fromhex(c['data']))}]%N" for c, r in sel]
        mv = vlib.run_model_cases("c10sdps", "Value SdpsModel", exprs, shard=60, timeout=900, jobs=8)
        for (c, r), m in zip(sel, mv):
            impl = [bytes.fromhex(x) for x in r["reports"]][0 if r["no_cmd"] else 1:]
            model = [x[1] for x in m[1]] if m[0] == "l" else None
            if model != impl:
                nd += 1
                if nd <= 3:
                    vlib.log(f"  disagreement [sdps] size {r['size']} len {len(c['data']) // 2}: impl report lengths {[len(x) for x in impl]}, "
                             f"model {[len(x) for x in model] if model is not None else m}")
        rep.obligation(f"correspondence:sdps: model = implementation on {len(sel)} report lists", nd == 0, f"{nd} disagreements")
    else:
        rep.obligation("correspondence:sdps: model builds", False, out[-500:])
    rep.add_stream("SDPS / SDP-bulk data phase: reports for every (negotiated size, length) in a box + boundaries + database families",
                   len(res), len({(r.get("size"), len(c["data"])) for c, r in zip(cases + fam, res) if r["ok"]}),
                   samples=[{"size": c["size"], "len": len(c["data"]) // 2, "family": c["family"]} for c in (cases[3], fam[1])],
                   exhaustive=False, extra={"family_cases_run": nfam_ok, "raw_cases": len(cases)})
