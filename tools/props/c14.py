"""C14 -- Bootable image: segments land at the device offsets and come back on parse (DESIGN.md section 3, C14).

(T1) coq/Gen/GenBimg.v is regenerated from the device database + segments.py on every run; `all_tables_wf` and the other
     database sweeps are re-proved about the regenerated data.
(P)  coq/Props/C14/*.v : theorems about Model/BimgModel.v for all payloads / sizes / init offsets.
(T2) the model (vm_compute in coqc) and the real BootableImage.load_from_config/export/parse run on the same cases.
Independent spec oracles (written from the property text, not from the model) are applied to SPSDK's own outputs.
"""
import base64
import concurrent.futures
import itertools
import os
import shutil
import sys
import zlib

sys.path.insert(0, os.path.dirname(os.path.dirname(os.path.abspath(__file__))))
import vlib
import regen_c14

PID = "C14"
THEOREMS = ["all_tables_wf", "all_triples_indexed", "offsets_as_prescribed", "dynamic_offset_aligned_after_prev",
            "no_overlap", "segments_intact", "gaps_are_pattern", "init_offset_snaps", "init_offset_valid_start",
            "parse_merge", "parse_full_image", "raw_recogniser_contract", "fcb_recogniser_contract",
            "oversize_fixed_segment_rejected", "parse_noninit_offset_refuted"]
WORKDIR = os.path.join(vlib.WORK, PID, "run")
NPROC = 6
CONTAINER = {"mbi": "mbi", "hab_container": "hab", "ahab_container": "ahab", "primary_image_container_set": "ahab",
             "secondary_image_container_set": "ahab", "sb21": "sb21", "sb31": "sb31"}
RAW_FIXED = ("keyblob", "keystore", "bee_header_0", "bee_header_1")
SIZED = RAW_FIXED + ("fcb", "fcb_xspi", "xmcd")      # classes loaded by Segment.load_config: at most SIZE bytes


def uz(s):
    return zlib.decompress(base64.b64decode(s))


def syn_bytes(a, n):
    """Same bytes as BimgModel.syn (checked against the model in the run)."""
    if n <= 0:
        return b""
    if n == 1:
        return bytes([a])
    return bytes([a]) + bytes([(a + 32) % 256]) * (n - 2) + bytes([(a + 64) % 256])


def align(n, a):
    return -(-n // a) * a


# ------------------------------------------------------------------------------------------------ payload handling
# a payload spec is None (segment not supplied) | ["syn", a, n] | ["hex", h] | ["int", v] (image version)
def payload_bytes(row, p):
    """The bytes the segment is documented to carry for this configuration value."""
    if p is None:
        if row["name"] == "image_version":
            return (0).to_bytes(4, "little")                        # "image_version: 0" is the documented default
        if row["name"] == "image_version_ap":
            return b"\xff\xff\xff\xff"                              # unprogrammed
        return b""
    if p[0] == "syn":
        return syn_bytes(p[1], p[2])
    if p[0] == "hex":
        return bytes.fromhex(p[1])
    if p[0] == "int":
        v = p[1]
        if row["name"] == "image_version":
            return v.to_bytes(4, "little")
        lo = v & 0xFFFF
        return (lo | ((lo ^ 0xFFFF) << 16)).to_bytes(4, "little")
    raise ValueError(p)


def impl_case(tab, c):
    segs = {}
    for row, p in zip(tab["rows"], c["payloads"]):
        if p is None:
            continue
        if p[0] == "int":
            segs[row["cfg_key"]] = p[1]
        else:
            b = payload_bytes(row, p)
            if b:
                segs[row["cfg_key"]] = b.hex()
    out = {"family": c["family"], "rev": c["rev"], "mem": c["mem"], "init": c["init"], "segs": segs,
           "parse": c.get("parse", [])}
    if c.get("history"):
        out["history"] = c["history"]
    return out


def coq_bytes(b):
    if len(b) <= 32:
        return "VBytes ([" + "; ".join(str(x) for x in b) + "]%N)"
    # 7 bytes per primitive integer literal (see BimgPackModel.unpack63)
    lits = "; ".join("0x" + b[i:i + 7][::-1].hex() for i in range(0, len(b), 7))
    return f"VBytes (unpack63 {len(b)} [{lits}]%uint63)"


def coq_payload(row, p):
    if p is not None and p[0] == "syn":
        return f"VList [VInt {p[1]}; VInt {p[2]}]"
    return coq_bytes(payload_bytes(row, p))


# ------------------------------------------------------------------------------------------------ spec oracles
def spec_layout(tab, r, data):
    """What the property prescribes, from the database rows alone: effective start, and for every segment whether it
    belongs to the image and where.  Returns None when the request must be refused."""
    rows = tab["rows"]
    statics = [s["offset"] for s in rows if s["offset"] >= 0]
    if r < 0:
        return None
    if r == 0:
        io = 0
    else:
        later = [o for o in statics if o >= r]
        if not later:
            return None
        io = min(later)                                          # "the closest upper offset"
    pos, prev_end = [], None
    for s, d in zip(rows, data):
        if s["offset"] >= 0:
            if s["offset"] < io:
                pos.append(None)                                 # before the start: not part of this image
                prev_end = None if prev_end is None else prev_end
                continue
            o = s["offset"] - io
        else:
            if prev_end is None:
                return {"io": io, "pos": None}
            o = align(prev_end, s["align"])                      # floating: aligned end of its predecessor
        pos.append(o)
        prev_end = o + len(d)
    return {"io": io, "pos": pos}


def layout_class(tab):
    return "dynamic-layout" if any(s["offset"] < 0 for s in tab["rows"]) else "static-layout"


def oracle_merge(tab, c, data, res):
    """None or (signature, message): the exported image has every supplied segment at its prescribed offset, the
    device's pattern elsewhere, and nothing overwritten (sizes that fit)."""
    r = c["init"] or 0
    cls = layout_class(tab)
    where = "init>0" if r > 0 else "init=0"
    sp = spec_layout(tab, r, data)
    loaded = res["load"][0] == "ok"
    if sp is None:
        if loaded:
            return (f"merge:init-offset-accepted:{cls}:{where}", f"init offset {r} lies beyond the last segment but was accepted "
                    f"(effective {res.get('io')})")
        return None
    if not loaded:
        if res["load"][1] == 2 and "hab_container" in [s["name"] for s, d in zip(tab["rows"], data) if not d]:
            return None              # configuration without the mandatory HAB container: outside the property (see report)
        if res["load"][1] == 1 and any(s["name"] in SIZED and len(d) > s["size"] > 0 for s, d in zip(tab["rows"], data)):
            return None              # a fixed-size class given more bytes than its SIZE is refused: nothing to merge
        what = "rejected" if res["load"][1] == 1 else "crash"
        return (f"merge:{what}:{cls}:{where}", f"load_from_config of an admissible configuration raised {res['load']}")
    if res["io"] != sp["io"]:
        return (f"merge:init-offset:{cls}:{where}", f"requested start {r}: image starts at {res['io']}, the closest segment "
                f"start at or above the request is {sp['io']}")
    if sp["pos"] is None:
        return None
    present = [(o, d, s) for o, d, s in zip(sp["pos"], data, tab["rows"]) if o is not None and d]
    if not present:
        return None
    fits = all(a[0] + len(a[1]) <= b[0] for a, b in zip(present, present[1:]))
    # offsets reported by the object
    for (s, o, d, row) in zip(tab["rows"], sp["pos"], data, res["segs"]):
        if o is None:
            if not row[1]:
                return (f"merge:not-excluded:{cls}:{where}", f"segment {s['name']} lies before the start but is not excluded")
            continue
        if row[1]:
            return (f"merge:excluded:{cls}:{where}", f"segment {s['name']} at or after the start is excluded")
        if d and row[4] != o:
            return (f"merge:segment-offset:{cls}:{where}", f"segment {s['name']} reported at {row[4]}, prescribed {o}")
    if not fits:
        return None
    if not isinstance(res["image"], str):
        return (f"merge:export-failed:{cls}:{where}", f"export raised {res['image']} although all segments fit")
    img = uz(res["image"])
    total = max(o + len(d) for o, d, _ in present)
    exp = bytearray([tab["fill"]]) * total
    for o, d, _ in present:
        exp[o:o + len(d)] = d
    if len(img) != total:
        return (f"merge:image-length:{cls}:{where}", f"image has {len(img)} bytes, the last segment ends at {total}")
    if img != bytes(exp):
        k = next(i for i in range(total) if img[i] != exp[i])
        owner = next((s["name"] for o, d, s in present if o <= k < o + len(d)), "gap")
        return (f"merge:image-bytes:{owner}:{cls}:{where}", f"byte {k} is {img[k]:#x}, expected {exp[k]:#x} ({owner})")
    return None


def wellformed(tab, c, data):
    """Class of the supplied segment set for the round-trip statement: 'ok' or the reason it is outside the statement."""
    rows = tab["rows"]
    pads = [bytes([b]) for b in (0, 255)]
    for s, p, d in zip(rows, c["payloads"], data):
        if s["name"] in RAW_FIXED and d:
            if len(d) < s["size"]:
                return "short"
            if len(d) > s["size"]:
                return "long"
            if d in [x * s["size"] for x in pads]:
                return "padding-only"
        if (s["name"] in CONTAINER or s["name"] in ("fcb", "fcb_xspi", "xmcd")) and d and (p is None or p[0] != "hex"):
            return "junk"
    return "ok"


def oracle_roundtrip(tab, c, data, res, mode, fcb_supported):
    """None or (signature, message): parsing the merged image (possibly read from a later start) recovers each segment."""
    r = c["init"] or 0
    sp = spec_layout(tab, r, data)
    if sp is None or sp["pos"] is None or res["load"][0] != "ok" or not isinstance(res.get("image"), str):
        return None
    if res["io"] != sp["io"]:
        return None                                               # reported by oracle_merge
    rows = tab["rows"]
    io = sp["io"]
    cut = int(mode[3:]) if mode.startswith("cut") else 0
    statics = [s["offset"] for s in rows if s["offset"] >= 0]
    if cut:
        if io != 0 or cut not in statics:
            return None
        io = cut
    app = [s for s, d, o in zip(rows, data, sp["pos"]) if not s["hdr"] and s["offset"] >= io and d]
    if not app:
        return None                                               # no application container in the image: not a bootable image
    for k, (s, d) in enumerate(zip(rows, data)):
        if s["offset"] < 0 and d and not data[k - 1]:
            return None                                           # floating segment without its predecessor
    wf = wellformed(tab, c, data)
    if wf in ("junk", "padding-only"):
        return None
    present = [(o, d) for o, d in zip(sp["pos"], data) if o is not None and d]
    if not all(a[0] + len(a[1]) <= b[0] for a, b in zip(present, present[1:])):
        return None
    init_ok = io == 0 or any(s["offset"] == io and s["init"] for s in rows)
    cls = layout_class(tab)
    has_fcb = any(s["name"] in ("fcb", "fcb_xspi") and d and s["offset"] >= io for s, d in zip(rows, data))
    # the signature names the OUTCOME (what went wrong, with which error kind / which start / which bytes) and the input class;
    # known findings are keyed on the exact defective outcome, never on the input class alone
    general = "start-at-non-init-segment" if not init_ok else None
    fill = bytes([tab["fill"]])
    inits = {s["offset"] for s in rows if s["init"] and s["offset"] >= 0}
    p = res["parses"].get(mode)
    if p is None:
        return None
    if isinstance(p, list):
        suffix = general or ("fixed-size-" + wf if wf != "ok" else "wellformed")
        what = "parse-rejected" if p[1] == 1 else f"parse-crashed-kind{p[1]}"          # 1 = SPSDKError, 2 = other exception, 3 = hang
        return (f"roundtrip:{what}:{suffix}:{cls}", f"parse ({mode}) of the merged image failed with {p}")
    if p["io"] != io:
        suffix = general or ("fixed-size-" + wf if wf != "ok" else "wellformed")
        what = "start-at-later-init-segment" if (p["io"] > io and p["io"] in inits) else "start-elsewhere"
        return (f"roundtrip:{what}:{suffix}:{cls}", f"parse ({mode}) located the image start at {p['io']}, it starts at {io}")
    for s, d, row in zip(rows, data, p["segs"]):
        want = d if (s["offset"] < 0 or s["offset"] >= io) else b""
        got = uz(row[5]) if isinstance(row[5], str) else None
        if got != want:
            own = None
            if s["name"] in RAW_FIXED and d and got is not None:
                if len(d) < s["size"]:
                    own = "fixed-size-short-padded" if got == d + fill * (s["size"] - len(d)) else "fixed-size-short-other"
                elif len(d) > s["size"]:
                    own = "fixed-size-long-truncated" if got == d[:s["size"]] else "fixed-size-long-other"
            suffix = own or general or "wellformed"
            return (f"roundtrip:segment-bytes:{s['name']}:{suffix}:{cls}",
                    f"parse ({mode}) returned {None if got is None else len(got)} bytes for {s['name']}, supplied {len(want)}"
                    + ("" if got is None or len(got) != len(want) else " (content differs)"))
    return None


# ------------------------------------------------------------------------------------------------ case generation
def sizes_for(tab, k, rng):
    """Boundary sizes of segment k: 0, 1, limit-1, limit (limit = distance to the next static offset), SIZE +-1."""
    rows = tab["rows"]
    s = rows[k]
    nxt = [x["offset"] for x in rows[k + 1:] if x["offset"] >= 0]
    out = {1, 2}
    if s["size"] > 0:
        out |= {s["size"] - 1, s["size"], s["size"] + 1}
    if nxt and s["offset"] >= 0:
        lim = nxt[0] - s["offset"]
        out |= {lim - 1, lim, lim + 1}
    else:
        out |= {1023, 1024, 1025, 1500, 2048}
    return sorted(x for x in out if x > 0)


def nominal(tab, k):
    s = tab["rows"][k]
    if s["name"] in ("image_version", "image_version_ap"):
        return ["int", 0x1234 + k]
    return ["syn", 129 + k, s["size"] if s["size"] > 0 else 700 + 13 * k]


def init_requests(tab):
    st = sorted({s["offset"] for s in tab["rows"] if s["offset"] >= 0})
    out = [0, -1, 1]
    for o in st:
        out += [o - 1, o, o + 1]
    return sorted({x for x in out if x >= -1})


def gen_layout_cases(tab, triple, rng, depth):
    """Stream A: synthetic raw payloads everywhere (every class accepts a raw binary on merge)."""
    fam, rev, mem = triple
    n = len(tab["rows"])
    base = [nominal(tab, k) for k in range(n)]
    cases = []

    def add(payloads, init, why):
        cases.append({"family": fam, "rev": rev, "mem": mem, "init": init, "payloads": payloads, "why": why, "parse": []})

    if depth == 0:
        add(list(base), 0, "nominal")
        for r in init_requests(tab)[::2]:
            add(list(base), r, "init")
        return cases
    # all subsets of supplied segments
    for mask in range(1 << n):
        add([base[k] if mask >> k & 1 else None for k in range(n)], 0, "subset")
    # all init requests: full set and one random subset
    for r in init_requests(tab):
        add(list(base), r, "init")
        m = rng.randrange(1, 1 << n)
        add([base[k] if m >> k & 1 else None for k in range(n)], r, "init-subset")
    # boundary sizes of one segment at a time
    for k in range(n):
        if base[k][0] != "syn":
            for v in (0, 1, 0xFFFF, 0x12345678, 0xFFFFFFFF):
                p = list(base)
                p[k] = ["int", v]
                add(p, 0, "version")
            continue
        for sz in sizes_for(tab, k, rng):
            p = list(base)
            p[k] = ["syn", 129 + k, sz]
            add(p, 0, "size")
            if depth > 1:
                add(p, rng.choice(init_requests(tab)), "size-init")
    # random mixtures
    for _ in range(10 * depth):
        p = []
        for k in range(n):
            if rng.random() < 0.25:
                p.append(None)
            elif base[k][0] == "syn":
                p.append(["syn", 129 + k, rng.choice(sizes_for(tab, k, rng))])
            else:
                p.append(["int", rng.getrandbits(32)])
        add(p, rng.choice(init_requests(tab)), "random")
    return cases


def valid_payload(tab, triple, k, pay, variant=0):
    fam, rev, mem = triple
    s = tab["rows"][k]
    nm = s["name"]
    if nm in CONTAINER:
        kind = CONTAINER[nm]
        key = f"{kind}|{fam}|{rev}|{variant + (1 if nm == 'secondary_image_container_set' else 0)}"
    elif nm in ("fcb", "fcb_xspi"):
        key = f"fcb|{fam}|{rev}|{mem}"
    elif nm == "xmcd":
        key = f"xmcd|{fam}|{rev}"
    elif nm in ("image_version", "image_version_ap"):
        return ["int", 0x0102 + variant]
    else:
        return ["syn", 129 + k, s["size"]]
    h = pay.get(key)
    return ["hex", h, "c14_impl.make_payloads " + key] if h else None


def payload_requests(tab, triple, fcb_supported):
    fam, rev, mem = triple
    reqs = []
    for s in tab["rows"]:
        nm = s["name"]
        if nm in CONTAINER:
            for v in (0, 1, 2):
                reqs.append({"key": f"{CONTAINER[nm]}|{fam}|{rev}|{v}", "kind": CONTAINER[nm], "family": fam, "rev": rev,
                             "mem": mem, "variant": v})
        elif nm in ("fcb", "fcb_xspi"):
            reqs.append({"key": f"fcb|{fam}|{rev}|{mem}", "kind": "fcb" if fcb_supported else "fcb_raw", "family": fam,
                         "rev": rev, "mem": mem, "size": s["size"]})
        elif nm == "xmcd":
            reqs.append({"key": f"xmcd|{fam}|{rev}", "kind": "xmcd", "family": fam, "rev": rev, "mem": mem})
    return reqs


def gen_roundtrip_cases(tab, triple, pay, rng, depth):
    """Stream B: valid payloads of every class; merge, then parse the image (whole, from each segment start, and merged
    with each init offset)."""
    fam, rev, mem = triple
    rows = tab["rows"]
    n = len(rows)
    full = [valid_payload(tab, triple, k, pay) for k in range(n)]
    app = [k for k in range(n) if not rows[k]["hdr"] and rows[k]["offset"] >= 0]
    if any(full[k] is None for k in app):
        return []                                          # no valid application container could be produced
    statics = sorted({s["offset"] for s in rows if s["offset"] >= 0})
    cuts = [["cut", o] for o in statics if o > 0]
    cases = []

    def add(payloads, init, parse, why):
        cases.append({"family": fam, "rev": rev, "mem": mem, "init": init, "payloads": payloads, "why": why, "parse": parse})

    add(list(full), 0, ["typed"] + cuts, "full")
    if depth == 0:
        return cases
    for o in statics:
        if o > 0:
            add(list(full), o, ["typed"], "merged-from")
    opt = [k for k in range(n) if k not in app]
    subsets = list(itertools.product([0, 1], repeat=len(opt)))
    if len(subsets) > 8 and depth < 2:
        subsets = rng.sample(subsets, 8)
    for bits in subsets:
        p = list(full)
        for k, b in zip(opt, bits):
            if not b:
                p[k] = None
        add(p, 0, ["typed"] + cuts[:1 + depth], "subset")
    # second variants of the containers (other sizes -> other floating offsets)
    p = [valid_payload(tab, triple, k, pay, 1) or full[k] for k in range(n)]
    add(p, 0, ["typed"] + cuts, "variant")
    # fixed-size raw segments with other lengths (the image does not record lengths)
    for k in range(n):
        if rows[k]["name"] in RAW_FIXED:
            for sz in (rows[k]["size"] - 1, rows[k]["size"] + 1, 1):
                p = list(full)
                p[k] = ["syn", 129 + k, sz]
                add(p, 0, ["typed"], "fixed-size-length")
            p = list(full)
            p[k] = ["hex", "00" * rows[k]["size"], "all-zero block"]
            add(p, 0, ["typed"], "padding-only")
    return cases


# ------------------------------------------------------------------------------------------------ object history
def plan_history(tab, c, rng):
    """A second export, an init offset change (and back), a replaced and a cleared segment on the SAME object."""
    rows = tab["rows"]
    statics = sorted({s["offset"] for s in rows if s["offset"] > 0})
    r = c["init"] or 0
    init2 = rng.choice([o for o in statics + [0] if o != r] or [None]) if statics else None
    h = {"init2": init2, "replace": None, "clear": None}
    cand = [k for k, p in enumerate(c["payloads"]) if p is not None and p[0] == "syn" and p[2] > 1]
    if cand:
        k = rng.choice(cand)
        n = c["payloads"][k][2]
        new = n - 1 if rows[k]["name"] in SIZED else n + 17
        h["replace"] = {"label": rows[k]["name"], "cfg_key": rows[k]["cfg_key"], "hex": syn_bytes(150 + k, new).hex()}
    opt = [k for k, p in enumerate(c["payloads"]) if p is not None and p[0] != "int" and rows[k]["hdr"]
           and (h["replace"] is None or rows[k]["name"] != h["replace"]["label"])]
    if opt:
        k = rng.choice(opt)
        h["clear"] = {"label": rows[k]["name"], "cfg_key": rows[k]["cfg_key"]}
    return h


def oracle_history(tab, c, data, res, fcb_supported):
    """List of (signature, message, ops): every export of one object equals the export of a fresh object configured alike."""
    out = []
    hres = res.get("history")
    if hres:
        names = {"second": ("second-export-differs", "export()"), "reinit": ("stale-after-change", "init_offset"),
                 "back": ("stale-after-change", "init_offset-restored"), "replace": ("stale-after-change", "segment-replaced"),
                 "clear": ("stale-after-change", "segment-cleared")}
        for key, (kind, what) in names.items():
            v = hres.get(key)
            if v is not None and not v["same"]:
                out.append((f"history:{kind}:{what}", f"after {hres['ops']}: {key} export has {v['a']} bytes, the fresh object's {v['b']}"
                            + (f", first difference at byte {v['first_diff']}" if "first_diff" in v else ""), hres["ops"]))
    for mode, p in (res.get("parses") or {}).items():
        if isinstance(p, list) or "reexport" not in p:
            continue
        if oracle_roundtrip(tab, c, data, res, mode, fcb_supported) is not None:
            continue                              # the parse itself is already reported (or a recorded finding)
        ops = ["load_from_config(cfg)", "data = export()" + (f"[{mode[3:]}:]" if mode.startswith("cut") else ""),
               "b = BootableImage.parse(data, family, mem_type, revision)", "b.export()", "b.export()"]
        if not p["reexport"]["same"]:
            out.append(("history:second-export-differs:parse(data).export()",
                        f"parse ({mode}) of {p['reexport']['b']} bytes re-exports {p['reexport']['a']} bytes"
                        + (f", first difference at byte {p['reexport']['first_diff']}" if "first_diff" in p["reexport"] else ""), ops))
        elif not p["reexport2"]["same"]:
            out.append(("history:second-export-differs:parsed-object.export()", f"parse ({mode}): the second export of the parsed object differs", ops))
    return out


# ------------------------------------------------------------------------------------------------ running both sides
def run_impl_parallel(payloads, timeout=3000):
    """payloads: list of payload dicts; one subprocess each, at most NPROC at a time."""
    with concurrent.futures.ThreadPoolExecutor(max_workers=NPROC) as ex:
        futs = [ex.submit(vlib.run_impl, "c14_impl.py", p, timeout) for p in payloads]
        return [f.result() for f in futs]


def impl_cases(tables, cases):
    chunks = [list(range(i, len(cases), NPROC)) for i in range(NPROC)]
    pls = [{"workdir": os.path.join(WORKDIR, f"files{j}"), "cases": [impl_case(tables[cases[i]["table"]], cases[i]) for i in ch]}
           for j, ch in enumerate(chunks) if ch]
    outs = run_impl_parallel(pls)
    res = [None] * len(cases)
    for ch, o in zip([c for c in chunks if c], outs):
        for i, r in zip(ch, o["results"]):
            res[i] = r
    return res


def model_expr(tab, c, fcb_supported):
    ps = "; ".join(coq_payload(row, p) for row, p in zip(tab["rows"], c["payloads"]))
    if not c.get("parse"):
        return f"run_case 1 [VInt {c['table']}; VInt ({c['init'] or 0}); VList [{ps}]]"
    cuts = "; ".join(f"VInt {0 if m == 'typed' else m[1]}" for m in c["parse"])
    return (f"run_case 2 [VInt {c['table']}; VInt ({c['init'] or 0}); VList [{ps}]; VList [{cuts}]; "
            f"VInt {1 if fcb_supported else 0}; VList [{descriptors(tab, c)}]]")


def descriptors(tab, c):
    ds = []
    for row, p in zip(tab["rows"], c["payloads"]):
        if p is not None and p[0] == "hex" and (row["name"] in CONTAINER or row["name"] == "xmcd"):
            b = bytes.fromhex(p[1])
            whole = 1 if row["name"] in ("mbi", "hab_container", "sb21", "sb31") else 0
            ds.append(f"VList [VInt {row['tag']}; {coq_bytes(b[:24])}; VInt {len(b)}; VInt {whole}]")
    return "; ".join(ds)


def decode(data, v):
    """Model output encoding: VInt k = payload k verbatim, VList [VInt b; VInt n] = n times byte b."""
    if v[0] == "e":
        return ("e", v[1])
    out = bytearray()
    for t, x in v[1]:
        if t == "i":
            out += data[x]
        else:
            out += bytes([x[0][1]]) * x[1][1]
    return bytes(out)


def impl_merge_obs(res):
    """Observable of the merge side in the model's shape."""
    if res["load"][0] != "ok":
        return ("e", res["load"][1])
    def iv(x):
        return ("e", x[1]) if isinstance(x, list) else int(x)
    segs = [(int(r[1]), iv(r[2]), iv(r[3]), iv(r[4])) for r in res["segs"]]
    img = uz(res["image"]) if isinstance(res["image"], str) else ("e", res["image"][1])
    return (res["io"], segs, iv(res["total"]), img)


def model_merge_obs(data, v):
    if v[0] == "e":
        return ("e", v[1])
    io, segs, tot, img = v[1]
    sg = [(s[1][0][1], s[1][1][1], s[1][2][1], s[1][3][1] if s[1][3][0] == "i" else ("e", s[1][3][1])) for s in segs[1]]
    return (io[1], sg, tot[1] if tot[0] == "i" else ("e", tot[1]), decode(data, img))


def impl_parse_obs(res, mode):
    if res["load"][0] != "ok":
        return ("e", res["load"][1])
    if not isinstance(res.get("image"), str):
        return ("e", res["image"][1])
    p = res["parses"][mode]
    if isinstance(p, list):
        return ("perr", p[1])
    return (p["io"], [uz(r[5]) if isinstance(r[5], str) else None for r in p["segs"]])


def model_parse_obs(data, v):
    if v[0] == "e":
        return ("e", v[1])
    l = v[1]
    if len(l) == 1:
        return ("perr", l[0][1])
    return (l[0][1], [decode(data, x) for x in l[1][1]])


def short(c):
    return {"family": c["family"], "revision": c["rev"], "memory_type": c["mem"], "init_offset": c["init"],
            "segments": [None if p is None else
                         (p if p[0] != "hex" else ["hex", f"<{len(p[1]) // 2} bytes>", p[2] if len(p) > 2 else p[1][:64]])
                         for p in c["payloads"]], "why": c["why"]}


def run(tier):
    rep = vlib.Report(PID, tier)
    rng = vlib.Rng(vlib.seed())
    thorough = tier == "thorough"
    shutil.rmtree(WORKDIR, ignore_errors=True)
    os.makedirs(WORKDIR, exist_ok=True)
    # (T1) regenerate the tables from the current database
    gen = None
    try:
        gen = regen_c14.regen()
        rep.obligation("translate:device database (features.bootable_image) + segments.py -> Gen/GenBimg.v", True)
    except Exception as ex:  # noqa
        rep.obligation("translate:device database (features.bootable_image) + segments.py -> Gen/GenBimg.v", False, repr(ex))
    # (P) proofs
    model_ok, mout = vlib.coq_make(["Model/BimgModel.vo", "Model/BimgPackModel.vo"])
    vlib.check_theorems(rep, PID, THEOREMS, ["Proofs/BimgProofs.vo"])
    if thorough:
        vlib.coqchk(rep, PID, THEOREMS)
    vlib.audit(rep)
    if gen is None:
        return rep.finish(rule="", trusted_base=[], checker_cmd="")
    tables, triples = gen["tables"], gen["triples"]
    fcbs = {(f, r, m): fs for (f, r, m, t, fs) in triples}
    # when a database sweep theorem fails, name the offending table (the concrete failing input of a data edit)
    for tix, tab in enumerate(tables):
        o = oracle_table(tab)
        if o:
            rep.failing(f"database:{o[0]}", f"layout {tix} ({'/'.join(tab['users'][0])}): {o[1]}",
                        {"kind": "database-entry", "table": tab["rows"], "users": tab["users"][:5]})
    # ---- representatives
    reps = {}
    for (f, r, m, t, fs) in triples:
        if r == "latest":
            reps.setdefault(t, []).append((f, r, m))
    layout_jobs, rt_jobs = [], []          # (table index, triple, depth)
    for t, users in sorted(reps.items()):
        users = sorted(users)
        layout_jobs.append((t, users[0], 2 if thorough else 1))
        # round trips: FCB-supported and FCB-unsupported users, several families per table
        pick = []
        for sup in (True, False):
            cand = [u for u in users if fcbs[u] == sup]
            if cand:
                pick.append(cand[0])
                if len(cand) > 1:
                    pick.append(cand[rng.randrange(1, len(cand))])
        for j, u in enumerate(dict.fromkeys(pick)):
            rt_jobs.append((t, u, (2 if thorough else 1) if j == 0 else 0))
    if thorough:
        # every (family, revision, memory type) triple of the database
        seen = {(t, u) for (t, u, _) in layout_jobs}
        for (f, r, m, t, fs) in triples:
            if (t, (f, r, m)) not in seen:
                layout_jobs.append((t, (f, r, m), 1))
        seen = {(t, u) for (t, u, _) in rt_jobs}
        rest = [(t, (f, r, m)) for (f, r, m, t, fs) in triples if (t, (f, r, m)) not in seen]
        deep = set(rng.sample(range(len(rest)), min(150, len(rest))))
        for j, (t, u) in enumerate(rest):
            rt_jobs.append((t, u, 1 if j in deep else 0))
    # ---- valid payloads for the round-trip stream
    reqs, seenk = [], set()
    for (t, u, d) in rt_jobs:
        for q in payload_requests(tables[t], u, fcbs[u]):
            if q["key"] not in seenk:
                seenk.add(q["key"])
                reqs.append(q)
    pay, why = {}, {}
    chunks = [reqs[i::NPROC] for i in range(NPROC)]
    for j, o in enumerate(run_impl_parallel([{"op": "payloads", "repo": vlib.REPO, "workdir": os.path.join(WORKDIR, f"pay{j}"),
                                              "requests": ch} for j, ch in enumerate(chunks) if ch])):
        pay.update(o["payloads"])
        why.update(o["why"])
    # ---- cases
    cases = []
    for (t, u, d) in layout_jobs:
        for c in gen_layout_cases(tables[t], u, rng, d):
            c.update(table=t, stream="layout")
            cases.append(c)
    nskipped = 0
    for (t, u, d) in rt_jobs:
        cs = gen_roundtrip_cases(tables[t], u, pay, rng, d)
        if not cs:
            nskipped += 1
        for c in cs:
            c.update(table=t, stream="roundtrip")
            cases.append(c)
    vlib.log(f"[C14] {len(tables)} layouts, {len(triples)} triples; {sum(c['stream'] == 'layout' for c in cases)} layout cases, "
             f"{sum(c['stream'] == 'roundtrip' for c in cases)} round-trip cases ({nskipped} triples without a buildable container)")
    import time
    t1 = time.time()
    nh = 0
    for i, c in enumerate(cases):
        take = (c["stream"] == "roundtrip" and (c["why"] in ("full", "variant", "merged-from") or i % 3 == 0)) or \
               (c["stream"] == "layout" and i % (7 if not thorough else 11) == 0)
        if take:
            c["history"] = plan_history(tables[c["table"]], c, rng)
            nh += 1
    results = impl_cases(tables, cases)
    vlib.log(f"[C14] implementation side done in {time.time() - t1:.1f} s")
    datas = [[payload_bytes(row, p) for row, p in zip(tables[c["table"]]["rows"], c["payloads"])] for c in cases]
    # ---- spec oracles on the implementation's outputs
    for c, d, r in zip(cases, datas, results):
        tab = tables[c["table"]]
        o = oracle_merge(tab, c, d, r)
        if o:
            rep.failing(o[0], "merge does not place the segments as the database prescribes: " + o[1],
                        {"kind": "impl-oracle", "api": "BootableImage.load_from_config(cfg).export()", "case": short(c),
                         "observed": {k: v for k, v in r.items() if k in ("load", "io", "segs", "total")}})
        for mode in (r.get("parses") or {}):
            o = oracle_roundtrip(tab, c, d, r, mode, fcbs[(c["family"], c["rev"], c["mem"])])
            if o:
                p = r["parses"][mode]
                rep.failing(o[0], "parse does not recover the merged segments: " + o[1],
                            {"kind": "impl-oracle", "api": f"BootableImage.parse(export(), family, mem_type, revision) [{mode}]",
                             "case": short(c), "observed": p if isinstance(p, list) else {"io": p["io"], "segs": [x[:5] for x in p["segs"]]}})
    nhist = 0
    for c, d, r in zip(cases, datas, results):
        if not c.get("history") or r["load"][0] != "ok":
            continue
        nhist += len([k for k in ("second", "reinit", "back", "replace", "clear") if (r.get("history") or {}).get(k)]) + \
            2 * len([1 for p in (r.get("parses") or {}).values() if isinstance(p, dict) and "reexport" in p])
        for sig, msg, ops in oracle_history(tables[c["table"]], c, d, r, fcbs[(c["family"], c["rev"], c["mem"])]):
            rep.failing(sig, "an export after a history of operations on one object differs from a fresh object's: " + msg,
                        {"kind": "impl-oracle", "case": short(c), "history": c["history"], "operations": ops})
    # ---- correspondence with the Coq model
    ndis = nexcused = 0
    if model_ok:
        try:
            exprs = [model_expr(tables[c["table"]], c, fcbs[(c["family"], c["rev"], c["mem"])]) for c in cases]
            exprs.append("run_case 3 [VInt 150; VInt 5]")
            t1 = time.time()
            mres = vlib.run_model_cases("c14", "Value BimgModel BimgPackModel Uint63", exprs, shard=40 if not thorough else 100, timeout=1500, jobs=8)
            vlib.log(f"[C14] model side done in {time.time() - t1:.1f} s ({len(exprs)} evaluations)")
            if mres[-1] != ("b", syn_bytes(150, 5)):
                rep.obligation("correspondence:synthetic payload generator", False, repr(mres[-1]))
            for c, r, d, mv in zip(cases, results, datas, mres):
                pairs = []
                if not c.get("parse"):
                    pairs.append(("merge", impl_merge_obs(r), model_merge_obs(d, mv)))
                else:
                    pairs.append(("merge", impl_merge_obs(r), model_merge_obs(d, mv[1][0])))
                    tab = tables[c["table"]]
                    inits = {0} | {x["offset"] for x in tab["rows"] if x["init"] and x["offset"] >= 0}
                    for mode, pv in zip(c["parse"], mv[1][1:]):
                        key = "typed" if mode == "typed" else f"cut{mode[1]}"
                        start = r.get("io", 0) if mode == "typed" else mode[1]
                        a, b = impl_parse_obs(r, key), model_parse_obs(d, pv)
                        if start not in inits and a != b:
                            # the real MBI/HAB parsers accept arbitrary bytes, the stand-in recognisers do not: a disagreement
                            # is excused only when the spec oracle classifies the implementation's ACTUAL outcome as exactly
                            # the recorded C14-F3 outcome "start located at a later INIT segment"
                            o = oracle_roundtrip(tab, c, d, r, key, fcbs[(c["family"], c["rev"], c["mem"])])
                            if o and o[0].startswith("roundtrip:start-at-later-init-segment:start-at-non-init-segment:"):
                                nexcused += 1
                                continue
                        pairs.append((key, a, b))
                for what, a, b in pairs:
                    if a != b:
                        ndis += 1
                        if ndis <= 6:
                            vlib.log(f"  disagreement [{what}] {short(c)}:\n    impl  {summ(a)}\n    model {summ(b)}")
            rep.obligation("correspondence:model=implementation (load_from_config/export/parse) on all cases", ndis == 0,
                           f"{ndis} disagreements" if ndis else "")
        except Exception as ex:  # noqa
            rep.obligation("correspondence:model evaluation", False, repr(ex))
    else:
        rep.obligation("correspondence:model builds", False, mout[-1500:])
    # ---- coverage
    for stream in ("layout", "roundtrip"):
        idx = [i for i, c in enumerate(cases) if c["stream"] == stream]
        ok = [i for i in idx if results[i]["load"][0] == "ok" and isinstance(results[i].get("image"), str)]
        distinct = len({(cases[i]["table"], cases[i]["init"], repr(cases[i]["payloads"])) for i in ok})
        nparse = sum(len(results[i].get("parses") or {}) for i in idx)
        rep.add_stream(f"{stream}: load_from_config/export" + ("/parse" if stream == "roundtrip" else ""),
                       len(idx) + nparse, distinct, samples=[short(cases[i]) for i in idx[1:4]], exhaustive=False,
                       extra={"rejected_or_error": len(idx) - len(ok), "tables": len({cases[i]["table"] for i in idx}),
                              "triples": len({(cases[i]["family"], cases[i]["rev"], cases[i]["mem"]) for i in idx}),
                              "parses": nparse})
    # scenario classes exercised by the round-trip stream (counted on successful, byte-exact recoveries)
    n_float, n_short = 0, 0
    for c, d, r in zip(cases, datas, results):
        if c["stream"] != "roundtrip" or r["load"][0] != "ok":
            continue
        rows = tables[c["table"]]["rows"]
        for mode, p in (r.get("parses") or {}).items():
            if isinstance(p, list):
                continue
            got = [uz(x[5]) if isinstance(x[5], str) else None for x in p["segs"]]
            for k, srow in enumerate(rows):
                if srow["offset"] < 0 and d[k] and d[k - 1] and srow["align"] != rows[k - 1]["align"] \
                        and len(d[k - 1]) % srow["align"] != 0 and got[k] == d[k] and got[k - 1] == d[k - 1]:
                    n_float += 1
            start = p["io"]
            total = len(uz(r["image"])) - (int(mode[3:]) if mode.startswith("cut") else 0)
            if start > 0 and total <= start and any(g for g in got):
                n_short += 1
    rep.add_stream("history: second export / init_offset change and back / segment replaced / segment cleared / parse(data).export() "
                   "on one object vs a fresh object", nhist, nh, samples=[c["history"] for c in cases if c.get("history")][:3],
                   exhaustive=False)
    rep.add_stream("database sweep: every (family, revision, memory type) layout checked well-formed in Coq and by the table oracle",
                   len(triples), len(tables), samples=[tables[0]["rows"]], exhaustive=True)
    shutil.rmtree(WORKDIR, ignore_errors=True)
    return rep.finish(
        rule="layout stream: per layout all subsets of supplied segments, all init requests at/around every segment start, "
             "boundary sizes (1, SIZE-1, SIZE, SIZE+1, limit-1, limit, limit+1) of one segment at a time, seeded mixtures; "
             "round-trip stream: valid payloads of every class built by SPSDK itself, parsed whole / from every segment start / "
             "merged with every init offset; distinct_nontrivial counts distinct (layout, init, payload set) inputs that were merged",
        trusted_base=["Coq 8.16.1 kernel + vm_compute", "tools/regen_c14.py + spsdk.utils.database loader (data extractor)",
                      "hand model Model/BimgModel.v tied by correspondence",
                      "per-class recognisers (FCB/XMCD/MBI/HAB/AHAB/SB parsers) are parameters of parse_merge; stand-ins in the correspondence"],
        checker_cmd="coqc -R . V Props/C14/*.v (after make Proofs/BimgProofs.vo)",
        assumptions=["segments are supplied as raw binaries (len(segment) = number of bytes)",
                     "fill patterns of the database are 'zeros' or 'ones' (the extractor fails closed otherwise)",
                     "a structured segment's own parser accepts its own export and reports its length (C01/C06/C07/C12)"],
        extra_cov={"payloads_unavailable": sorted(why)[:40],
                   "model_disagreements_excused_as_exact_C14_F3_outcome": nexcused,
                   "scenario_classes": {
                       "floating segment after a predecessor whose length is not a multiple of the floating alignment, both recovered by parse": n_float,
                       "image read from a later init offset and not longer than that offset, segment recovered by parse": n_short}})


def summ(x):
    s = repr(x)
    return s if len(s) < 400 else s[:400] + f"... ({len(s)} chars)"


def oracle_table(tab):
    """Independent of Coq's wf_table: what the property needs of a database entry."""
    rows = tab["rows"]
    prev_end = None
    seen_dyn = False
    for k, s in enumerate(rows):
        if s["offset"] < 0:
            if k == 0:
                return ("floating-first", f"floating segment {s['name']} has no predecessor")
            seen_dyn = True
            continue
        if seen_dyn:
            return ("static-after-floating", f"segment {s['name']} with a fixed offset follows a floating one")
        if prev_end is not None and s["offset"] < prev_end:
            return ("order", f"segment {s['name']} at {s['offset']:#x} starts before the end {prev_end:#x} of its predecessor")
        prev_end = s["offset"] + max(s["size"], 0)
        if prev_end == s["offset"] and k + 1 < len(rows) and rows[k + 1]["offset"] >= 0 and rows[k + 1]["offset"] <= s["offset"]:
            return ("order", f"segment after {s['name']} does not start later")
    return None


if __name__ == "__main__":
    sys.exit(run(sys.argv[1] if len(sys.argv) > 1 else "quick"))
