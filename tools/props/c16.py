"""C16 -- BinaryImage: composition, validation, file formats preserve bytes and addresses
(DESIGN.md section 3, C16).  Anchors: spsdk/utils/images.py, spsdk/utils/misc.py (align, align_block, BinaryPattern)."""
import copy
import itertools
import os
import shutil
import sys

sys.path.insert(0, os.path.dirname(os.path.dirname(os.path.abspath(__file__))))
import vlib
from vlib import VI, VB, VL

try:
    import regen_c16
except Exception as _ex:  # noqa
    regen_c16 = None
    _regen_import_error = repr(_ex)

PID = "C16"
SCRATCH = os.path.join(vlib.WORK, PID)
THEOREMS = [
    "export_length", "export_places_children", "export_places_descendants", "export_fill",
    "align_only_extends", "validate_iff", "validate_nonempty_bytes", "add_image_sorted",
    "append_image_at_end", "load_places_segments", "hex_view_is_export", "hex_view_total_with_root_pattern",
    "segments_sound", "build_wf_constructed",
]
PAT_TEXT = {0: "zeros", 1: "ones", 2: "inc"}


# ------------------------------------------------------------------ tree helpers
def T(size=0, al=1, off=0, bin=b"", pat=None, kids=None):
    """pat: None | (tag, value, text); kids: list of [append(0/1), T]"""
    return {"size": size, "al": al, "off": off, "bin": bytes(bin), "pat": pat, "kids": kids or []}


def wire(t):
    return {"size": t["size"], "al": t["al"], "off": t["off"], "bin": t["bin"].hex(),
            "pat": None if t["pat"] is None else t["pat"][2], "kids": [[ap, wire(k)] for ap, k in t["kids"]]}


def lit(t):
    p = VL([]) if t["pat"] is None else VL([VI(t["pat"][0]), VI(t["pat"][1])])
    return VL([VI(t["size"]), VI(t["al"]), VI(t["off"]), VB(t["bin"]), p,
               VL([VL([VI(ap), lit(k)]) for ap, k in t["kids"]])])


def depth(t):
    return 1 + max([depth(k) for _, k in t["kids"]], default=0)


def nodes(t):
    return 1 + sum(nodes(k) for _, k in t["kids"])


# ------------------------------------------------------------------ the specification (independent of SPSDK and of the Coq model)
def ceil_to(x, a):
    return -((-x) // a) * a


def fill_byte(pat, i):
    """byte that the fill pattern puts at position i of an image"""
    if pat is None or pat[0] == 0:
        return 0
    if pat[0] == 1:
        return 0xFF
    if pat[0] == 2:
        return i & 0xFF
    v = pat[1]
    nb = 1
    while v >> (8 * nb):
        nb += 1
    return (v >> (8 * (nb - 1 - i % nb))) & 0xFF


class Unbuildable(Exception):
    pass


def resolve(t):
    """Give every node its length L and resolved offset; children in the order add_image must keep (by offset, stable)."""
    if t["al"] <= 0 or t["size"] < 0:
        raise Unbuildable()
    a = t["al"]
    explicit = ceil_to(t["size"], a)
    n = {"off": t["off"], "bin": t["bin"], "pat": t["pat"], "al": a, "kids": []}
    cur = len(t["bin"])
    for ap, k in t["kids"]:
        kn = resolve(k)
        if ap:
            kn["off"] = explicit if explicit else ceil_to(cur, a)   # append: at the parent's current length
        n["kids"].append(kn)
        cur = max(cur, kn["off"] + kn["L"])
    n["L"] = explicit if explicit else ceil_to(cur, a)
    n["kids"] = sorted(n["kids"], key=lambda k: k["off"])           # stable
    return n


def valid(n, lax):
    """what the property calls a valid layout.  lax=True ignores zero-length children (the property does not speak about them)"""
    if n["off"] < 0:
        return False
    if len(n["bin"]) > n["L"]:
        return False
    ks = n["kids"]
    for k in ks:
        if not valid(k, lax):
            return False
    cons = [k for k in ks if k["L"] > 0] if lax else ks
    for k in cons:
        if k["off"] + k["L"] > n["L"]:
            return False
    for x, y in itertools.combinations(cons, 2):
        if not (x["off"] + x["L"] <= y["off"] or y["off"] + y["L"] <= x["off"]):
            return False
    return True


def render(n):
    """the exported buffer the property demands for a valid tree"""
    buf = bytearray(fill_byte(n["pat"], i) for i in range(n["L"]))
    buf[:len(n["bin"])] = n["bin"]
    for k in n["kids"]:
        buf[k["off"]:k["off"] + k["L"]] = render(k)
    return bytes(buf)


def spec_shape(n, base=0):
    out = [[base + n["off"], n["L"]]]
    for k in n["kids"]:
        out += spec_shape(k, base + n["off"])
    return out


def flat_shape(sh):
    """nested [addr, len, kids] -> depth-first list of [addr, len]"""
    out = [[sh[0], sh[1]]]
    for k in sh[2]:
        out += flat_shape(k)
    return out


def canon_shape(sh):
    return (sh[0], sh[1], tuple(sorted(canon_shape(k) for k in sh[2])))


def levels_sorted(sh):
    addrs = [k[0] for k in sh[2]]
    return addrs == sorted(addrs) and all(levels_sorted(k) for k in sh[2])


def nest_spec_shape(n, base=0):
    return [base + n["off"], n["L"], [nest_spec_shape(k, base + n["off"]) for k in n["kids"]]]


def below_empty(n, flag=False):
    """per node (same order as spec_shape): does it have a zero-length proper ancestor?"""
    out = [flag]
    for k in n["kids"]:
        out += below_empty(k, flag or n["L"] == 0)
    return out


def empty_patterned(n):
    return (n["L"] == 0 and n["pat"] is not None) or any(empty_patterned(k) for k in n["kids"])


def child_regions(n, base=0):
    out = []
    for k in n["kids"]:
        out.append((base + k["off"], base + k["off"] + k["L"]))
        out += child_regions(k, base + k["off"])
    return out


def data_mask(n, base, mask):
    """addresses that carry data in a HEX / S-record rendering: pattern-filled extents and binaries"""
    a = base + n["off"]
    if n["pat"] is not None:
        mask.update(range(a, a + n["L"]))
    mask.update(range(a, a + len(n["bin"])))
    for k in n["kids"]:
        data_mask(k, a, mask)


def unpatterned_under_pattern(n, covered=False):
    """a node without a pattern below an ancestor that writes data (a pattern or an own binary) -- class of C16-F1"""
    if n["pat"] is None and covered:
        return True
    return any(unpatterned_under_pattern(k, covered or n["pat"] is not None or len(n["bin"]) > 0) for k in n["kids"])


def is_text(b):
    try:
        b.decode("utf-8")
        return True
    except UnicodeDecodeError:
        return False


def is_text_image(b):
    """Does bincopy's format guess take the content for a SREC / Intel-HEX / TI-TXT / Verilog-VMEM text image (it parses
    with data, or its first record is valid and a later one is not)?  bincopy is used here only to name the input class
    of the remaining finding C16-F2; such a BIN file is indistinguishable from a text image."""
    if not is_text(b):
        return False
    import bincopy
    bf = bincopy.BinFile()
    try:
        bf.add(b.decode("utf-8"))
    except bincopy.UnsupportedFileFormatError:
        return False
    except Exception:  # noqa   guessed as a text format, then rejected by its parser
        return True
    return len(bf.segments) > 0


def text_image_outcome(b):
    """The exact defective outcome of finding C16-F2 for BIN content b: what load_binary_image returns when bincopy's
    format guess decodes the content as a text image.  None when the content is not in that class;
    ("fail",) when the guessed format's parser rejects it; ("ok", offset, export-hex) otherwise."""
    if not is_text_image(b):
        return None
    import bincopy
    bf = bincopy.BinFile()
    try:
        bf.add(b.decode("utf-8"))
    except Exception:  # noqa
        return ("fail",)
    segs = [(s.address, bytes(s.data)) for s in bf.segments]
    lo = min(a for a, _ in segs)
    hi = max(a + len(d) for a, d in segs)
    if hi - lo > (1 << 22):
        return ("ok", lo, "!e2:TooLarge")
    buf = bytearray(hi - lo)
    for a, d in segs:
        buf[a - lo:a - lo + len(d)] = d
    return ("ok", lo, bytes(buf).hex())


def is_f2_outcome(b, r):
    """does the implementation's BIN reload r show exactly the C16-F2 behaviour for content b?"""
    want = text_image_outcome(b)
    if want is None or r.get("save") != "ok":
        return False
    if want == ("fail",):
        return r.get("load") == "!e1"
    return r.get("load") == "ok" and r.get("offset") == want[1] and r.get("export") == want[2]


def oracle_tree(t, res):
    """Spec oracle for one tree observation. Returns list of (signature, message)."""
    out = []
    try:
        n = resolve(t)
    except Unbuildable:
        return out
    if res["build"] != "ok":
        return [("build:rejects-valid-arguments", f"constructor/add_image failed: {res['build']}")]
    if res["len"] != n["L"]:
        out.append(("len:wrong", f"len() = {res['len']}, explicit-or-derived size is {n['L']}"))
    want_shape = spec_shape(n)
    got_nested = res["shape"]
    got_shape = flat_shape(got_nested) if isinstance(got_nested, list) else got_nested
    if got_shape != want_shape:
        if isinstance(got_nested, list) and canon_shape(got_nested) == canon_shape(nest_spec_shape(n)) and levels_sorted(got_nested):
            pass    # same nodes at the same addresses, every sub_images list sorted: only the order among equal offsets differs
        else:
            be = below_empty(n)
            only_below_empty = (isinstance(got_shape, list) and len(got_shape) == len(want_shape)
                                and all(a == b or f for a, b, f in zip(got_shape, want_shape, be)))
            out.append(("absolute_address:node-under-zero-length-parent" if only_below_empty else "add_image:order-or-address",
                        f"absolute addresses/lengths in sub_images order {got_shape} != {want_shape}"))
    vs, vl = valid(n, False), valid(n, True)
    got = res["validate"]
    if got not in ("ok", "!e1"):
        out.append(("validate:crash", f"validate() raised {got}"))
    elif vs == vl and (got == "ok") != vs:
        cls = "accepts-invalid" if got == "ok" else "rejects-valid"
        why = ""
        if got == "ok":
            why = ":binary-longer-than-size" if any_bin_too_long(n) else ":overlap-or-sticks-out"
        out.append((f"validate:{cls}{why}", f"validate() -> {got}, layout is {'valid' if vs else 'invalid'}"))
    if vs and vl:
        exp = res["export"]
        if exp.startswith("!"):
            out.append(("export:fails-on-valid-tree", f"export() raised {exp}"))
        else:
            data = bytes.fromhex(exp)
            want = render(n)
            if len(data) != n["L"] or len(data) != res["len"]:
                out.append(("export:length", f"export() has {len(data)} bytes, len() = {res['len']}, size {n['L']}"))
            elif data != want:
                pos = next(i for i in range(len(data)) if data[i] != want[i])
                inside = any(lo <= pos < hi for lo, hi in child_regions(n, 0))
                out.append(("export:child-bytes-not-at-offset" if inside else "export:fill-or-own-binary",
                            f"export()[{pos}] = {data[pos]:#x}, expected {want[pos]:#x}"))
            tw = res.get("twin_export")
            if tw is not None and not any(ap for ap, _ in t["kids"]) and not tw.startswith("!") and not data.startswith(bytes.fromhex(tw)):
                out.append(("align:padding-changes-content", "export() with alignment is not an extension of export() with alignment 1"))
    return out


def any_bin_too_long(n):
    return len(n["bin"]) > n["L"] or any(any_bin_too_long(k) for k in n["kids"])


def oracle_fmt(t, case, res):
    """Spec oracle for save -> load of a valid tree. Returns list of (signature, message)."""
    out = []
    n = resolve(t)
    if res.get("export", "!").startswith("!") or res["validate"] != "ok":
        return out
    E = bytes.fromhex(res["export"])
    base = n["off"]
    for fmt in case["formats"]:
        r = res[fmt]
        if fmt == "BIN":
            if not E:
                continue
            lo, hi = base, base + len(E)
        else:
            mask = set()
            data_mask(n, 0, mask)
            if not mask:
                # nothing to save: the load may be refused, but it must not invent bytes
                if r.get("save") == "ok" and r.get("load") == "ok":
                    out.append((f"save_load:{fmt}:dataless-image-loads-file-text",
                                f"an image without data was saved; loading the file gives bytes {r['export'][:60]}"))
                continue
            lo, hi = min(mask), max(mask) + 1
        if r.get("save") != "ok":
            cls = ":zero-length-patterned-node" if empty_patterned(n) else ""
            out.append((f"save_load:{fmt}:save-fails{cls}", f"save_binary_image raised {r.get('save')}"))
            continue
        cls = ""
        if fmt == "BIN" and is_text_image(E):
            # the finding's signature is keyed on the exact defective OUTCOME, not on the input class
            cls = ":decoded-by-format-guess" if is_f2_outcome(E, r) else ":content-is-guessed-as-a-text-image"
        elif fmt == "BIN" and is_text(E):
            cls = ":text-content-without-image-data"
        elif fmt != "BIN" and unpatterned_under_pattern(n):
            cls = ":unpatterned-node-over-ancestor-data"
        if r["load"] != "ok":
            out.append((f"save_load:{fmt}:load-fails{cls}", f"load_binary_image raised {r['load']}"))
            continue
        # every data address [lo, hi) must be present, nothing outside the image, every loaded byte = export() there
        if r["export"].startswith("!"):
            out.append((f"save_load:{fmt}:bytes{cls}", f"export() of the loaded image raised {r['export']}"))
            continue
        got = bytes.fromhex(r["export"])
        if fmt == "BIN":
            g_lo, g_hi = base + r["offset"], base + r["offset"] + len(got)      # BIN carries no address: relative to the caller's offset
        else:
            g_lo, g_hi = r["offset"], r["offset"] + len(got)
        if not (base <= g_lo <= lo and hi <= g_hi <= base + len(E)):
            out.append((f"save_load:{fmt}:address{cls}", f"loaded image covers [{g_lo:#x}, {g_hi:#x}), data lies in [{lo:#x}, {hi:#x}) "
                        f"of the image [{base:#x}, {base + len(E):#x})"))
        elif got != E[g_lo - base:g_hi - base]:
            out.append((f"save_load:{fmt}:bytes{cls}", f"bytes after save/load differ from export() at the same addresses: "
                        f"{got.hex()[:80]} != {E[g_lo - base:g_hi - base].hex()[:80]}"))
        else:
            for so, sd in r["segments"]:
                a = g_lo + so
                if bytes.fromhex(sd) != E[a - base:a - base + len(sd) // 2]:
                    out.append((f"save_load:{fmt}:segment-bytes{cls}", f"segment at {a:#x} differs from export()"))
                    break
        if r.get("validate") not in (None, "ok"):
            out.append((f"save_load:{fmt}:loaded-image-invalid{cls}", f"validate() of the loaded image -> {r['validate']}"))
        if fmt != "BIN" and r.get("exec") != case.get("exec"):
            out.append((f"save_load:{fmt}:exec-start-address", f"execution start address {case.get('exec')} came back as {r.get('exec')}"))
    return out


# ------------------------------------------------------------------ generators
ALIGNS = [1, 1, 1, 1, 2, 4, 4, 8, 16]


def rnd_pat(rng, allow_none=True):
    k = rng.random()
    if allow_none and k < 0.3:
        return None
    if k < 0.45:
        return (0, 0, "zeros")
    if k < 0.6:
        return (1, 0, "ones")
    if k < 0.75:
        return (2, 0, "inc")
    nb = rng.choice([1, 1, 2, 3, 4, 5])
    v = rng.getrandbits(8 * nb) if rng.random() < 0.9 else rng.choice([0, 1, 0x100, 0xFFFF])
    txt = rng.choice([hex(v), str(v), "0x" + format(v, "X"), bin(v)])
    return (3, v, txt)


def rnd_bytes(rng, n):
    return bytes(rng.getrandbits(8) for _ in range(n))


def spec_len(t):
    try:
        return resolve(t)["L"]
    except Unbuildable:
        return 0


def gen_tree(rng, depth_left, invalid_p, big=False):
    """mostly valid tree; with probability invalid_p one layout rule is broken somewhere"""
    al = rng.choice(ALIGNS + ([512] if big and rng.random() < 0.3 else []))
    pat = rnd_pat(rng)
    binlen = rng.choice([0, 0, 0, 1, 2, 3, 4, 5, 8, 13, 16, 31]) if rng.random() < 0.55 else 0
    kids = []
    cursor = binlen if rng.random() < 0.9 else max(binlen - rng.choice([1, 2]), 0)
    nk = 0
    if depth_left > 1:
        nk = rng.choice([0, 1, 1, 2, 2, 3, 4]) if rng.random() < 0.85 else rng.choice([5, 6])
    if depth_left > 1 and nk == 0 and rng.random() < 0.5:
        nk = 1
    for _ in range(nk):
        k = gen_tree(rng, depth_left - 1, 0.0 if invalid_p == 0 else invalid_p / 3, big)
        kl = spec_len(k)
        gap = rng.choice([0, 0, 0, 1, 3, al, al - 1, 7])
        mode = 0
        r = rng.random()
        if r < 0.12:
            mode = 1                                  # append_image
            k["off"] = rng.choice([0, 5, -1])         # overwritten by append_image
        else:
            k["off"] = cursor + gap
            if rng.random() < invalid_p:
                k["off"] = rng.choice([cursor - 1, cursor - kl, -1, -kl - 1, cursor - 1 - gap, max(cursor - kl + 1, 0), -3])
        kids.append([mode, k])
        if mode == 1:
            cursor = ceil_to(max(cursor, 0), al) + kl   # approximate: only used to place the following children
        else:
            cursor = max(cursor, k["off"] + kl)
    rng.shuffle(kids) if rng.random() < 0.6 and not any(m for m, _ in kids) else None
    if not kids and binlen == 0 and rng.random() < 0.8:
        binlen = rng.choice([1, 2, 4, 7])
    t = T(0, al, 0, rnd_bytes(rng, binlen), pat, kids)
    need = 0
    try:
        need = resolve(t)["L"]
    except Unbuildable:
        pass
    r = rng.random()
    if r < 0.45:
        t["size"] = 0
    elif r < 0.65:
        t["size"] = need
    elif r < 0.8:
        t["size"] = need + rng.choice([1, al, al + 1, 16])
    elif r < 0.8 + 0.2 * min(1.0, invalid_p * 2 + 0.05):
        t["size"] = max(need - rng.choice([1, 1, 2, al]), 0)      # too small (or 0 -> derived)
    else:
        t["size"] = max(need - al + 1, 0)                           # rounds up to exactly `need`
    if rng.random() < 0.004:
        t["al"] = rng.choice([0, -1])
    if rng.random() < 0.004:
        t["size"] = -1
    return t


def two_sibling_layouts(offs, sizes, psizes, als):
    """exhaustive small domain: one parent, two children given by (offset, length)"""
    out = []
    for ps in psizes:
        for al in als:
            for o1 in offs:
                for s1 in sizes:
                    for o2 in offs:
                        for s2 in sizes:
                            k1 = T(0, 1, o1, bytes([0x11] * s1), None)
                            k2 = T(0, 1, o2, bytes([0x22] * s2), (1, 0, "ones"))
                            out.append(T(ps, al, 0, b"", (2, 0, "inc"), [[0, k1], [0, k2]]))
    return out


def corner_trees():
    A, B = bytes([0xAA, 0xBB]), bytes(range(1, 9))
    ones, inc, num = (1, 0, "ones"), (2, 0, "inc"), (3, 0x1234, "0x1234")
    c = []
    c.append(T(4, 1, 0, B))                                         # D11: binary longer than declared size
    c.append(T(4, 4, 0, bytes(range(7)), inc))
    c.append(T(0, 1, 0, b"", None, [[0, T(4, 1, 0, B)]]))           # D11 below the root
    c.append(T(16, 1, 0x1000, b"", ones, [[0, T(8, 1, 4, A)]]))     # child without pattern in a patterned parent
    c.append(T(8, 1, 0, b"", None, [[0, T(0, 1, -4, A)]]))          # negative offsets (slice from the end)
    c.append(T(8, 1, 0, b"", None, [[0, T(0, 1, -2, A)]]))
    c.append(T(8, 1, 0, b"", None, [[0, T(0, 1, 7, A)]]))           # sticks out by one
    c.append(T(8, 1, 0, b"", None, [[0, T(0, 1, 6, A)]]))           # exact fit
    c.append(T(8, 1, 0, b"", None, [[0, T(0, 1, 20, b"")]]))        # empty child beyond the end
    c.append(T(8, 1, 0, b"", None, [[0, T(0, 1, 8, b"")]]))         # empty child at the end
    c.append(T(0, 1, 0, b"", None, [[0, T(0, 1, 2, A)], [0, T(0, 1, 2, A)]]))   # equal siblings at the same place
    c.append(T(0, 1, 0, b"", None, [[0, T(0, 1, 2, A)], [0, T(0, 1, 3, A)]]))   # overlap by one byte
    c.append(T(0, 1, 0, b"", None, [[0, T(0, 1, 2, A)], [0, T(0, 1, 4, A)]]))   # adjacent
    c.append(T(0, 1, 0, b"", None, [[0, T(0, 1, 4, A)], [0, T(0, 1, 2, A)]]))   # inserted out of order
    c.append(T(0, 4, 0, b"", num, [[0, T(0, 1, 1, A)], [1, T(0, 1, 0, B)], [1, T(0, 8, 0, A, inc)]]))  # append_image
    c.append(T(5, 4, 0, b"", inc))                                  # size aligned by the constructor
    c.append(T(0, 16, 0, bytes(range(5)), num))
    c.append(T(0, 1, 0, B, None, [[0, T(0, 1, 4, A)]]))             # child over the parent's own binary
    c.append(T(0, 512, 0, A, ones, [[0, T(0, 1, 600, A)]]))
    c.append(T(3, 0, 0))
    c.append(T(-3, 1, 0))
    zeros = (0, 0, "zeros")
    c.append(T(16, 1, 0x100, b"", None, [[0, T(0, 1, 0, b"", zeros)], [0, T(0, 1, 8, A)]]))      # former C16-F4 witness (repaired)
    c.append(T(8, 1, 0x100, b"", None, [[0, T(0, 1, 8, b"", None, [[0, T(0, 1, 0, b"", None)]])]]))  # former C16-F3 witness (repaired)
    c.append(T(8, 1, 0x100, b"", zeros, [[0, T(0, 1, 8, b"", zeros, [[0, T(0, 1, 0, b"", zeros)]])]]))
    c.append(T(0, 1, 0x100, b"\xb9\x39", None, [[0, T(4, 1, 1, b"\xa6", None)]]))    # former C16-F1, own-binary variant (repaired)
    d4 = T(0, 1, 1, A, ones)
    for al_, pat_ in ((2, inc), (4, None), (8, num)):
        d4 = T(0, al_, 3, b"\x01", pat_, [[0, d4], [0, T(0, 1, 40, B, None)]])
    c.append(d4)                                                    # depth 4
    return c


BASES = [0, 1, 0xFFF0, 0xFFFF, 0x10000, 0x08000000, 0x1FFF8, 0x7FFFFFF0, 0xFFFF0000]


def text_like_contents(rng, n):
    c = [b"abcd", b"AAAA", b"@00 12", b"\n", b"q", b"@1000\n01 02\nq\n", b"// x", b"12 34 56 78",
         b":0400000001020304F2\n:00000001FF\n", b"S1", b"hello world\n", b"S00600004844521B\nS1070000010203041F\nS9030000FC\n"]
    for _ in range(n):
        k = rng.choice([2, 4, 8])
        c.append(" ".join("".join(rng.choice("0123456789abcdef") for _ in range(k)) for _ in range(rng.randrange(1, 5))).encode())
    return c


def gen_cfg(rng):
    """a `binary-image merge` configuration + the image tree it denotes"""
    al = rng.choice([1, 1, 4, 8, 16])
    rootpat = rng.choice([None, (0, 0, "zeros"), (1, 0, "ones"), (2, 0, "inc"), (3, 0xA5, "0xA5"), (3, 0x1234, "0x1234")])
    cur = rootpat if rootpat is not None else (0, 0, "zeros")      # load_from_config: BinaryPattern(config.get("pattern", "zeros"))
    regions, kids = [], []
    cursor = 0
    for _ in range(rng.choice([1, 2, 2, 3, 4])):
        explicit = rng.random() < 0.6
        gap = rng.choice([0, 0, 1, 3, al, 16])
        off = cursor + gap if explicit else None
        if explicit and rng.random() < 0.15:
            off = max(cursor - rng.choice([1, 2, 5]), 0)           # overlapping regions: validate must refuse
        if rng.random() < 0.6:
            content = b"\xff" + rnd_bytes(rng, rng.choice([0, 1, 3, 7, 15, 32]))     # first byte 0xFF: not UTF-8, loaded as BIN
            regions.append({"kind": "file", "content": content.hex(), "offset": off})
            node = T(0, 1, off if explicit else 0, b"", cur, [[0, T(len(content), 1, 0, content, cur)]])
            ln = len(content)
        else:
            bp = rng.choice([(0, 0, "zeros"), (1, 0, "ones"), (2, 0, "inc"), (3, 0x5A, "0x5a"), (3, 0xBEEF, "0xBEEF")])
            size = rng.choice([1, 2, 4, 5, 16, 33])
            regions.append({"kind": "block", "size": size, "pattern": bp[2], "offset": off})
            node = T(size, 1, off if explicit else 0, b"", bp)
            cur = bp                                               # the local `pattern` is re-bound by a binary_block region
            ln = size
        kids.append([0 if explicit else 1, node])
        cursor = (off if explicit else ceil_to(cursor, al)) + ln
    need = ceil_to(cursor, al)
    size = rng.choice([0, 0, need, need + al, max(need - 1, 0)])
    t = T(size, al, 0, b"", cur0(rootpat), kids)
    return {"op": "cfg", "t": t, "cfg": {"op": "cfg", "size": size, "al": al, "pat": None if rootpat is None else rootpat[2],
                                         "regions": regions}, "twin": False}


def cur0(rootpat):
    return rootpat if rootpat is not None else (0, 0, "zeros")


def explicit(t):
    """same tree with append_image kids turned into add_image kids at their resolved offsets (insertion order kept)"""
    a = t["al"]
    ex = ceil_to(t["size"], a)
    cur = len(t["bin"])
    kids = []
    for ap, k in t["kids"]:
        k2 = explicit(k)
        if ap:
            k2["off"] = ex if ex else ceil_to(cur, a)
        kids.append([0, k2])
        cur = max(cur, k2["off"] + resolve(k2)["L"])
    return T(t["size"], a, t["off"], t["bin"], t["pat"], kids)


def sorted_kids(t):
    """kids in sub_images order (stable by offset), recursively -- index paths of the implementation refer to this order"""
    ks = sorted(((ap, sorted_kids(k)) for ap, k in t["kids"]), key=lambda x: x[1]["off"])
    return T(t["size"], t["al"], t["off"], t["bin"], t["pat"], [[ap, k] for ap, k in ks])


def gen_hist(rng):
    """(tree, change, fresh tree): one layout-affecting change through the public API after an export"""
    for _ in range(50):
        t = gen_tree(rng, rng.choice([1, 2, 2, 3, 3, 4]), 0.0)
        try:
            resolve(t)
            t = sorted_kids(explicit(t))
            n = resolve(t)
        except Unbuildable:
            continue
        if not valid(n, False):
            continue
        kind = rng.choice(["add", "append", "bin", "bin", "off"])
        fresh = copy.deepcopy(t)
        path, node = [], fresh
        while node["kids"] and rng.random() < 0.6:
            ix = rng.randrange(len(node["kids"]))
            path.append(ix)
            node = node["kids"][ix][1]
        if kind in ("add", "append"):
            L = resolve(node)["L"]
            child = T(0, 1, 0, rnd_bytes(rng, rng.choice([1, 2, 5, 9])), rnd_pat(rng))
            if kind == "add":
                child["off"] = L + rng.choice([0, 0, 1, 4]) if rng.random() < 0.85 else max(L - 1, 0)
            node["kids"].append([1 if kind == "append" else 0, child])
            change = {"kind": kind, "path": path, "child": wire(child)}
        elif kind == "bin":
            nb = rnd_bytes(rng, rng.choice([0, 1, len(node["bin"]) + 1, len(node["bin"]) + 7, 33]))
            node["bin"] = nb
            change = {"kind": "bin", "path": path, "bin": nb.hex()}
        else:
            if not path:
                continue
            node["off"] = node["off"] + rng.choice([1, 4, 16, 64])
            change = {"kind": "off", "path": path, "off": node["off"]}
        return {"op": "hist", "t": t, "change": change, "fresh": fresh}
    raise RuntimeError("no history case")


def oracle_hist(c, res):
    out = []
    if res.get("build") != "ok":
        return out
    what = "BinaryImage.export"
    if res["second"] != res["first"]:
        out.append((f"history:second-export-differs:{what}", f"second len/validate/export {res['second']} != first {res['first']}"))
    if res["after2"] != res["after"]:
        out.append((f"history:second-export-differs:{what}:after-{c['change']['kind']}", "export() after the change is not repeatable"))
    fr = res["fresh"]
    if res["change"] == "ok" and "build" not in fr:
        kind = c["change"]["kind"]
        if res["after"]["len"] != fr["len"]:
            out.append((f"history:stale-after-change:{kind}:len", f"len() after the change = {res['after']['len']}, fresh tree = {fr['len']}"))
        if res["after"]["validate"] != fr["validate"]:
            out.append((f"history:stale-after-change:{kind}:validate", f"validate() after the change -> {res['after']['validate']}, fresh tree -> {fr['validate']}"))
        elif fr["validate"] == "ok" and res["after"]["export"] != fr["export"]:
            out.append((f"history:stale-after-change:{kind}:export", f"export() after the change {res['after']['export'][:60]} != fresh tree {fr['export'][:60]}"))
        # the fresh tree itself against the specification
        try:
            n = resolve(c["fresh"])
            if valid(n, False) and valid(n, True) and not fr["export"].startswith("!") and bytes.fromhex(fr["export"]) != render(n):
                out.append(("export:fill-or-own-binary", "fresh tree of the history stream differs from the specified bytes"))
        except Unbuildable:
            pass
    return out


def gen_streams(tier, rng):
    thorough = tier == "thorough"
    s = {}
    s["corner trees"] = [{"op": "tree", "t": t, "twin": True} for t in corner_trees()]
    if thorough:
        two = two_sibling_layouts(range(-1, 8), range(0, 4), (0, 4, 6, 8), (1, 4))
    else:
        two = two_sibling_layouts(range(-1, 5), range(0, 3), (0, 4), (1, 4))
    s["two-sibling layouts (exhaustive box)"] = [{"op": "tree", "t": t, "twin": False} for t in two]
    trees = []
    for i in range(20000 if thorough else 1200):
        d = rng.choice([1, 2, 2, 3, 3, 4, 4])
        trees.append(gen_tree(rng, d, rng.choice([0.0, 0.0, 0.0, 0.25, 0.5]), big=(i % 10 == 0)))
    s["random trees depth 1..4"] = [{"op": "tree", "t": t, "twin": True} for t in trees]
    # file formats: valid trees with data, base address up to 32 bits
    fm = []
    pool = [t for t in corner_trees()]
    for i in range(4000 if thorough else 300):
        pool.append(gen_tree(rng, rng.choice([1, 2, 3, 4]), 0.0, big=(i % 8 == 0)))
    for t in pool:
        try:
            n = resolve(t)
        except Unbuildable:
            continue
        if not (valid(n, False) and valid(n, True)) or n["L"] == 0:
            continue
        t = copy.deepcopy(t)
        base = rng.choice(BASES + [0x100000000 - n["L"], rng.getrandbits(32)])
        if base + n["L"] > 0x100000000:
            base = 0x100000000 - n["L"]
        t["off"] = base
        ex = rng.choice([None, None, 0, 0x1234, base, 0xFFFFFFFF])
        fm.append({"op": "fmt", "t": t, "formats": ["BIN", "HEX", "S19"], "exec": ex})
    s["save/load BIN+HEX+S19 of valid trees"] = fm
    s["binary-image merge configurations (load_from_config)"] = [gen_cfg(rng) for _ in range(4000 if thorough else 200)]
    s["histories: export twice, change the layout, export again"] = [gen_hist(rng) for _ in range(800 if thorough else 80)]
    flat = [{"op": "bin", "content": c} for c in text_like_contents(rng, 40 if thorough else 10)]
    flat += [{"op": "bin", "content": rnd_bytes(rng, rng.choice([1, 2, 3, 4, 16, 33, 256]))} for _ in range(200 if thorough else 40)]
    s["BIN save/load of flat contents (text-like and random)"] = flat
    return s


def to_payload(c):
    if c["op"] == "cfg":
        return c["cfg"]
    if c["op"] == "hist":
        return {"op": "hist", "tree": wire(c["t"]), "change": c["change"], "fresh": wire(c["fresh"]),
                "operations": ["build tree", "len/validate/export", "len/validate/export", "change " + c["change"]["kind"],
                               "len/validate/export", "len/validate/export", "build fresh tree", "len/validate/export"]}
    if c["op"] == "tree":
        return {"op": "tree", "tree": wire(c["t"]), "twin": c["twin"]}
    if c["op"] == "fmt":
        return {"op": "fmt", "tree": wire(c["t"]), "formats": c["formats"], "exec": c["exec"]}
    return {"op": "bin", "content": c["content"].hex()}


# ------------------------------------------------------------------ model side
def model_exprs(c):
    if c["op"] == "hist":
        return []
    if c["op"] in ("tree", "cfg"):
        return [f"run_case 1 [{vlib.coq_lit(lit(c['t']))}]"]
    if c["op"] == "fmt":
        l = vlib.coq_lit(lit(c["t"]))
        return [f"run_case 2 [{l}]", f"run_case 3 [{l}]"]
    t = T(0, 1, 0, c["content"])
    return [f"run_case 3 [{vlib.coq_lit(lit(t))}]"]


def impl_tree_value(res):
    """implementation observation in the shape of the model's `observe`"""
    if res["build"] != "ok":
        return ("e", int(res["build"][2]))
    exp = res["export"]
    ev = ("e", int(exp[2])) if exp.startswith("!") else ("b", bytes.fromhex(exp))
    if not isinstance(res["len"], int) or not isinstance(res["shape"], list):
        return ("e", 2)
    fs = flat_shape(res["shape"])
    val = res["validate"]
    vv = ("i", 1) if val == "ok" else (("i", 0) if val == "!e1" else ("e", int(val[2])))
    return ("l", [("i", res["len"]), vv, ev, ("l", [("l", [("i", a), ("i", n)]) for a, n in fs])])


def impl_loaded_value(r):
    if r.get("save") != "ok":
        return ("e", int(r["save"][2]))
    if r["load"] != "ok":
        return ("e", int(r["load"][2]))
    exp = r["export"]
    ev = ("e", int(exp[2])) if exp.startswith("!") else ("b", bytes.fromhex(exp))
    return ("l", [("i", r["offset"]), ("l", [("l", [("i", o), ("b", bytes.fromhex(d))]) for o, d in r["segments"]]), ev,
                  ("i", 1 if r["validate"] == "ok" else 0)])


def compare(c, res, mvals):
    """list of (stream-part, impl value, model value) that disagree"""
    dis = []
    if c["op"] == "hist":
        return dis
    if c["op"] in ("tree", "cfg"):
        iv = impl_tree_value(res)
        if iv != mvals[0]:
            dis.append(("tree", iv, mvals[0]))
        return dis
    if c["op"] == "fmt":
        if res["build"] != "ok":
            return dis
        m_hex, m_bin = mvals
        for fmt in ("HEX", "S19"):
            iv = impl_loaded_value(res[fmt])
            if iv != m_hex:
                dis.append((fmt, iv, m_hex))
        E = bytes.fromhex(res["export"]) if not res["export"].startswith("!") else b""
        if not is_f2_outcome(E, res["BIN"]):   # excused only for the exact C16-F2 outcome (reported by the oracle); else compared
            iv = impl_loaded_value(res["BIN"])
            if iv != m_bin:
                dis.append(("BIN", iv, m_bin))
        return dis
    if not is_f2_outcome(c["content"], res["BIN"]):
        iv = impl_loaded_value(res["BIN"])
        if iv != mvals[0]:
            dis.append(("BIN", iv, mvals[0]))
    return dis


# ------------------------------------------------------------------ main
def run(tier):
    rep = vlib.Report(PID, tier)
    rng = vlib.Rng(vlib.seed())
    files = os.path.join(SCRATCH, "files")          # temp files of the save/load streams (proposed_fix_*.diff stay)
    shutil.rmtree(files, ignore_errors=True)
    os.makedirs(files, exist_ok=True)
    # (T1) interval tests of validate() and the size rule of __len__ regenerated from the current source
    try:
        if regen_c16 is None:
            raise RuntimeError(_regen_import_error)
        regen_c16.regen()
        rep.obligation("translate:spsdk/utils/images.py->Gen/GenImage.v", True)
    except Exception as ex:  # noqa  (fail closed)
        rep.obligation("translate:spsdk/utils/images.py->Gen/GenImage.v", False, repr(ex))
    try:
        import regen_c20
        regen_c20.regen()
        rep.obligation("translate:spsdk/utils/misc.py->Gen/GenMisc.v", True)
    except Exception as ex:  # noqa
        rep.obligation("translate:spsdk/utils/misc.py->Gen/GenMisc.v", False, repr(ex))
    # (P) proofs
    model_ok, mout = vlib.coq_make(["Model/ImageModel.vo"])
    vlib.check_theorems(rep, PID, THEOREMS, ["Proofs/ImageProofs.vo"])
    vlib.audit(rep)
    if tier == "thorough" and hasattr(vlib, "coqchk"):
        vlib.coqchk(rep, PID, THEOREMS)
    # (T2) + spec oracles
    streams = gen_streams(tier, rng)
    flat, owner = [], []
    for name, cs in streams.items():
        for c in cs:
            flat.append(c)
            owner.append(name)
    impl = vlib.run_impl("c16_impl.py", {"scratch": files,
                                         "cases": [to_payload(c) for c in flat]}, timeout=3000)
    results = impl["results"]
    nfail = 0
    for c, res in zip(flat, results):
        hits = []
        if c["op"] == "hist":
            hits = oracle_hist(c, res)
        elif c["op"] in ("tree", "cfg"):
            hits = oracle_tree(c["t"], res)
        elif c["op"] == "fmt":
            hits = oracle_tree(c["t"], res) + oracle_fmt(c["t"], c, res)
        else:
            t = T(0, 1, 0, c["content"])
            r2 = dict(res)
            r2.update({"export": c["content"].hex(), "validate": "ok"})
            hits = oracle_fmt(t, {"formats": ["BIN"]}, r2)
        for sig, msg in hits:
            nfail += 1
            rep.failing(sig, f"BinaryImage violates C16 ({sig}): {msg}",
                        {"kind": "impl-oracle", "signature": sig, "case": to_payload(c), "impl_result": res,
                         "how": "tools/impl/c16_impl.py with {'scratch': <dir>, 'cases': [case]}"})
    ndis = 0
    if model_ok:
        try:
            exprs, span = [], []
            for c in flat:
                e = model_exprs(c)
                span.append((len(exprs), len(e)))
                exprs += e
            mres = vlib.run_model_cases("c16", "Value ImageModel", exprs, shard=400 if tier == "quick" else 600, jobs=8)
            for c, res, (a, k) in zip(flat, results, span):
                for part, iv, mv in compare(c, res, mres[a:a + k]):
                    ndis += 1
                    if ndis <= 5:
                        vlib.log(f"  disagreement [{part}] case {to_payload(c)}: impl {iv} model {mv}")
                    if ndis == 1:
                        rep.first_disagreement = {"part": part, "case": to_payload(c), "impl": repr(iv), "model": repr(mv)}
            rep.obligation("correspondence:model=implementation on all cases (len, validate, export, addresses, save/load segments)",
                           ndis == 0, f"{ndis} disagreements; first: {getattr(rep, 'first_disagreement', None)}" if ndis else "")
        except Exception as ex:  # noqa
            rep.obligation("correspondence:model evaluation", False, repr(ex))
    else:
        rep.obligation("correspondence:model builds", False, mout[-1500:])
    # coverage accounting (measured)
    for name, cs in streams.items():
        idx = [i for i, o in enumerate(owner) if o == name]
        seen = set()
        nvalid = ninvalid = 0
        hist = {}
        for i in idx:
            r = results[i]
            if r.get("build") != "ok":
                continue
            if flat[i]["op"] == "hist":
                d = depth(flat[i]["t"])
                hist[d] = hist.get(d, 0) + 1
                if r["change"] == "ok" and r["after"] != r["first"]:
                    seen.add(repr(to_payload(flat[i])))
            elif flat[i]["op"] in ("tree", "fmt", "cfg"):
                d = depth(flat[i]["t"])
                hist[d] = hist.get(d, 0) + 1
                if r["validate"] == "ok":
                    nvalid += 1
                else:
                    ninvalid += 1
                if r["validate"] == "ok" and nodes(flat[i]["t"]) > 1:
                    seen.add(repr(to_payload(flat[i])))
            else:
                if r["BIN"].get("load") == "ok":
                    seen.add(flat[i]["content"])
        rep.add_stream(name, len(idx) * (3 if flat[idx[0]]["op"] == "fmt" else 1) if idx else 0, len(seen),
                       samples=[to_payload(flat[i]) for i in idx[:2]],
                       exhaustive=name.startswith("two-sibling"),
                       extra={"validate_ok": nvalid, "validate_rejected": ninvalid, "depth_histogram": hist})
    shutil.rmtree(files, ignore_errors=True)
    return rep.finish(
        rule="trees are drawn from VERIF_SEED (depth 1..4, boundary-biased offsets/sizes, ~1/3 deliberately invalid) or enumerated "
             "exhaustively (two-sibling box); distinct_nontrivial counts distinct trees with at least one sub-image that the "
             "implementation validated (for the BIN stream: distinct contents that loaded)",
        trusted_base=["Coq 8.16.1 kernel + vm_compute",
                      "tools/translate/pyfun.py (Python ast -> Gallina) for align() and the interval tests of validate()",
                      "hand model Model/ImageModel.v tied to spsdk/utils/images.py by correspondence",
                      "bincopy 20.x record text codec and segment merging (third party): reached only through real temp files",
                      "CPython bytearray / memoryview slice semantics as modelled by Bytes.splice / mv_write"],
        checker_cmd="coqc -R . V Props/C16/*.v (after make Proofs/ImageProofs.vo)",
        assumptions=["image trees are proper trees: one BinaryImage object is never added twice (validate compares siblings by identity)",
                     "children are complete before they are added to their parent (bottom-up construction)",
                     "patterns are zeros / ones / inc / non-negative numbers ('rand' is an RNG stream and not modelled)",
                     "base address + size <= 2^32 for HEX / S19",
                     "BIN reload excludes contents that are themselves valid SREC/IHEX/TI-TXT/VMEM text with data (known finding C16-F2)",
                     "zero-length sub-images: the property text does not say whether they can overlap; the theorem states the code's rule"])


if __name__ == "__main__":
    sys.exit(run(sys.argv[1] if len(sys.argv) > 1 else "quick"))
