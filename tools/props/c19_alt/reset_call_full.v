From Coq Require Import String Ascii ZArith NArith List Bool Lia.
Require Import Value Bytes GenBd BdModel BdProofs.
Import ListNotations.
Local Open Scope string_scope.
Local Open Scope list_scope.
Local Open Scope Z_scope.

(* tools/props/c19_alt/reset_call_full.v -- compiled INSTEAD of Props/C19/reset_call_refuted.v when SB21Helper.cmds has
   handlers for "reset" and "call" (finding C19-F5 repaired; the model knows the handlers _reset and _call). *)
Lemma call_lemma : forall c fs kbs t a, no_size t = true -> no_size_arg a = true ->
  to_opt (compile_impl c fs kbs (SCall false t a)) = stmt_spec c fs kbs (SCall false t a).
Proof.
  intros c fs kbs t a Ht Ha. destruct a as [| |e]; simpl in Ha.
  all: unfold stmt_spec, spec_arg; repeat rewrite sev_ev by assumption.
  all: unfold compile_impl, stmt_dict, d_callarg.
  all: repeat match goal with |- context [ev ?c ?e] => let v := fresh "v" in let k := fresh "k" in destruct (ev c e) as [v|k] end.
  all: simpl; try reflexivity.
  all: unfold helper; simpl; unfold run_handler; simpl; unfold h_call, dint, guard; simpl.
  all: match goal with |- context [u32 ?x] => destruct (u32 x) end; reflexivity.
Qed.

(* C19: reset becomes one RESET command, call <address> [(argument)] one CALL command with the stated operands *)
Theorem reset_call_full :
  (forall c fs kbs, compile_impl c fs kbs SReset = Ok (mk 8 0 0 0 0 PNone (-1)) /\ stmt_spec c fs kbs SReset = Some (mk 8 0 0 0 0 PNone (-1))) /\
  (forall c fs kbs t a, no_size t = true -> no_size_arg a = true ->
     to_opt (compile_impl c fs kbs (SCall false t a)) = stmt_spec c fs kbs (SCall false t a)).
Proof. split; [intros; split; reflexivity | exact call_lemma]. Qed.
Print Assumptions reset_call_full.
