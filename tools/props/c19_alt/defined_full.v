From Coq Require Import String Ascii ZArith NArith List Bool Lia.
Require Import Value Bytes GenBd BdModel BdProofs.
Import ListNotations.
Local Open Scope string_scope.
Local Open Scope list_scope.
Local Open Scope Z_scope.

(* tools/props/c19_alt/defined_full.v -- compiled INSTEAD of Props/C19/defined_refuted.v when the extracted shape of the
   defined() action shows that finding C19-F2 is repaired. *)
(* C19: defined(x) is true exactly when x has an earlier definition *)
Theorem defined_full :
  forall (env : env) (x : N), to_opt (beval_impl env (BDefined x)) = beval_spec env (BDefined x).
Proof. intros env x. simpl. unfold defined_impl, is_defined. reflexivity. Qed.
Print Assumptions defined_full.
