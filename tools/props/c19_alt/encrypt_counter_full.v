From Coq Require Import String Ascii ZArith NArith List Bool Lia.
Require Import Value Bytes GenBd BdModel BdProofs.
Import ListNotations.
Local Open Scope string_scope.
Local Open Scope list_scope.
Local Open Scope Z_scope.

(* tools/props/c19_alt/encrypt_counter_full.v -- compiled INSTEAD of Props/C19/encrypt_counter_refuted.v when the extracted
   call shape of SB21Helper._encrypt shows counter_value=address (finding C19-F8 repaired). *)
Lemma st_encrypt_file_full : forall c fs kbs id o p t, sclean (SEncrypt id o (LFile p) t) = true ->
   to_opt (compile_impl c fs kbs (SEncrypt id o (LFile p) t)) = stmt_spec c fs kbs (SEncrypt id o (LFile p) t).
Proof.
  intros c fs kbs id o p t Hs. simpl in Hs.
  destruct o as [|s|eo]; destruct t as [e1|e1 e2]; simpl in Hs; split_hyps.
  all: prep c.
  all: destruct p as [|p0 p']; simpl.
  all: run_helper; simpl; unfold load_binary.
  all: try (destruct (lookup_file (p0 :: p') fs) as [bytes|]); simpl; try reflexivity.
  all: try (destruct (resolve_keyblob kbs v) as [k|k] eqn:Ek; simpl; try reflexivity).
  all: enc_fin.
Qed.
Lemma st_encrypt_src_full : forall c fs kbs id o x t, sclean (SEncrypt id o (LSource x) t) = true ->
   to_opt (compile_impl c fs kbs (SEncrypt id o (LSource x) t)) = stmt_spec c fs kbs (SEncrypt id o (LSource x) t).
Proof.
  intros c fs kbs id o x t Hs. simpl in Hs.
  destruct o as [|s|eo]; destruct t as [e1|e1 e2]; simpl in Hs; split_hyps.
  all: prep c.
  all: destruct (lookup_src x (srcs c)) as [p|]; simpl; try reflexivity.
  all: try (destruct p as [|p0 p']; simpl).
  all: run_helper; simpl; unfold load_binary.
  all: try (destruct (lookup_file (p0 :: p') fs) as [bytes|]); simpl; try reflexivity.
  all: try (destruct (resolve_keyblob kbs v) as [k|k] eqn:Ek; simpl; try reflexivity).
  all: enc_fin.
Qed.

(* C19: encrypt (id) { load file > addr; } becomes one LOAD of the data encrypted for its system address, wherever inside the
   key blob it is placed *)
Theorem encrypt_counter_full :
  forall c fs kbs id o d t, sclean (SEncrypt id o d t) = true ->
    to_opt (compile_impl c fs kbs (SEncrypt id o d t)) = stmt_spec c fs kbs (SEncrypt id o d t).
Proof.
  intros c fs kbs id o d t Hs. destruct d as [e|p|x|b]; try (simpl in Hs; discriminate).
  - apply st_encrypt_file_full; assumption.
  - apply st_encrypt_src_full; assumption.
Qed.
Print Assumptions encrypt_counter_full.
