From Coq Require Import String Ascii ZArith NArith List Bool Lia.
Require Import Value Bytes GenBd BdModel BdProofs.
Import ListNotations.
Local Open Scope string_scope.
Local Open Scope list_scope.
Local Open Scope Z_scope.

(* tools/props/c19_alt/expr_sem_full.v -- compiled by the check INSTEAD of Props/C19/size_suffix_refuted.v when the
   tables extracted from the source show that finding C19-F1 is repaired (masks = word / half-word / byte and PERIOD
   binds tighter than every binary operator).  Move to coq/Props/C19/ (proof part to coq/Proofs/) once /repo is fixed. *)
Lemma size_mask_spec : forall s, lookup_mask (isize_text s) size_masks = Some (Z.ones (spec_size_bits s)).
Proof. destruct s; reflexivity. Qed.

Lemma expr_sem_full_lemma : forall env e, to_opt (eval_impl env e) = eval_spec env e.
Proof.
  intros env e. induction e as [z|x|o a IHa b IHb|a IHa|a IHa|a IHa s]; simpl.
  - reflexivity.
  - destruct (lookup_var x env) as [[z|s|s|b]|]; reflexivity.
  - rewrite to_opt_bind, IHa. destruct (eval_spec env a) as [va|]; simpl; [|reflexivity].
    rewrite to_opt_bind, IHb. destruct (eval_spec env b) as [vb|]; simpl; [|reflexivity].
    rewrite expr_table_standard. simpl. apply apply_std_spec.
  - rewrite to_opt_bind, IHa. destruct (eval_spec env a); simpl; [|reflexivity].
    try rewrite unary_minus_negates; reflexivity.
  - rewrite to_opt_bind, IHa. destruct (eval_spec env a); simpl; [|reflexivity].
    try rewrite unary_plus_identity; reflexivity.
  - rewrite to_opt_bind, IHa. destruct (eval_spec env a) as [v|]; simpl; [|reflexivity].
    try rewrite period_not_in_chain. rewrite size_mask_spec. simpl.
    rewrite Z.land_ones by (destruct s; simpl; lia). reflexivity.
Qed.

(* C19: integer constant expressions, integer-size suffixes included, evaluate with ordinary arithmetic; and the suffix
   binds tighter than the binary operators: 0xa.b + 0xb.b is (0xa.b) + (0xb.b) *)
Theorem expr_sem_full :
  (forall (env : env) (e : expr), to_opt (eval_impl env e) = eval_spec env e) /\
  parse_tokens [TNum 10; TSize SzB; TOp Add; TNum 11; TSize SzB]
    = Some (EBin Add (ESize (ELit 10) SzB) (ESize (ELit 11) SzB)).
Proof. split; [exact expr_sem_full_lemma | vm_compute; reflexivity]. Qed.
Print Assumptions expr_sem_full.
