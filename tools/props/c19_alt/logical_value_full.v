From Coq Require Import String Ascii ZArith NArith List Bool Lia.
Require Import Value Bytes GenBd BdModel BdProofs.
Import ListNotations.
Local Open Scope string_scope.
Local Open Scope list_scope.
Local Open Scope Z_scope.

(* tools/props/c19_alt/logical_value_full.v -- compiled INSTEAD of Props/C19/logical_value_refuted.v when the extracted
   rows of && and || are bool(a and b) / bool(a or b), i.e. finding C19-F3 is repaired. *)
Fixpoint bclean2 (b : bexpr) : bool :=       (* no size suffix, no defined(); any operand of && / || *)
  match b with
  | BInt x => no_size x
  | BCmp _ a c | BAndL a c | BOrL a c => bclean2 a && bclean2 c
  | BNot a => bclean2 a
  | BDefined _ => false
  end.

Lemma and_row_truth : lookup_op "&&" bool_ops = Some (PyAndBool, false).
Proof. reflexivity. Qed.
Lemma or_row_truth : lookup_op "||" bool_ops = Some (PyOrBool, false).
Proof. reflexivity. Qed.

Lemma bool_sem_logical_lemma : forall env b, bclean2 b = true -> to_opt (beval_impl env b) = beval_spec env b.
Proof.
  intros env b. induction b as [e|o a IHa c IHc|a IHa c IHc|a IHa c IHc|a IHa|x]; simpl; intros H.
  - apply expr_sem_except_known; assumption.
  - apply andb_true_iff in H. destruct H as [Ha Hc].
    rewrite to_opt_bind, (IHa Ha). destruct (beval_spec env a) as [va|]; simpl; [|reflexivity].
    rewrite to_opt_bind, (IHc Hc). destruct (beval_spec env c) as [vc|]; simpl; [|reflexivity].
    rewrite bool_table_standard. simpl. rewrite apply_cmp_spec. reflexivity.
  - apply andb_true_iff in H. destruct H as [Ha Hc].
    rewrite to_opt_bind, (IHa Ha). destruct (beval_spec env a) as [va|]; simpl; [|reflexivity].
    rewrite to_opt_bind, (IHc Hc). destruct (beval_spec env c) as [vc|]; simpl; [|reflexivity].
    try rewrite and_row_truth; reflexivity.
  - apply andb_true_iff in H. destruct H as [Ha Hc].
    rewrite to_opt_bind, (IHa Ha). destruct (beval_spec env a) as [va|]; simpl; [|reflexivity].
    rewrite to_opt_bind, (IHc Hc). destruct (beval_spec env c) as [vc|]; simpl; [|reflexivity].
    try rewrite or_row_truth; reflexivity.
  - rewrite to_opt_bind, (IHa H). destruct (beval_spec env a); reflexivity.
  - discriminate.
Qed.

(* C19: && and || yield truth values for arbitrary operands *)
Theorem logical_value_full :
  (forall (env : env) (b : bexpr), bclean2 b = true -> to_opt (beval_impl env b) = beval_spec env b) /\
  beval_impl [] (BAndL (BInt (ELit 2)) (BInt (ELit 3))) = Ok 1 /\ beval_impl [] (BOrL (BInt (ELit 0)) (BInt (ELit 5))) = Ok 1.
Proof. split; [exact bool_sem_logical_lemma | split; reflexivity]. Qed.
Print Assumptions logical_value_full.
