"""C19 -- BD command files mean what they say (DESIGN.md section 3, C19).

Pipeline: (T1) regenerate coq/Gen/GenBd.v from the parser / lexer / helper sources, (P) build Model/BdModel.v +
Proofs/BdProofs.v and compile every Props/C19/<theorem>.v, audit, then (T2) generate BD programs from the grammar of
docs/usage/elf2sb.md restricted to the supported subset, run the real BDParser + BootImageV21.load_from_config on them,
apply the independent specification oracle of this file to SPSDK's own outputs, run the Coq model on the same ASTs and
compare every observable exactly.

Eight defects found by this check (C19-F1..F8: size-suffix masks and precedence, defined(), && / || operand value, blob
byte order, missing call / reset handlers, greedy quoted literals, section options silently dropped, encrypt counter) were
repaired in /repo (fix: commits 0edf534 ea35e31 c751eb0 80cfe5f dd776ba b6a16b5 55fcaa0 7913662).  The streams that
exercise them stay: each oracle reports the defect class in the signature ("bd:<class>:<item>") if one returns."""
import json
import os
import shutil
import sys

sys.path.insert(0, os.path.dirname(os.path.dirname(os.path.abspath(__file__))))
import vlib
import regen_c19

PID = "C19"
sys.set_int_max_str_digits(0)
THEOREMS = ["expr_sem", "bool_sem", "division_is_c_division_on_naturals", "prec_table_documented",
            "every_operator_production_has_a_row", "print_parse", "quoted_literals_separate", "consts_resolve", "keyblob_resolves",
            "stmt_sem", "stmt_never_mistranslated", "exactly_one_command", "unsupported_refused", "section_options_refused"]
WORK = os.path.join(vlib.WORK, PID)

# ======================================================================================================
# The language (specification side): concrete syntax and documented precedence
# ======================================================================================================
BINOPS = ["+", "-", "*", "/", "%", "<<", ">>", "&", "|", "^"]
COQ_BINOP = {"+": "Add", "-": "Sub", "*": "Mul", "/": "Div", "%": "Mod", "<<": "Shl", ">>": "Shr", "&": "BAnd", "|": "BOr", "^": "BXor"}
CMPOPS = ["<", "<=", ">", ">=", "==", "!="]
COQ_CMP = {"<": "CLt", "<=": "CLe", ">": "CGt", ">=": "CGe", "==": "CEq", "!=": "CNe"}
# C precedence, lowest first (the comment "Operators precedence" of the parser); unary sign: additive level (yacc rule)
DOC_PREC = [["||"], ["&&"], ["|"], ["^"], ["&"], ["==", "!="], [">", ">=", "<", "<="], ["<<", ">>"], ["+", "-"], ["*", "/", "%"]]
LEVEL = {op: i + 1 for i, row in enumerate(DOC_PREC) for op in row}
UNARY_LEVEL = LEVEL["-"]
SIZE_BITS = {"b": 8, "h": 16, "w": 32}
RESERVED = {"call", "constants", "extern", "erase", "false", "filters", "from", "jump", "load", "mode", "else", "info", "error",
            "enable", "keywrap", "keystore_to_nv", "keystore_from_nv", "all", "no", "options", "raw", "section", "sources",
            "switch", "true", "yes", "if", "defined", "warning", "sizeof", "unsecure", "jump_sp", "keyblob", "reset", "encrypt",
            "version_check", "sec", "nsec"}
LEGACY_MEM = {"qspi": 1, "fuse": 4, "ifr": 4, "flexspinor": 9, "semcnand": 256, "spinand": 257, "spieeprom": 272,
              "i2ceeprom": 273, "sdcard": 288, "mmccard": 289}      # documented legacy names that resolve
ALL_MEM_NAMES = ["internal", "qspi", "fuse", "ifr", "semcnor", "flexspinor", "semcnand", "spinand", "spieeprom", "i2ceeprom",
                 "sdcard", "mmccard", "nosuchmem"]
U32 = 0xFFFFFFFF


class Refuse(Exception):
    """The specification gives the construct no meaning: SPSDK must refuse it."""


class Unspecified(Exception):
    """The specification of this file has no opinion (outside the supported subset)."""


def name_of(i):
    return f"v{i}"


# ------------------------------------------------------------------------------------------------------
# independent evaluator (oracle): ordinary arithmetic on Python ints
# ------------------------------------------------------------------------------------------------------
def spec_div_ok(a, b, q):
    """q is an ordinary integer quotient of a by b: remainder smaller than the divisor (floor or truncation)."""
    r = a - q * b
    return abs(r) < abs(b)


def spec_eval(e, env, opts=None):
    """Value of an integer expression. Division / remainder of negative operands: returns the pair of admissible
    results as a frozenset when floor and truncation differ (see division_is_c_division_on_naturals)."""
    t = e[0]
    if t == "lit":
        return e[1]
    if t == "var":
        if e[1] not in env or not isinstance(env[e[1]], int):
            raise Unspecified("identifier without an integer definition")
        return env[e[1]]
    if t == "neg":
        return -spec_eval(e[1], env)
    if t == "pos":
        return spec_eval(e[1], env)
    if t == "size":
        return spec_eval(e[1], env) % (1 << SIZE_BITS[e[2]])
    if t == "bin":
        a, b = spec_eval(e[2], env), spec_eval(e[3], env)
        op = e[1]
        if op == "+":
            return a + b
        if op == "-":
            return a - b
        if op == "*":
            return a * b
        if op in ("/", "%"):
            if b == 0:
                raise Refuse("division by zero")
            if (a < 0 or b < 0) and a % b != 0:
                raise Unspecified("quotient of negative operands: floor and truncation differ")
            return a // b if op == "/" else a % b
        if op in ("<<", ">>"):
            if b < 0:
                raise Refuse("negative shift count")
            if b > 4096:
                raise Unspecified("huge shift")
            return a * (2 ** b) if op == "<<" else a // (2 ** b)
        if op == "&":
            return a & b
        if op == "|":
            return a | b
        if op == "^":
            return a ^ b
    raise ValueError(e)


def spec_beval(b, env):
    t = b[0]
    if t == "int":
        return spec_eval(b[1], env)
    if t == "cmp":
        x, y = spec_beval(b[2], env), spec_beval(b[3], env)
        return int({"<": x < y, "<=": x <= y, ">": x > y, ">=": x >= y, "==": x == y, "!=": x != y}[b[1]])
    if t == "and":
        x, y = spec_beval(b[1], env), spec_beval(b[2], env)
        return int(x != 0 and y != 0)
    if t == "or":
        x, y = spec_beval(b[1], env), spec_beval(b[2], env)
        return int(x != 0 or y != 0)
    if t == "not":
        return int(spec_beval(b[1], env) == 0)
    if t == "defined":
        return int(b[1] in env)
    raise ValueError(b)


# ------------------------------------------------------------------------------------------------------
# finding features of an AST (used only to attribute a failing case to a listed finding)
# ------------------------------------------------------------------------------------------------------
def feats_expr(e, fenv):
    t = e[0]
    if t == "lit":
        return set()
    if t == "var":
        return set(fenv.get(e[1], set()))
    if t in ("neg", "pos"):
        return feats_expr(e[1], fenv)
    if t == "size":
        return {"int-size-suffix"} | feats_expr(e[1], fenv)
    return feats_expr(e[2], fenv) | feats_expr(e[3], fenv)


def bool_shaped(b):
    return not (b[0] == "int" and not (b[1][0] == "lit" and b[1][1] in (0, 1)))


def feats_bexpr(b, fenv):
    t = b[0]
    if t == "int":
        return feats_expr(b[1], fenv)
    if t == "cmp":
        return feats_bexpr(b[2], fenv) | feats_bexpr(b[3], fenv)
    if t in ("and", "or"):
        f = feats_bexpr(b[1], fenv) | feats_bexpr(b[2], fenv)
        if not (bool_shaped(b[1]) and bool_shaped(b[2])):
            f = f | {"logical-operand-value"}
        return f
    if t == "not":
        return feats_bexpr(b[1], fenv)
    return {"defined"}


# ------------------------------------------------------------------------------------------------------
# printers: AST -> BD text
# ------------------------------------------------------------------------------------------------------
# quoted literals end at the first closing quote, so a line may carry several of them (C19-F6 if the greedy rules return)
CHAR_BUDGET = [99]


def lit_text(n, fmt, rng=None):
    assert n >= 0
    if fmt == "x":
        return ("0x%x" if (rng is None or rng.random() < 0.5) else "0X%X") % n
    if fmt == "K" and n % 1024 == 0:
        return f"{n // 1024}K"
    if fmt == "c":
        bs = n.to_bytes(max(1, (n.bit_length() + 7) // 8), "big")
        if n > 0 and CHAR_BUDGET[0] > 0 and all(0x20 <= c < 0x7F and c not in (0x27, 0x22, 0x5C) for c in bs):
            CHAR_BUDGET[0] -= 1
            return "'" + bs.decode("ascii") + "'"
    if fmt == "t" and n in (0, 1):
        return {1: ["true", "yes"], 0: ["false", "no"]}[n][0 if rng is None else rng.randrange(2)]
    return str(n)


def print_expr(e, m=1, mode="min", rng=None):
    """mode 'min': the parentheses the documented precedence requires; 'full': every operation parenthesised;
    'rand': required ones plus random redundant ones."""
    t = e[0]
    if t == "lit":
        s = lit_text(e[1], e[2] if len(e) > 2 else "d", rng)
        return s
    if t == "var":
        s = name_of(e[1])
    elif t == "bin":
        lv = LEVEL[e[1]]
        body = f"{print_expr(e[2], lv, mode, rng)} {e[1]} {print_expr(e[3], lv + 1, mode, rng)}"
        need = m > lv or mode == "full"
        return f"({body})" if need or (mode == "rand" and rng.random() < 0.25) else body
    elif t in ("neg", "pos"):
        body = ("-" if t == "neg" else "+") + (" " if (rng and rng.random() < 0.3) else "") + print_expr(e[1], UNARY_LEVEL + 1, mode, rng)
        need = m > UNARY_LEVEL or mode == "full"
        return f"({body})" if need or (mode == "rand" and rng.random() < 0.25) else body
    elif t == "size":
        # the lexer recognises the suffix only directly behind a digit / hex letter and a period
        # the suffix binds tighter than every binary operator (elftosb convention; PERIOD row of the precedence tuple), so the
        # suffixed literal is an atom; were the row lost again (C19-F1), `1 + 2.b` would read as `(1 + 2).b`
        inner = e[1]
        assert inner[0] == "lit"
        fmt = inner[2] if len(inner) > 2 and inner[2] in "dx" else "d"
        body = f"{lit_text(inner[1], fmt, None)}.{e[2]}"
        return f"({body})" if (mode == "full" or (mode == "rand" and rng.random() < 0.2)) else body
    else:
        raise ValueError(e)
    if mode == "rand" and rng.random() < 0.15:
        return f"({s})"
    return s


def print_bexpr(b, m=1, mode="min", rng=None):
    t = b[0]
    if t == "int":
        return print_expr(b[1], _int_level(m), mode, rng)
    if t == "cmp":
        lv = LEVEL[b[1]]
        body = f"{print_bexpr(b[2], lv, mode, rng)} {b[1]} {print_bexpr(b[3], lv + 1, mode, rng)}"
    elif t in ("and", "or"):
        op = "&&" if t == "and" else "||"
        lv = LEVEL[op]
        body = f"{print_bexpr(b[1], lv, mode, rng)} {op} {print_bexpr(b[2], lv + 1, mode, rng)}"
    elif t == "not":
        return "!" + print_bexpr(b[1], 99, mode, rng)
    elif t == "defined":
        return f"defined({name_of(b[1])})"
    else:
        raise ValueError(b)
    need = m > lv or mode == "full"
    return f"({body})" if need or (mode == "rand" and rng.random() < 0.2) else body


def _int_level(m):
    """An integer expression inside a boolean expression.  By the grammar of elf2sb.md every integer operator binds
    tighter than every boolean operator; by the C table | ^ & bind looser than comparisons.  The printer parenthesises
    | ^ & operands of comparisons, so that the text means the same under both readings."""
    if m >= 99:
        return 99
    return LEVEL["<<"] if m >= LEVEL["=="] else 1


def starts_with_ident(text):
    return text[:1].isalpha() or text[:1] == "_"


# ------------------------------------------------------------------------------------------------------
# AST -> Coq terms of Model/BdModel.v
# ------------------------------------------------------------------------------------------------------
def cz(n):
    return f"({n})" if n < 0 else str(n)


def coq_ln(bs):
    return "[" + "; ".join(f"{b}%N" for b in bytes(bs)) + "]"


def coq_str(s):
    return coq_ln([ord(c) for c in s])


def coq_expr(e):
    t = e[0]
    if t == "lit":
        return f"(ELit {cz(e[1])})"
    if t == "var":
        return f"(EVar {e[1]}%N)"
    if t == "bin":
        return f"(EBin {COQ_BINOP[e[1]]} {coq_expr(e[2])} {coq_expr(e[3])})"
    if t == "neg":
        return f"(ENeg {coq_expr(e[1])})"
    if t == "pos":
        return f"(EPos {coq_expr(e[1])})"
    if t == "size":
        return f"(ESize {coq_expr(e[1])} Sz{e[2].upper()})"
    raise ValueError(e)


def coq_bexpr(b):
    t = b[0]
    if t == "int":
        return f"(BInt {coq_expr(b[1])})"
    if t == "cmp":
        return f"(BCmp {COQ_CMP[b[1]]} {coq_bexpr(b[2])} {coq_bexpr(b[3])})"
    if t == "and":
        return f"(BAndL {coq_bexpr(b[1])} {coq_bexpr(b[2])})"
    if t == "or":
        return f"(BOrL {coq_bexpr(b[1])} {coq_bexpr(b[2])})"
    if t == "not":
        return f"(BNot {coq_bexpr(b[1])})"
    return f"(BDefined {b[1]}%N)"


def coq_cexpr(c):
    return f"(CEStr {coq_str(c[1])})" if c[0] == "str" else f"(CEBool {coq_bexpr(c)})"


def coq_memopt(o):
    if o is None:
        return "MNone"
    if o[0] == "name":
        return f'(MName "{o[1]}"%string)'
    return f"(MAt {coq_expr(o[1])})"


def coq_target(t):
    return f"(TAddr {coq_expr(t[1])})" if t[0] == "addr" else f"(TRange {coq_expr(t[1])} {coq_expr(t[2])})"


def coq_ldata(d):
    if d[0] == "pat":
        return f"(LPattern {coq_expr(d[1])})"
    if d[0] == "file":
        return f"(LFile {coq_str(d[1])})"
    if d[0] == "src":
        return f"(LSource {d[1]}%N)"
    return f"(LBlob {coq_ln(bytes.fromhex(d[1]))})"


def coq_arg(a):
    if a is None:
        return "ANone"
    if a[0] == "empty":
        return "AEmpty"
    return f"(AArg {coq_expr(a[1])})"


def coq_stmt(s):
    k = s[0]
    if k == "load":
        return f"(SLoad {coq_memopt(s[1])} {coq_ldata(s[2])} {coq_target(s[3])})"
    if k == "erase":
        return f"(SErase {coq_memopt(s[1])} {coq_target(s[2])})"
    if k == "erase_all":
        return f"(SEraseAll {coq_memopt(s[1])})"
    if k == "erase_unsecure_all":
        return "SEraseUnsecureAll"
    if k == "enable":
        return f"(SEnable {coq_memopt(s[1])} {coq_expr(s[2])})"
    if k in ("call", "jump"):
        return f"(SCall {'true' if k == 'jump' else 'false'} {coq_expr(s[1])} {coq_arg(s[2])})"
    if k == "jump_sp":
        return f"(SJumpSp {coq_expr(s[1])} {coq_expr(s[2])} {coq_arg(s[3])})"
    if k == "reset":
        return "SReset"
    if k == "version_check":
        return f"(SVersionCheck {'true' if s[1] else 'false'} {coq_expr(s[2])})"
    if k in ("keystore_to_nv", "keystore_from_nv"):
        return f"(SKeystore {'true' if k == 'keystore_to_nv' else 'false'} {coq_memopt(s[1])} {coq_target(s[2])})"
    if k == "keywrap":
        return f"(SKeywrap {coq_expr(s[1])} {coq_ln(bytes.fromhex(s[2]))} {coq_expr(s[3])})"
    if k == "encrypt":
        return f"(SEncrypt {coq_expr(s[1])} {coq_memopt(s[2])} {coq_ldata(s[3])} {coq_target(s[4])})"
    raise ValueError(s)


def coq_block(b):
    k = b[0]
    if k == "options":
        return "(BOptions [" + "; ".join(f"({n}%N, {coq_cexpr(c)})" for n, c in b[1]) + "])"
    if k == "constants":
        return "(BConstants [" + "; ".join(f"({n}%N, {coq_bexpr(c)})" for n, c in b[1]) + "])"
    if k == "sources":
        return "(BSources [" + "; ".join(
            f"({n}%N, " + (f"SPath {coq_str(v[1])}" if v[0] == "path" else f"SExtern {coq_expr(v[1])}") + ")" for n, v in b[1]) + "])"
    return f"(BKeyblob {coq_expr(b[1])} [" + "; ".join(f'("{k2}"%string, {coq_cexpr(c)})' for k2, c in b[2]) + "])"


def coq_program(p):
    files = "[" + "; ".join(f"({coq_str(n)}, {coq_ln(d)})" for n, d in sorted(p["files"].items())) + "]"
    ext = "[" + "; ".join(coq_str(x) for x in p["extern"]) + "]"
    blocks = "[" + "; ".join(coq_block(b) for b in p["blocks"]) + "]"
    so = p.get("section_opts", {})
    secs = "[" + "; ".join(
        f"{{| sec_id := {coq_expr(i)}; sec_opts := [" + "; ".join(f'("{k}"%string, {coq_cexpr(c)})' for k, c in (so.get(si) or [])) +
        "]; sec_stmts := [" + "; ".join(coq_stmt(s) for s in st) + "] |}" for si, (i, st) in enumerate(p["sections"])) + "]"
    return f"run_program {{| p_extern := {ext}; p_files := {files}; p_blocks := {blocks}; p_sections := {secs} |}}"


# ------------------------------------------------------------------------------------------------------
# program text
# ------------------------------------------------------------------------------------------------------
def pe(e, rng, mode, lead_guard=False):
    s = print_expr(e, 1, mode, rng)
    if lead_guard and starts_with_ident(s):
        s = f"({s})"      # an identifier right after load/erase/enable/keystore_* would be read as the memory option
    return s


def text_memopt(o, rng, mode):
    if o is None:
        return ""
    if o[0] == "name":
        return o[1] + " "
    inner = print_expr(o[1], 99, mode, rng)       # '@' int_const_expr followed by another expression: keep it atomic
    return "@" + inner + " "


def after_at(o, text):
    """'@' expr followed by an operand that starts with a sign would read as one expression."""
    if o is not None and o[0] == "at" and text[:1] in "+-":
        return f"({text})"
    return text


def text_target(t, rng, mode, lead_guard=False, after=None):
    first = after_at(after, pe(t[1], rng, mode, lead_guard))
    if t[0] == "addr":
        return first
    return first + rng.choice(["..", " .. "]) + pe(t[2], rng, mode)


def text_ldata(d, rng, mode, lead_guard):
    if d[0] == "pat":
        return pe(d[1], rng, mode, lead_guard)
    if d[0] == "file":
        return f'"{d[1]}"'
    if d[0] == "src":
        return name_of(d[1])
    hx = d[1]
    pairs = [hx[i:i + 2] for i in range(0, len(hx), 2)]
    sep = rng.choice(["", " "])
    return "{{" + rng.choice(["", " "]) + sep.join(p.upper() if rng.random() < 0.3 else p for p in pairs) + rng.choice(["", " "]) + "}}"


def text_arg(a, rng, mode):
    if a is None:
        return ""
    if a[0] == "empty":
        return " ()"
    return f" ({pe(a[1], rng, mode)})"


def text_load(s, rng, mode):
    opt = text_memopt(s[1], rng, mode)
    return f"load {opt}{after_at(s[1], text_ldata(s[2], rng, mode, lead_guard=(s[1] is None)))} > {text_target(s[3], rng, mode)}"


def text_stmt(s, rng, mode):
    k = s[0]
    if k == "load":
        return text_load(s, rng, mode) + ";"
    if k == "erase":
        return f"erase {text_memopt(s[1], rng, mode)}{text_target(s[2], rng, mode, lead_guard=(s[1] is None), after=s[1])};"
    if k == "erase_all":
        return f"erase {text_memopt(s[1], rng, mode)}all;"
    if k == "erase_unsecure_all":
        return "erase unsecure all;"
    if k == "enable":
        return f"enable {text_memopt(s[1], rng, mode)}{after_at(s[1], pe(s[2], rng, mode, lead_guard=(s[1] is None)))};"
    if k in ("call", "jump"):
        tgt = print_expr(s[1], 99 if s[2] is not None else 1, mode, rng)
        return f"{k} {tgt}{text_arg(s[2], rng, mode)};"
    if k == "jump_sp":
        return f"jump_sp {print_expr(s[1], 99, mode, rng)} {print_expr(s[2], 99, mode, rng)}{text_arg(s[3], rng, mode)};"
    if k == "reset":
        return "reset;"
    if k == "version_check":
        return f"version_check {'nsec' if s[1] else 'sec'} {pe(s[2], rng, mode)};"
    if k in ("keystore_to_nv", "keystore_from_nv"):
        return f"{k} {text_memopt(s[1], rng, mode)}{text_target(s[2], rng, mode, lead_guard=(s[1] is None), after=s[1])};"
    if k == "keywrap":
        return f"keywrap ({pe(s[1], rng, mode)}) {{ load {{{{{s[2]}}}}} > {pe(s[3], rng, mode)}; }}"
    if k == "encrypt":
        inner = ("load", s[2], s[3], s[4])
        return f"encrypt ({pe(s[1], rng, mode)}) {{ {text_load(inner, rng, mode)}; }}"
    raise ValueError(s)


def text_cexpr(c, rng, mode):
    if c[0] == "str":
        return f'"{c[1]}"'
    return print_bexpr(c, 1, mode, rng)


def program_text(p, rng, mode="min", layout="lines"):
    """layout 'lines': one definition / statement per line; 'packed': several per line (never two quoted literals
    on one line unless p['allow_strings_on_one_line'])."""
    out = []
    strings_ok = True

    def item(fn):
        CHAR_BUDGET[0] = 99
        return fn()

    def quoted(txt):
        return '"' in txt or "'" in txt

    def emit_defs(items):
        line, has_str = [], False
        for txt in items:
            is_str = quoted(txt)
            if layout == "lines" or (is_str and has_str and not strings_ok) or (line and rng.random() < 0.35):
                if line:
                    out.append("    " + " ".join(line))
                line, has_str = [], False
            line.append(txt)
            has_str = has_str or is_str
        if line:
            out.append("    " + " ".join(line))

    for b in p["blocks"]:
        k = b[0]
        if k == "options":
            out.append("options {")
            emit_defs([item(lambda n=n, c=c: f"{name_of(n)} = {text_cexpr(c, rng, mode)};") for n, c in b[1]])
            out.append("}")
        elif k == "constants":
            out.append("constants {")
            emit_defs([item(lambda n=n, c=c: f"{name_of(n)} = {print_bexpr(c, 1, mode, rng)};") for n, c in b[1]])
            out.append("}")
        elif k == "sources":
            out.append("sources {")
            emit_defs([item(lambda n=n, v=v: f"{name_of(n)} = " + (f'"{v[1]}"' if v[0] == "path" else f"extern({pe(v[1], rng, mode)})") + ";")
                       for n, v in b[1]])
            out.append("}")
        else:
            out.append(item(lambda: f"keyblob ({pe(b[1], rng, mode)}) {{"))
            opts = [item(lambda k2=k2, c=c: f"{k2} = {text_cexpr(c, rng, mode)}") for k2, c in b[2]]
            if layout == "lines":
                out.append("    (\n        " + ",\n        ".join(opts) + "\n    )")
            else:
                out.append("    ( " + ",\n      ".join(opts) + " )")      # one option (possibly a string) per line
            out.append("}")
        if rng.random() < 0.2:
            out.append(rng.choice(["// comment with \"quotes\" and 1 + 2", "# hash comment", "/* block\n   comment */"]))
    for si, (i, sts) in enumerate(p["sections"]):
        so = p.get("section_opts", {}).get(si)
        sotxt = "" if so is None else ";" + (" " if so else "") + ", ".join(f"{k} = {text_cexpr(c, rng, mode)}" for k, c in so)
        out.append(item(lambda: f"section ({pe(i, rng, mode)}{sotxt}) {{"))
        emit_defs([item(lambda s_=s_: text_stmt(s_, rng, mode)) for s_ in sts])
        out.append("}")
    return "\n".join(out) + "\n"


# ======================================================================================================
# Specification oracle for whole programs (independent of SPSDK and of the Coq model)
# ======================================================================================================
def mem_flags(mem_id):
    return ((mem_id & 0xFF) << 8) | (((mem_id >> 8) & 0xF) << 4)


def spec_mem(o, env):
    if o is None:
        return 0
    if o[0] == "name":
        if o[1] not in LEGACY_MEM:
            raise Refuse("unknown memory name")
        return LEGACY_MEM[o[1]]
    return spec_eval(o[1], env)


def spec_target(t, env):
    if t[0] == "addr":
        return spec_eval(t[1], env), None
    a, b = spec_eval(t[1], env), spec_eval(t[2], env)
    if b < a:
        raise Unspecified("range whose end precedes its start")
    return a, b - a


def need_u32(*vals):
    for v in vals:
        if not 0 <= v <= U32:
            raise Unspecified("operand outside 32 bits")


def spec_fill_word(p):
    if p < 0:
        raise Refuse("negative pattern")
    if p < 0x100:
        return p * 0x01010101
    if p < 0x10000:
        return p * 0x00010001
    if p <= U32:
        return p
    raise Refuse("pattern wider than a word")


def spec_stmt(s, env, srcs, files, keyblobs):
    """-> (tag, flags, address, count, data, payload, mem_id); payload None / ("bytes", b) / ("wrap", kb, kek) / ("enc", kb, addr, data)"""
    k = s[0]
    if k == "load":
        o, d, t = s[1], s[2], s[3]
        addr, length = spec_target(t, env)
        if d[0] == "pat":
            p = spec_eval(d[1], env)
            if o is None:
                need_u32(addr)
                ln = length if length else 4
                if ln % 4:
                    raise Refuse("fill length is not a multiple of 4")
                return (3, 0, addr, ln, spec_fill_word(p), None, -1)
            m = spec_mem(o, env)
            if m != 4:
                raise Refuse("a pattern with a memory option is only defined for fuse / ifr programming")
            need_u32(addr)
            if not 0 < p <= U32:
                raise Unspecified("fuse word 0 / wider than 32 bits")
            return (10, 0x400, addr, p, 0, None, 4)
        m = spec_mem(o, env)
        need_u32(addr)
        if d[0] == "blob":
            data = bytes.fromhex(d[1])
            if m == 4:
                # fuse / ifr programming from a blob: its little-endian 32-bit words (elftosb; legacy_real_example3.sb)
                need_u32(addr)
                if len(data) == 4:
                    return (10, 0x400, addr, int.from_bytes(data, "little"), 0, None, 4)
                if len(data) == 8:
                    w2 = int.from_bytes(data[4:], "little")
                    return (10, 0x400 | (1 if w2 else 0), addr, int.from_bytes(data[:4], "little"), w2, None, 4)
                raise Unspecified("fuse programming from a blob that is not one or two words")
        else:
            path = d[1] if d[0] == "file" else srcs.get(d[1])
            if path is None or path not in files:
                raise Refuse("file does not exist")
            data = files[path]
        return (2, mem_flags(m), addr, 0, 0, ("bytes", data), m)
    if k == "erase":
        m = spec_mem(s[1], env)
        addr, length = spec_target(s[2], env)
        need_u32(addr, length or 0)
        return (7, mem_flags(m), addr, length or 0, 0, None, m)
    if k == "erase_all":
        m = spec_mem(s[1], env)
        return (7, 1 | mem_flags(m), 0, 0, 0, None, m)
    if k == "erase_unsecure_all":
        return (7, 2, 0, 0, 0, None, 0)
    if k == "enable":
        m = spec_mem(s[1], env)
        addr = spec_eval(s[2], env)
        need_u32(addr)
        return (9, mem_flags(m), addr, 4, 0, None, m)
    if k in ("call", "jump"):
        addr = spec_eval(s[1], env)
        arg = spec_eval(s[2][1], env) if (s[2] is not None and s[2][0] == "arg") else 0
        need_u32(addr, arg)
        return (4 if k == "jump" else 5, 0, addr, 0, arg, None, -1)
    if k == "jump_sp":
        sp, addr = spec_eval(s[1], env), spec_eval(s[2], env)
        arg = spec_eval(s[3][1], env) if (s[3] is not None and s[3][0] == "arg") else 0
        need_u32(sp, addr, arg)
        return (4, 2, addr, sp, arg, None, -1)
    if k == "reset":
        return (8, 0, 0, 0, 0, None, -1)
    if k == "version_check":
        v = spec_eval(s[2], env)
        need_u32(v)
        return (11, 0, 1 if s[1] else 0, v, 0, None, -1)
    if k in ("keystore_to_nv", "keystore_from_nv"):
        if s[1] is None or s[1][0] != "at":
            raise Unspecified("key store statement without @memory")
        m = spec_eval(s[1][1], env)
        addr, _ = spec_target(s[2], env)
        need_u32(addr)
        if m not in (1, 4, 8, 9, 10, 11, 16):
            raise Refuse("memory id of a key store statement is an external memory id of one byte")
        return (12 if k == "keystore_to_nv" else 13, m << 8, addr, 4, 0, None, m)
    if k in ("keywrap", "encrypt"):
        kid = spec_eval(s[1], env)
        kb = None
        for (i, c) in keyblobs:
            if i == kid:
                kb = c
                break
        if kb is None:
            raise Refuse("no key blob with this id")
        for f in ("start", "end", "key", "counter"):
            if f not in kb:
                raise Refuse("key blob lacks " + f)
        if not (isinstance(kb["start"], int) and isinstance(kb["end"], int) and isinstance(kb["key"], str) and isinstance(kb["counter"], str)):
            raise Unspecified("key blob field types")
        try:
            key, ctr = bytes.fromhex(kb["key"]), bytes.fromhex(kb["counter"])
        except ValueError:
            raise Refuse("key / counter is not hexadecimal")
        if len(key) != 16 or len(ctr) != 8:
            raise Unspecified("key / counter length")
        if not (0 <= kb["start"] <= kb["end"] <= U32) or kb["start"] & 0x3FF:
            raise Refuse("key blob range")
        if k == "keywrap":
            addr = spec_eval(s[3], env)
            need_u32(addr)
            kek = bytes.fromhex(s[2])
            if len(kek) != 16:
                raise Refuse("key-encryption key is not 16 bytes")
            return (2, 0, addr, 0, 0, ("wrap", kb, kek), 0)
        o, d, t = s[2], s[3], s[4]
        addr, _ = spec_target(t, env)
        need_u32(addr)
        if d[0] in ("file", "src"):
            path = d[1] if d[0] == "file" else srcs.get(d[1])
            if path is None or path not in files:
                raise Refuse("file does not exist")
            data = files[path]
        elif d[0] == "blob":
            data = bytes.fromhex(d[1])
        else:
            raise Refuse("encrypt of a pattern")
        if (kb["end"] & 3) == 3:
            if addr % 16:
                raise Refuse("encrypted load must be 16-byte aligned")
            return (2, 0, addr, 0, 0, ("enc", kb, addr, data, addr), 0)
        return (2, 0, addr, 0, 0, ("bytes", data), 0)
    raise ValueError(s)


def spec_program(p):
    """-> dict(options=..., sources=..., keyblobs=..., sections=[(id, [cmd|('refuse',why)|('unspecified',why)])], parse_refused=why|None,
    parse_unspecified=bool).  Definitions are processed in order; an identifier means its (unique) earlier definition."""
    env, fenv, srcs = {}, {}, {}
    options, keyblobs = {}, []
    res = {"parse_refused": None, "parse_unspecified": None, "feat": set()}
    names_seen = set()

    def guard(fn):
        try:
            return fn()
        except Refuse as ex:
            if res["parse_refused"] is None and res["parse_unspecified"] is None:
                res["parse_refused"] = str(ex)
        except Unspecified as ex:
            if res["parse_refused"] is None and res["parse_unspecified"] is None:
                res["parse_unspecified"] = str(ex)
        return None

    for b in p["blocks"]:
        k = b[0]
        if k in ("options", "constants"):
            for n, c in b[1]:
                if n in names_seen:
                    res["parse_unspecified"] = res["parse_unspecified"] or "identifier defined twice"
                names_seen.add(n)
                if c[0] == "str":
                    v, f = c[1], set()
                else:
                    v, f = guard(lambda: spec_beval(c, env)), feats_bexpr(c, fenv)
                if v is None:
                    continue
                env[n] = v
                fenv[n] = f
                if k == "options":
                    options[n] = (v, f)
        elif k == "sources":
            for n, v in b[1]:
                if n in names_seen:
                    res["parse_unspecified"] = res["parse_unspecified"] or "identifier defined twice"
                names_seen.add(n)
                if v[0] == "path":
                    srcs[n] = v[1]
                else:
                    i = guard(lambda: spec_eval(v[1], env))
                    if i is None:
                        continue
                    if not 0 <= i < len(p["extern"]):
                        if i < 0:
                            res["parse_unspecified"] = res["parse_unspecified"] or "negative extern index"
                        else:
                            res["parse_refused"] = res["parse_refused"] or "extern() out of range"
                        continue
                    srcs[n] = p["extern"][i]
        else:
            kid = guard(lambda: spec_eval(b[1], env))
            content, f = {}, feats_expr(b[1], fenv)
            for k2, c in b[2]:
                if k2 in content:
                    res["parse_unspecified"] = res["parse_unspecified"] or "key blob option given twice"
                if c[0] == "str":
                    content[k2] = c[1]
                else:
                    content[k2] = guard(lambda: spec_beval(c, env))
                    f |= feats_bexpr(c, fenv)
            keyblobs.append((kid, content, f))
    sections = []
    for i, sts in p["sections"]:
        sid = guard(lambda: spec_eval(i, env))
        cmds = []
        for s in sts:
            f = stmt_feats(s, fenv, keyblobs)
            try:
                sc = spec_stmt(s, env, srcs, p["filedata"], [(a, b2) for a, b2, _ in keyblobs])
                if sc[5] is not None and sc[5][0] == "enc" and sc[5][2] != sc[5][1]["start"]:
                    f = f | {"encrypt-offset"}
                cmds.append((sc, f))
            except Refuse as ex:
                cmds.append((("refuse", str(ex)), f))
            except Unspecified as ex:
                cmds.append((("unspecified", str(ex)), f))
        sections.append((sid, feats_expr(i, fenv), cmds))
    res.update(options=options, sources=srcs, keyblobs=keyblobs, sections=sections,
               section_options=sorted(si for si, so in p.get("section_opts", {}).items() if so))
    return res


def stmt_feats(s, fenv, keyblobs):
    f = set()

    def fe(e):
        return feats_expr(e, fenv)

    def fo(o):
        return fe(o[1]) if (o is not None and o[0] == "at") else set()

    def ft(t):
        return fe(t[1]) | (fe(t[2]) if t[0] == "range" else set())
    k = s[0]
    if k == "load":
        f |= fo(s[1]) | ft(s[3])
        if s[2][0] == "pat":
            f |= fe(s[2][1])
        if s[2][0] == "blob":
            f.add("blob-load")
    elif k == "erase":
        f |= fo(s[1]) | ft(s[2])
    elif k == "erase_all":
        f |= fo(s[1])
    elif k == "enable":
        f |= fo(s[1]) | fe(s[2])
    elif k in ("call", "jump"):
        f |= fe(s[1]) | (fe(s[2][1]) if (s[2] is not None and s[2][0] == "arg") else set())
        if k == "call":
            f.add("call")
    elif k == "jump_sp":
        f |= fe(s[1]) | fe(s[2]) | (fe(s[3][1]) if (s[3] is not None and s[3][0] == "arg") else set())
    elif k == "reset":
        f.add("reset")
    elif k == "version_check":
        f |= fe(s[2])
    elif k in ("keystore_to_nv", "keystore_from_nv"):
        f |= fo(s[1]) | ft(s[2])
    elif k == "keywrap":
        f |= fe(s[1]) | fe(s[3])
        for (_, _, kf) in keyblobs:
            f |= kf
    elif k == "encrypt":
        f |= fe(s[1]) | fo(s[2]) | ft(s[4])
        if s[3][0] == "blob":
            f.add("blob-load")
        for (_, _, kf) in keyblobs:
            f |= kf
    return f


# ------------------------------------------------------------------------------------------------------
# key blob payloads: independent AES (cryptography), never SPSDK's wrappers
# ------------------------------------------------------------------------------------------------------
def unwrap_keyblob(payload, kek):
    from cryptography.hazmat.primitives.keywrap import aes_key_unwrap, InvalidUnwrap
    if len(payload) != 64 or any(payload[48:]):
        return None
    try:
        return aes_key_unwrap(kek, payload[:48])
    except InvalidUnwrap:
        return None


def wrap_matches(payload, kb, kek):
    """RFC 3394 unwrap of the first 48 bytes gives key | counter | start | end-with-flags | ... of the referenced key blob."""
    plain = unwrap_keyblob(payload, kek)
    if plain is None or len(plain) != 40:
        return False
    key, ctr = bytes.fromhex(kb["key"]), bytes.fromhex(kb["counter"])
    start = int.from_bytes(plain[24:28], "little")
    endf = int.from_bytes(plain[28:32], "little")
    return (plain[:16] == key and plain[16:24] == ctr and start == kb["start"]
            and (endf & ~0x3FF) == ((kb["end"] - 1) & ~0x3FF & U32) and (endf & 3) == 3)


def otfad_encrypt(kb, addr, data, counter_base, swap):
    """OTFAD AES-128-CTR keystream: block at system address A is XORed with AES(key, ctr[0:4] | ctr[4:8] | ctr[0:4]^ctr[4:8] | BE32(A))."""
    from cryptography.hazmat.primitives.ciphers import Cipher, algorithms, modes
    key, ctr = bytes.fromhex(kb["key"]), bytes.fromhex(kb["counter"])
    enc = Cipher(algorithms.AES(key), modes.ECB()).encryptor()
    data = data + bytes((-len(data)) % 512)
    out = bytearray()
    nonce = ctr[:4] + ctr[4:] + bytes(a ^ b for a, b in zip(ctr[:4], ctr[4:]))
    for i in range(0, len(data), 16):
        blk = data[i:i + 16]
        if swap:
            blk = blk[7::-1] + blk[15:7:-1]
        ks = enc.update(nonce + ((counter_base + i) & U32).to_bytes(4, "big"))
        c = bytes(x ^ y for x, y in zip(blk, ks))
        if swap:
            c = c[7::-1] + c[15:7:-1]
        out += c
    return bytes(out)


# ======================================================================================================
# Generators
# ======================================================================================================
class Gen:
    def __init__(self, rng, tier):
        self.rng = rng
        self.tier = tier
        self.count = 0

    def lit(self, kind="any"):
        r = self.rng
        c = r.random()
        if kind == "small":
            n = r.choice([0, 1, 2, 3, 4, 5, 7, 8, 15, 16, 31, 32])
        elif c < 0.35:
            n = r.randrange(0, 17)
        elif c < 0.55:
            n = r.choice([0xFF, 0x100, 0xFFFF, 0x10000, 0x7FFFFFFF, 0x80000000, 0xFFFFFFFF, 0x100000000, 1024, 4096, 0x55, 0x1122])
        elif c < 0.8:
            n = r.getrandbits(r.choice([8, 12, 16, 24, 32]))
        elif c < 0.9:
            n = r.getrandbits(r.choice([33, 40, 64]))
        else:
            n = 1024 * r.randrange(0, 64)
        fmt = r.choice(["d", "d", "x", "x", "K", "c", "t"])
        return ("lit", n, fmt)

    def expr(self, depth, vars_, features=()):
        r = self.rng
        if depth <= 0 or r.random() < 0.22:
            c = r.random()
            if vars_ and c < 0.35:
                return ("var", r.choice(vars_))
            if "int-size-suffix" in features and c < 0.6:
                return ("size", self.lit(), r.choice("whb"))
            return self.lit()
        c = r.random()
        if c < 0.12:
            return (r.choice(["neg", "neg", "pos"]), self.expr(depth - 1, vars_, features))
        op = r.choice(BINOPS)
        a = self.expr(depth - 1, vars_, features)
        if op in ("<<", ">>"):
            b = ("lit", r.choice([0, 1, 2, 3, 4, 7, 8, 16, 31, 32, 33]), "d") if r.random() < 0.9 else \
                ("bin", "-", ("bin", "&", self.expr(depth - 2, vars_, features), ("lit", 63, "d")), ("lit", 3, "d"))
        elif op == "*" and r.random() < 0.7:
            b = ("lit", r.choice([0, 1, 2, 3, 4, 10, 16, 255, 1024]), r.choice("dxK"))
        elif op in ("/", "%") and r.random() < 0.8:
            b = ("lit", r.choice([1, 2, 3, 4, 7, 8, 10, 16, 255, 256, 1000, 0x10000]), r.choice("dx"))
        else:
            b = self.expr(depth - 1, vars_, features)
        return ("bin", op, a, b)

    def bexpr(self, depth, vars_, features=(), defined_names=()):
        r = self.rng
        if depth <= 0 or r.random() < 0.3:
            if "defined" in features and r.random() < 0.5:
                return ("defined", r.choice(list(defined_names) + [9999]) if defined_names else 9999)
            return ("int", self.expr(min(depth, 3), vars_, features))
        c = r.random()
        if c < 0.45:
            return ("cmp", r.choice(CMPOPS), self.bexpr(depth - 1, vars_, features, defined_names), self.bexpr(depth - 1, vars_, features, defined_names))
        if c < 0.75:
            a, b = self.bexpr(depth - 1, vars_, features, defined_names), self.bexpr(depth - 1, vars_, features, defined_names)
            if "logical-operand-value" not in features:
                a = a if bool_shaped(a) else ("cmp", "!=", a, ("int", ("lit", 0, "d")))
                b = b if bool_shaped(b) else ("cmp", "!=", b, ("int", ("lit", 0, "d")))
            return (r.choice(["and", "or"]), a, b)
        if c < 0.9:
            return ("not", self.bexpr(depth - 1, vars_, features, defined_names))
        return ("int", self.expr(min(depth, 3), vars_, features))

    # --- operands with a wanted value: an expression tree around literals that evaluates to `value` -----------
    def expr_for(self, value, vars_env, depth=2):
        """A random expression whose specified value is `value` (so that addresses etc. stay meaningful)."""
        r = self.rng
        if depth <= 0 or r.random() < 0.4:
            if value >= 0:
                return ("lit", value, r.choice("dxxK"))
            return ("neg", ("lit", -value, r.choice("dx")))
        c = r.random()
        cands = [v for v, val in vars_env.items() if isinstance(val, int) and abs(val) < (1 << 40)]
        if cands and c < 0.3:
            v = r.choice(cands)
            return ("bin", "+", ("var", v), self.expr_for(value - vars_env[v], vars_env, depth - 1))
        if c < 0.5:
            k = r.randrange(0, 1 << 16)
            return ("bin", "+", self.expr_for(value - k, vars_env, depth - 1), ("lit", k, r.choice("dx")))
        if c < 0.65:
            k = r.randrange(0, 1 << 16)
            return ("bin", "-", self.expr_for(value + k, vars_env, depth - 1), ("lit", k, r.choice("dx")))
        if c < 0.8 and value >= 0:
            k = r.choice([1, 2, 4, 8, 16])
            if value % (1 << k) == 0:
                return ("bin", "<<", self.expr_for(value >> k, vars_env, depth - 1), ("lit", k, "d"))
            return ("bin", "|", self.expr_for(value & ~0xFF, vars_env, depth - 1), ("lit", value & 0xFF, "x"))
        if c < 0.9 and value >= 0:
            k = r.choice([2, 3, 4, 10, 16, 1024])
            return ("bin", "+", ("bin", "*", self.expr_for(value // k, vars_env, depth - 1), ("lit", k, "d")), ("lit", value % k, "d"))
        return ("lit", value, "x") if value >= 0 else ("neg", ("lit", -value, "x"))

    def address(self, align=4):
        r = self.rng
        base = r.choice([0, 0x1000, 0x2000, 0x10C000, 0x8000000, 0x8001000, 0x20000000, 0xFFFF0000, 0xA0000000, 0x1000188])
        return (base + align * r.randrange(0, 0x400)) & U32

    def hexblob(self, n):
        return bytes(self.rng.getrandbits(8) for _ in range(n)).hex()

    def memopt(self, env, allow_none=True, names=True):
        r = self.rng
        c = r.random()
        if allow_none and c < 0.4:
            return None
        if names and c < 0.7:
            return ("name", r.choice(list(LEGACY_MEM)))
        return ("at", self.expr_for(r.choice([0, 1, 4, 8, 9, 0x10, 0x100, 0x101, 0x110, 0x120, 0x121, 288]), env, 1))

    def statement(self, env, srcs, files, keyblob_ids, features):
        r = self.rng
        kinds = ["fill", "fill", "loadfile", "loadsrc", "erase", "erase_all", "erase_unsecure_all", "enable", "jump", "jump_sp",
                 "version_check", "keystore", "prog"]
        if keyblob_ids:
            kinds += ["keywrap", "encrypt"]
        for f in ("blob-load", "reset", "call"):
            if f in features:
                kinds += [f] * 6
        if "encrypt-offset" in features and keyblob_ids:
            kinds += ["encrypt"] * 8
        k = r.choice(kinds)
        ef = lambda v, d=2: self.expr_for(v, env, d)       # noqa: E731
        if k == "fill":
            p = r.choice([0, 1, 0x55, 0xFF, 0x100, 0x1122, 0xFFFF, 0x10000, 0x123456, 0xC0000001, U32, r.getrandbits(32), r.getrandbits(16)])
            pe_ = ("size", ("lit", p, "x"), r.choice("whb")) if ("int-size-suffix" in features and r.random() < 0.7) else ef(p)
            a = self.address()
            if r.random() < 0.5:
                return ("load", None, ("pat", pe_), ("addr", ef(a)))
            ln = 4 * r.randrange(0, 0x800)
            return ("load", None, ("pat", pe_), ("range", ef(a), ef(min(a + ln, U32 + 1))))
        if k == "prog":
            o = r.choice([("name", "fuse"), ("name", "ifr"), ("at", ef(4, 1))])
            return ("load", o, ("pat", ef(r.choice([1, 0xAABB, U32, r.getrandbits(32) or 1]))), ("addr", ef(self.address())))
        if k in ("loadfile", "loadsrc") and (files if k == "loadfile" else srcs):
            d = ("file", r.choice(sorted(files))) if k == "loadfile" else ("src", r.choice(sorted(srcs)))
            o = self.memopt(env)
            if o is not None and o[0] == "name" and o[1] in ("fuse", "ifr"):
                o = ("name", "sdcard")
            if o is not None and o[0] == "at":
                o = ("at", ef(r.choice([0, 1, 8, 9, 0x100, 0x120, 288]), 1))
            return ("load", o, d, ("addr", ef(self.address())))
        if k == "blob-load":
            o = self.memopt(env)
            if o is not None and (o[0] == "at" or o[1] in ("fuse", "ifr")):
                o = ("name", "sdcard")
            return ("load", o, ("blob", self.hexblob(r.choice([1, 2, 3, 4, 4, 4, 5, 8, 16]))), ("addr", ef(self.address())))
        if k == "erase":
            a = self.address()
            t = ("addr", ef(a)) if r.random() < 0.3 else ("range", ef(a), ef(min(a + r.randrange(0, 0x100000), U32)))
            return ("erase", self.memopt(env), t)
        if k == "erase_all":
            return ("erase_all", self.memopt(env))
        if k == "erase_unsecure_all":
            return ("erase_unsecure_all",)
        if k == "enable":
            return ("enable", self.memopt(env), ef(self.address()))
        if k in ("jump", "call"):
            arg = r.choice([None, ("empty",), ("arg", ef(r.getrandbits(32)))])
            return (k, ef(self.address()), arg)
        if k == "jump_sp":
            arg = r.choice([None, ("empty",), ("arg", ef(r.getrandbits(32)))])
            return ("jump_sp", ef(self.address()), ef(self.address()), arg)
        if k == "reset":
            return ("reset",)
        if k == "version_check":
            return ("version_check", r.random() < 0.5, ef(r.choice([0, 1, 2, 0xAFBC, r.getrandbits(32)])))
        if k == "keystore":
            a = self.address()
            t = ("addr", ef(a)) if r.random() < 0.7 else ("range", ef(a), ef(a + 0x100))
            return (r.choice(["keystore_to_nv", "keystore_from_nv"]), ("at", ef(r.choice([1, 4, 8, 9, 9, 10, 11, 16, 16, 0, 255, 288]), 1)), t)
        if k == "keywrap":
            return ("keywrap", ef(r.choice(keyblob_ids), 1), self.hexblob(16), ef(self.address(64)))
        if k == "encrypt" and (files or srcs):
            kid = r.choice(keyblob_ids)
            d = ("file", r.choice(sorted(files))) if (files and (r.random() < 0.5 or not srcs)) else ("src", r.choice(sorted(srcs)))
            off = 0x400 * r.choice([1, 2, 3]) if ("encrypt-offset" in features and r.random() < 0.8) else 0
            return ("encrypt", ef(kid, 1), None, d, ("addr", ef(self.kb_start.get(kid, 0x8000000) + off, 1)))
        return ("erase_unsecure_all",)

    def program(self, features=(), big=False):
        """One random program of the supported subset; `features` switches on constructs of the listed finding classes."""
        r = self.rng
        nid = [0]

        def fresh():
            nid[0] += 1
            return nid[0]
        blocks, env, srcs = [], {}, {}
        intvars = []
        files = {}
        self.count += 1
        for i in range(r.randrange(0, 4)):
            files[f"p{self.count}_f{i}.bin"] = bytes(r.getrandbits(8) for _ in range(r.choice([0, 1, 3, 4, 16, 17, 512, 513, 700]) if i else 20))
        extern = [n for n in sorted(files) if r.random() < 0.5]
        self.kb_start = {}
        kb_ids = []
        layout_strings = 0
        nblocks = r.randrange(1, 6 if not big else 9)
        kinds = ["options"] + [r.choice(["options", "constants", "constants", "sources", "keyblob"]) for _ in range(nblocks - 1)]
        if "encrypt-offset" in features:
            kinds.append("keyblob")
            if not files:
                files[f"p{self.count}_f0.bin"] = bytes(r.getrandbits(8) for _ in range(r.choice([16, 17, 512, 600])))
        r.shuffle(kinds)
        specenv = {}
        for k in kinds:
            if k in ("options", "constants"):
                defs = []
                for _ in range(r.randrange(0, 5 if not big else 9)):
                    n = fresh()
                    if k == "options" and r.random() < 0.15:
                        defs.append((n, ("str", r.choice(["1.0.0", "some_string", "a b", "x.bin", ""]))))
                        continue
                    b = self.bexpr(r.choice([0, 1, 2, 3]), intvars, features, defined_names=list(specenv)) if r.random() < 0.45 \
                        else ("int", self.expr(r.choice([0, 1, 2, 3, 4, 5, 6]), intvars, features))
                    defs.append((n, b))
                    try:
                        v = spec_beval(b, specenv)
                        if abs(v) < (1 << 80):
                            specenv[n] = v
                            intvars.append(n)
                    except (Refuse, Unspecified, RecursionError):
                        pass
                blocks.append((k, defs))
            elif k == "sources":
                defs = []
                for _ in range(r.randrange(0, 3)):
                    n = fresh()
                    if extern and r.random() < 0.4:
                        i = r.randrange(0, len(extern))
                        defs.append((n, ("extern", self.expr_for(i, specenv, 1))))
                        srcs[n] = extern[i]
                    elif files:
                        f = r.choice(sorted(files))
                        defs.append((n, ("path", f)))
                        srcs[n] = f
                blocks.append((k, defs))
            else:
                kid = len(kb_ids)
                start = r.choice([0x8000000, 0x8001000, 0x10000000, 0x0]) + 0x400 * r.randrange(0, 8)
                end = start + (0xFFFF if "encrypt-offset" in features else r.choice([0x3FF, 0x7FF, 0xFFFF, 0x3FD, 0x7FD, 0x3FE]))
                self.kb_start[kid] = start
                opts = [("start", ("int", self.expr_for(start, specenv, 1))), ("end", ("int", self.expr_for(end, specenv, 1))),
                        ("key", ("str", self.hexblob(16))), ("counter", ("str", self.hexblob(8)))]
                if r.random() < 0.3:
                    opts.append(("byte_swap", ("int", ("lit", r.randrange(2), "t"))))
                if r.random() < 0.2:
                    opts.append(("noByteSwap", ("int", ("lit", 1, "d"))))
                r.shuffle(opts)
                blocks.append(("keyblob", self.expr_for(kid, specenv, 1), opts))
                kb_ids.append(kid)
        sections = []
        for si in range(r.randrange(1, 5)):
            sts = [self.statement(specenv, srcs, files, kb_ids, features) for _ in range(r.randrange(0, 7 if not big else 12))]
            sections.append((self.expr_for(r.choice([0, 1, 2, si, 0x10]), specenv, 1), sts))
        return {"blocks": blocks, "sections": sections, "extern": extern,
                "files": {n: list(d) for n, d in files.items()}, "filedata": files}


# ======================================================================================================
# normalisation of the two sides to one comparable shape
# ======================================================================================================
def norm_dval(j):
    return tuple(j)


def norm_dict(jd):
    return tuple(sorted((k, norm_dval(v)) for k, v in jd))


def vid(name):
    return int(name[1:]) if (name[:1] == "v" and name[1:].isdigit()) else name


def norm_impl_config(c):
    opts = None if c["options"] is None else tuple(sorted((vid(k), norm_dval(v)) for k, v in c["options"]))
    srcs = None if c["sources"] is None else tuple(sorted((vid(k), v[1]) for k, v in c["sources"]))
    kbs = None
    if c["keyblobs"] is not None:
        kbs = tuple((tuple(i), tuple(norm_dict(d) for d in content) if isinstance(content, list) and content[:1] != ["x"] else ("x",))
                    for i, content in c["keyblobs"])
    secs = tuple((tuple(s["id"]), tuple(tuple((k, norm_dict(d)) for k, d in cmd) for cmd in s["commands"]), bool(s["options_nonempty"]))
                 for s in c["sections"])
    return (opts, srcs, kbs, secs)


def mv_dval(v):
    t, x = v
    if t == "i":
        return ("i", x)
    if t == "s":
        return ("s", x)
    if t == "b":
        return ("b", x.hex())
    if t == "l" and len(x) == 1 and x[0][0] == "s":
        return ("n", x[0][1])
    raise ValueError(v)


def mv_dict(v):
    return tuple(sorted((kv[1][0][1], mv_dval(kv[1][1])) for kv in v[1]))


def mv_opt(v):
    return None if not v[1] else v[1][0]


def norm_model_config(v):
    o, s, k, secs = v[1]
    oo, ss, kk = mv_opt(o), mv_opt(s), mv_opt(k)
    opts = None if oo is None else tuple(sorted((e[1][0][1], mv_dval(e[1][1])) for e in oo[1]))
    srcs = None if ss is None else tuple(sorted((e[1][0][1], e[1][1][1]) for e in ss[1]))
    kbs = None if kk is None else tuple((("i", e[1][0][1]), (mv_dict(e[1][1]),)) for e in kk[1])
    sections = tuple((("i", e[1][0][1]), tuple(((c[1][0][1], mv_dict(c[1][1])),) for c in e[1][1][1]), e[1][2][1] > 0) for e in secs[1])
    return (opts, srcs, kbs, sections)


def mv_payload(v):
    if not v[1]:
        return None
    kind = v[1][0][1]
    f = [x[1] for x in v[1][1:]]
    if kind == 1:
        return ("bytes", f[0])
    if kind == 2:
        return ("wrap", {"key": f[0].hex(), "counter": f[1].hex(), "start": f[2], "end": f[3]}, f[4])
    return ("enc", {"key": f[0].hex(), "counter": f[1].hex(), "start": f[2], "end": f[3], "swap": bool(f[4])}, f[5], f[6], f[7])


def model_cmds(v):
    """model value of the load stage -> ('e', k) or list of lists of (tag, flags, addr, count, data, payload, memid)"""
    if v[0] == "e":
        return ("e", v[1])
    return [[tuple(x[1] for x in c[1][:5]) + (mv_payload(c[1][5]), c[1][6][1]) for c in sec[1]] for sec in v[1]]


def payload_agrees(spec_pl, impl_hex, faithful=False):
    """Does SPSDK's LOAD payload realise the payload descriptor?  An ("enc", key blob, address, data, counter base)
    descriptor names the counter word of the first block: the specification's is the system address of the data, the
    faithful model's is the start of the key blob (C19-F8)."""
    if spec_pl is None:
        return impl_hex is None
    if impl_hex is None:
        return False
    data = bytes.fromhex(impl_hex)
    if spec_pl[0] == "bytes":
        return data == bytes(spec_pl[1])
    if spec_pl[0] == "wrap":
        return wrap_matches(data, spec_pl[1], bytes(spec_pl[2]))
    kb, addr, plain, base = spec_pl[1], spec_pl[2], bytes(spec_pl[3]), spec_pl[4]
    return data == otfad_encrypt(kb, addr, plain, base, kb.get("swap", bool(kb.get("byte_swap", 0))))


def cmd_agrees(spec_cmd, impl_cmd, faithful=False):
    return tuple(spec_cmd[:5]) == tuple(impl_cmd[:5]) and spec_cmd[6] == impl_cmd[6] and payload_agrees(spec_cmd[5], impl_cmd[5], faithful)


# ======================================================================================================
# unsupported constructs (documented as unsupported in docs/usage/elf2sb.md or refused by the parser)
# ======================================================================================================
UNSUPPORTED = [
    ("U_source_attr_list", 'options {}\nsources { v1 = "f0.bin" (a = 1); }\nsection (0) { }\n'),
    ("U_source_attr_list", 'options {}\nsources { v1 = "f0.bin" (a = 1, b = "x"); }\nsection (0) { }\n'),
    ("U_section_from_source", 'options {}\nsources { v1 = "f0.bin"; }\nsection (0) <= v1;\n'),
    ("U_from_stmt", 'options {}\nsources { v1 = "f0.bin"; }\nsection (0) { from v1 { load 1 > 0x100; } }\n'),
    ("U_from_stmt", 'options {}\nsources { v1 = "f0.bin"; }\nsection (0) { from v1 { } }\n'),
    ("U_if_stmt", "options {}\nsection (0) { if 1 < 2 { load 1 > 0x100; } }\n"),
    ("U_if_stmt", "options {}\nsection (0) { if 0 { load 1 > 0x100; } else { load 2 > 0x100; } }\n"),
    ("U_if_stmt", "options {}\nconstants { v1 = 1; }\nsection (0) { if defined(v1) { erase all; } else if 1 { reset; } }\n"),
    ("U_mode_stmt", "options {}\nsection (0) { mode 1; }\n"),
    ("U_message_info", 'options {}\nsection (0) { info "hello"; }\n'),
    ("U_message_warning", 'options {}\nsection (0) { warning "hello"; }\n'),
    ("U_message_error", 'options {}\nsection (0) { error "hello"; }\n'),
    ("U_load_section_list", "options {}\nsection (0) { load $.text > 0x100; }\n"),
    ("U_load_section_list", "options {}\nsection (0) { load $.text, $.data > 0x100; }\n"),
    ("U_load_section_list_from", 'options {}\nsources { v1 = "f0.bin"; }\nsection (0) { load $.text from v1 > 0x100; }\n'),
    ("U_section_ref_not", "options {}\nsection (0) { load ~$.text > 0x100; }\n"),
    ("U_load_target_period", "options {}\nsection (0) { load 5 > .; }\n"),
    ("U_load_target_empty", "options {}\nsection (0) { load 5; }\n"),
    ("U_call_source", 'options {}\nsources { v1 = "f0.bin"; }\nsection (0) { call v1; }\n'),
    ("U_call_source", 'options {}\nsources { v1 = "f0.bin"; }\nsection (0) { jump v1 (1); }\n'),
    ("U_symbol_ref", 'options {}\nsources { v1 = "f0.bin"; }\nsection (0) { call v1?:main; }\n'),
    ("U_expr_symbol_ref", 'options {}\nsources { v1 = "f0.bin"; }\nconstants { v2 = v1?:main + 1; }\nsection (0) { }\n'),
    ("U_sizeof_symbol", 'options {}\nsources { v1 = "f0.bin"; }\nconstants { v2 = sizeof(v1?:main); }\nsection (0) { }\n'),
    ("U_sizeof_ident", "options {}\nconstants { v1 = 1; v2 = sizeof(v1); }\nsection (0) { }\n"),
    ("U_ident_source", 'options {}\nsources { v1 = "f0.bin"; }\nconstants { v2 = exists(v1); }\nsection (0) { }\n'),
    ("U_section_options", "options {}\nsection (0; a = 1) { }\n"),
    ("U_section_options", 'options {}\nsection (0; alignment = 64, name = "x") { erase all; }\n'),
    # not in the grammar at all: must be a syntax error
    ("syntax", "options {}\nconstants { v1 = ~1; }\nsection (0) { }\n"),
    ("syntax", "options {}\nsection (0) { erase 0x100 }\n"),
    ("syntax", "options {}\nkeyblob (0) { () }\nsection (0) { }\n"),
    ("syntax", "options {}\nkeyblob (0) { (start = 1) (end = 2) }\nsection (0) { }\n"),
    ("syntax", "options {}\nsection (0) { load 1 > 2; } constants { v1 = 1; }\n"),
    ("syntax", "options {}\nconstants { v1 = (1 < 2) + 1; }\nsection (0) { }\n"),
    ("syntax", "options {}\nconstants { v1 = 1 +; }\nsection (0) { }\n"),
    ("syntax", "options { v1 = 1 }\nsection (0) { }\n"),
    ("syntax", "options {}\nsection (0) { jump; }\n"),
    ("syntax", "options {}\nsection (0) { version_check 5; }\n"),
    ("syntax", "options {}\nsection (0) { keywrap (0) { load 1 > 2; } }\n"),
]


# ======================================================================================================
# the check
# ======================================================================================================
def build_streams(tier, rng):
    g = Gen(rng, tier)
    thorough = tier == "thorough"
    n_main = 3000 if thorough else 260
    n_feat = 300 if thorough else 40
    streams = {}
    main = []
    for i in range(n_main):
        p = g.program((), big=(i % 7 == 0))
        p["mode"] = ["min", "full", "rand"][i % 3]
        p["layout"] = ["lines", "packed"][(i // 3) % 2]
        main.append(p)
    streams["programs of the supported subset"] = main
    for f in ("int-size-suffix", "defined", "logical-operand-value", "blob-load", "reset", "call", "encrypt-offset"):
        ps = []
        for i in range(n_feat):
            p = g.program((f,))
            p["mode"] = ["min", "full", "rand"][i % 3]
            p["layout"] = ["lines", "packed"][(i // 3) % 2]
            ps.append(p)
        streams[f"programs using {f}"] = ps
    ps = []
    for i in range(n_feat):
        p = g.program(())
        p["mode"], p["layout"], p["allow_strings_on_one_line"] = "min", "packed", True
        ps.append(p)
    streams["several string definitions on one line"] = ps
    ps = []
    for i in range(max(10, n_feat // 2)):
        p = g.program(())
        p["mode"], p["layout"] = "min", ["lines", "packed"][i % 2]
        k = rng.randrange(0, len(p["sections"]))
        p["section_opts"] = {k: [] if i % 5 == 4 else [(rng.choice(["alignment", "id", "name", "Header_Version"]),
                                                         rng.choice([("int", ("lit", rng.randrange(0, 64), "d")), ("str", "4.2")]))
                                                        for _ in range(rng.choice([1, 1, 2, 3]))]}
        ps.append(p)
    streams["programs with section options (must be refused)"] = ps
    streams["witnesses of the eight repaired defects"] = finding_witnesses()
    return streams, g


def finding_witnesses():
    """One fixed program per repaired defect C19-F1..F8 (F7 is also in UNSUPPORTED): every run checks that none returned."""
    L = lambda n, f="d": ("lit", n, f)       # noqa: E731
    sec0 = lambda sts: [(L(0), sts)]         # noqa: E731
    img = bytes(range(64))
    kb = ("keyblob", L(0), [("start", ("int", L(0x08001000, "x"))), ("end", ("int", L(0x080023FF, "x"))),
                            ("key", ("str", "000102030405060708090a0b0c0d0e0f")), ("counter", ("str", "0123456789abcdef"))])
    progs = [
        {"blocks": [("options", [])], "sections": sec0([("load", None, ("pat", ("size", L(0x55, "x"), "b")), ("range", L(0x2000, "x"), L(0x3000, "x")))])},
        {"blocks": [("constants", [(1, ("int", L(1)))]), ("options", [(2, ("defined", 1))])], "sections": sec0([])},
        {"blocks": [("options", [(1, ("and", ("int", L(2)), ("int", L(3)))), (2, ("cmp", "==", ("and", ("int", L(2)), ("int", L(3))), ("int", L(1))))])],
         "sections": sec0([])},
        {"blocks": [("options", [])], "sections": sec0([("load", None, ("blob", "aabbccdd"), ("addr", L(0x100, "x")))])},
        {"blocks": [("options", [])], "sections": sec0([("load", ("at", L(288)), ("blob", "ff2e9007775f1d20"), ("addr", L(0xA0000000, "x")))])},
        {"blocks": [("options", [])], "sections": sec0([("reset",)])},
        {"blocks": [("options", [])], "sections": sec0([("call", L(0x100, "x"), ("arg", L(5)))])},
        {"blocks": [("options", [(1, ("str", "1.0.0")), (2, ("str", "2.0.0"))])], "sections": sec0([]), "allow_strings_on_one_line": True, "layout": "packed"},
        {"blocks": [("options", []), kb], "sections": sec0([("encrypt", L(0), None, ("file", "w_img.bin"), ("addr", L(0x08001400, "x")))]),
         "files": {"w_img.bin": list(img)}, "filedata": {"w_img.bin": img}},
        {"blocks": [("options", [])], "sections": sec0([("erase_all", None)]), "section_opts": {0: [("a", ("int", L(1)))]}},
        {"blocks": [("options", [(1, ("int", ("bin", "+", ("size", L(0xA, "x"), "b"), ("size", L(0xB, "x"), "b"))))])], "sections": sec0([])},
        {"blocks": [("options", [])], "sections": sec0([("load", ("name", "fuse"), ("blob", "8899aabbccddeeff"), ("addr", L(0x01000188, "x")))])},
    ]
    for p in progs:
        p.setdefault("extern", [])
        p.setdefault("files", {})
        p.setdefault("filedata", {})
        p.setdefault("mode", "min")
        p.setdefault("layout", "lines")
    return progs


def expression_cases(tier, rng, g):
    """Single constant definitions: deep expression trees printed minimally / fully / with redundant parentheses."""
    n = 5000 if tier == "thorough" else 500
    out = []
    for i in range(n):
        depth = rng.choice([1, 2, 3, 4, 5, 6])
        if i % 3 == 0:
            b = g.bexpr(min(depth, 4), [], ())
        else:
            b = ("int", g.expr(depth, [], ()))
        out.append((b, ["min", "full", "rand"][i % 3]))
    return out


def token_case(rng, g):
    """A random well-formed token sequence: an expression printed with required parentheses dropped at random
    (so the text means whatever the precedence rules say, not the tree it was printed from)."""
    # shift counts must stay small on both sides (a count of 12**k would exhaust memory): a case uses either shifts or
    # multiplication, never both, and a shift count never contains a shift
    ops = [o for o in BINOPS if o not in ("<<", ">>")] if rng.random() < 0.65 else [o for o in BINOPS if o != "*"]

    def small(depth, no_shift=False):
        if depth <= 0 or rng.random() < 0.2:
            return ("lit", rng.randrange(0, 13))
        if rng.random() < 0.15:
            return (rng.choice(["neg", "neg", "pos"]), small(depth - 1, no_shift))
        op = rng.choice([o for o in ops if not (no_shift and o in ("<<", ">>"))])
        return ("bin", op, small(depth - 1, no_shift), small(depth - 1, no_shift or op in ("<<", ">>")))
    e = small(rng.choice([2, 3, 4, 5]))
    text, toks = [], []

    def lit(n):
        text.append(str(n) if rng.random() < 0.6 else hex(n))
        toks.append(f"TNum {n}")

    def go(x, m):
        t = x[0]
        if t == "lit":
            lit(x[1])
        elif t == "bin":
            lv = LEVEL[x[1]]
            need = m > lv
            par = (need and rng.random() < 0.45) or (not need and rng.random() < 0.1)
            if par:
                text.append("(")
                toks.append("TLp")
            go(x[2], lv)
            text.append(x[1])
            toks.append(f"TOp {COQ_BINOP[x[1]]}")
            go(x[3], lv + 1)
            if par:
                text.append(")")
                toks.append("TRp")
        elif t in ("neg", "pos"):
            par = rng.random() < 0.3
            if par:
                text.append("(")
                toks.append("TLp")
            text.append("-" if t == "neg" else "+")
            toks.append("TOp Sub" if t == "neg" else "TOp Add")
            go(x[1], UNARY_LEVEL + 1)
            if par:
                text.append(")")
                toks.append("TRp")
        else:
            raise ValueError(x)
    go(e, 1)
    # integer-size suffix directly behind a literal, sometimes
    out_text = []
    out_toks = []
    for tx, tk in zip(text, toks):
        out_text.append(tx)
        out_toks.append(tk)
        if tk.startswith("TNum") and rng.random() < 0.08:
            sfx = rng.choice("whb")
            out_text[-1] = tx + "." + sfx
            out_toks.append(f"TSize Sz{sfx.upper()}")
    return " ".join(out_text), "[" + "; ".join(out_toks) + "]"


def lines_with_two_strings(text):
    """two string literals, or two character literals, on one line (the greedy lexer rules of C19-F6 merge them)"""
    for ln in text.split("\n"):
        code = ln.split("//")[0].split("#")[0]
        if code.count('"') >= 4 or code.count("'") >= 4:
            return True
    return False


def oracle_program(p, sp, ir):
    """Apply the specification to SPSDK's outputs.  -> list of (item, features, message)."""
    hits = []
    allf = set()
    for n, (v, f) in sp["options"].items():
        allf |= f
    for _, _, f in sp["keyblobs"]:
        allf |= f
    for _, f, cmds in sp["sections"]:
        allf |= f
        for _, cf in cmds:
            allf |= cf
    parse = ir["parse"]
    parse_err = isinstance(parse, list)
    load = ir["load"]
    if sp["parse_unspecified"]:
        return hits, allf
    if sp["parse_refused"]:
        if not parse_err and not (isinstance(load, list) and load[:1] == ["e"]):
            hits.append(("refusal", allf, f"a program the specification refuses ({sp['parse_refused']}) was translated"))
        return hits, allf
    if parse_err:
        hits.append(("accept", allf, f"a valid program of the supported subset was refused at parse time ({parse[1:]})"))
        return hits, allf
    # configuration
    got_opts = {vid(k): tuple(v) for k, v in (parse["options"] or [])}
    for n, (v, f) in sp["options"].items():
        want = ("s", v) if isinstance(v, str) else ("i", v)
        if got_opts.get(n) != want:
            hits.append(("option", f, f"option {name_of(n)}: specified {want[1]!r}, configuration has {got_opts.get(n, (None, None))[1]!r}", ("option", n)))
    extra = set(got_opts) - set(sp["options"])
    if extra:
        hits.append(("option", set(), f"configuration has options nobody defined: {sorted(map(str, extra))}"))
    got_srcs = {vid(k): v[1] for k, v in (parse["sources"] or [])}
    if got_srcs != sp["sources"]:
        hits.append(("source", set(), f"sources resolve to {got_srcs}, specified {sp['sources']}"))
    got_kbs = parse["keyblobs"] or []
    if len(got_kbs) != len(sp["keyblobs"]):
        hits.append(("keyblob", set(), f"{len(got_kbs)} key blobs in the configuration, {len(sp['keyblobs'])} defined"))
    else:
        for (gid, gcontent), (kid, content, f) in zip(got_kbs, sp["keyblobs"]):
            want = {k: (("s", v) if isinstance(v, str) else ("i", v)) for k, v in content.items()}
            got = {k: tuple(v) for k, v in gcontent[0]} if (isinstance(gcontent, list) and len(gcontent) == 1 and gcontent[0][:1] != ["x"]) else None
            if tuple(gid) != ("i", kid) or got != want:
                hits.append(("keyblob", f, f"key blob {kid}: configuration has id {gid} content {got}, specified {want}", ("keyblob", len([h for h in hits if h[0] == "keyblob"]))))
    if len(parse["sections"]) != len(sp["sections"]):
        hits.append(("section", set(), "number of sections"))
        return hits, allf
    for gs, (sid, f, _) in zip(parse["sections"], sp["sections"]):
        if tuple(gs["id"]) != ("i", sid):
            hits.append(("section", f, f"section id {gs['id']} specified {sid}", ("section", parse["sections"].index(gs))))
        if gs["options_nonempty"] != (parse["sections"].index(gs) in sp["section_options"]):
            hits.append(("section", set(), "section options of the configuration differ from the program"))
    if sp["section_options"]:
        # unsupported in SB2.1 command files: must be refused, never dropped silently (C19-F7)
        if not (isinstance(load, list) and load[:1] == ["e"]):
            hits.append(("refusal", {"section-options"}, "a section with options was translated (the options were dropped)"))
        return hits, allf | {"section-options"}
    # commands
    flat = [(si, ci, c, f) for si, (_, _, cmds) in enumerate(sp["sections"]) for ci, (c, f) in enumerate(cmds)]
    any_unspec = any(c[0] == "unspecified" for _, _, c, _ in flat)
    refusals = [(si, ci, c, f) for si, ci, c, f in flat if c[0] == "refuse"]
    if isinstance(load, list) and load[:1] == ["e"]:
        if not refusals and not any_unspec:
            # which statement?  attribute to the union of the features of all statements
            fu = set()
            for _, _, _, f in flat:
                fu |= f
            hits.append(("statement", fu, f"every statement is valid, but load_from_config raised {load[1:]}"))
        return hits, allf
    # load succeeded
    for si, ci, c, f in flat:
        if c[0] == "refuse":
            hits.append(("refusal", f, f"section {si} statement {ci}: the specification refuses it ({c[1]}), SPSDK produced a command"))
    for si, (sid, _, cmds) in enumerate(sp["sections"]):
        got = load[si][1] if si < len(load) else None
        if got is None or len(got) != len(cmds):
            hits.append(("command-count", set().union(*[f for _, f in cmds]) if cmds else set(),
                         f"section {si}: {len(cmds)} statements became {None if got is None else len(got)} commands"))
            continue
        for ci, ((c, f), gc) in enumerate(zip(cmds, got)):
            if c[0] in ("refuse", "unspecified"):
                continue
            if not cmd_agrees(c, gc, faithful=False):
                hits.append(("command", f, f"section {si} statement {ci} {p['sections'][si][1][ci][0]}: specified "
                                           f"{c[:5]} payload {describe_payload(c[5])} mem {c[6]}, SPSDK built {gc[:5]} payload "
                                           f"{(gc[5] or '')[:40]} mem {gc[6]}", ("command", si, ci)))
    return hits, allf


def item_agrees_with_model(loc, ir, mv):
    """Is SPSDK's value of this one item exactly what the faithful model (defect included) computes?"""
    try:
        mparse, mload = mv[1]
        if mparse[0] == "e" or isinstance(ir["parse"], list):
            return False
        a, b = norm_impl_config(ir["parse"]), norm_model_config(mparse)
        if loc[0] == "option":
            return dict(a[0] or ()).get(loc[1], "?") == dict(b[0] or ()).get(loc[1], "??")
        if loc[0] == "keyblob":
            return a[2] is not None and b[2] is not None and a[2] == b[2]
        if loc[0] == "section":
            return a[3][loc[1]][0] == b[3][loc[1]][0]
        if loc[0] == "command":
            mc = model_cmds(mload)
            load = ir["load"]
            if isinstance(mc, tuple) or (isinstance(load, list) and load[:1] == ["e"]):
                return False
            return cmd_agrees(mc[loc[1]][loc[2]], load[loc[1]][1][loc[2]], faithful=True)
    except (IndexError, KeyError, TypeError, ValueError):
        return False
    return False


def describe_payload(pl):
    if pl is None:
        return None
    if pl[0] == "bytes":
        return bytes(pl[1]).hex()[:40]
    return pl[0]


def compare_model(ir, mv):
    """Exact comparison of SPSDK's observables with the model's.  -> None (agree) / 'unmodelled' / message"""
    mparse, mload = mv[1]
    parse, load = ir["parse"], ir["load"]
    if mparse[0] == "e":
        if mparse[1] == 9:
            return "unmodelled"
        if isinstance(parse, list):
            return None if parse[1] == mparse[1] else f"parse error kind: SPSDK {parse[1:]} model {mparse[1]}"
        return f"model refuses at parse time (kind {mparse[1]}), SPSDK parsed"
    if isinstance(parse, list):
        return f"SPSDK refuses at parse time {parse[1:]}, model parses"
    a, b = norm_impl_config(parse), norm_model_config(mparse)
    if a != b:
        for name, x, y in zip(("options", "sources", "keyblobs", "sections"), a, b):
            if x != y:
                return f"configuration differs in {name}: SPSDK {str(x)[:300]} model {str(y)[:300]}"
    mc = model_cmds(mload)
    if isinstance(mc, tuple):
        if mc[1] == 9:
            return "unmodelled"
        if isinstance(load, list) and load[:1] == ["e"]:
            return None if load[1] == mc[1] else f"load error kind: SPSDK {load[1:]} model {mc[1]}"
        return f"model refuses in load_from_config (kind {mc[1]}), SPSDK built commands"
    if isinstance(load, list) and load[:1] == ["e"]:
        return f"SPSDK refuses in load_from_config {load[1:]}, model builds commands"
    if len(load) != len(mc):
        return "number of sections"
    for si, (gs, ms) in enumerate(zip(load, mc)):
        if gs[0] != si:
            return f"section uid {gs[0]} at index {si}"
        if len(gs[1]) != len(ms):
            return f"section {si}: {len(gs[1])} commands, model {len(ms)}"
        for ci, (gc, mcmd) in enumerate(zip(gs[1], ms)):
            if not cmd_agrees(mcmd, gc, faithful=True):
                return f"section {si} command {ci}: SPSDK {gc[:5]} {str(gc[5])[:40]} mem {gc[6]}; model {mcmd[:5]} {describe_payload(mcmd[5])} mem {mcmd[6]}"
    return None


def eval_model(terms, tier):
    """vm_compute of every term, in groups; a group that fails (time-out under load, ...) is retried once in smaller shards."""
    out = []
    group = 1200
    for k in range(0, len(terms), group):
        part = terms[k:k + group]
        try:
            out += vlib.run_model_cases(f"c19g{k // group}", "Coq.Strings.String Value Bytes GenBd BdModel", part,
                                        shard=60 if tier == "quick" else 100, timeout=900, jobs=8)
        except RuntimeError as ex:
            vlib.log(f"  model evaluation of group {k // group} failed once ({str(ex)[:200]}); retrying in smaller shards")
            out += vlib.run_model_cases(f"c19r{k // group}", "Coq.Strings.String Value Bytes GenBd BdModel", part,
                                        shard=25, timeout=1500, jobs=6)
    return out


def correspondence(rep, rng, tier, streams, exprs, model_ok, mout, g):
    cases = []      # dict(stream, kind, text, extern, program, coq, feature_stream)
    for name, ps in streams.items():
        for p in ps:
            text = program_text(p, rng, p["mode"], p["layout"])
            cases.append(dict(stream=name, kind="program", text=text, extern=p["extern"], program=p, coq=coq_program(p)))
    for b, mode in exprs:
        p = {"blocks": [("options", [(1, b)])], "sections": [(("lit", 0, "d"), [])], "extern": [], "files": {}, "filedata": {}}
        text = program_text(p, rng, mode, "lines")
        cases.append(dict(stream="constant expressions (deep trees, three printings)", kind="program", text=text, extern=[], program=p,
                          coq=coq_program(p)))
    # exhaustive operator-pair matrix: a OP1 b OP2 c without parentheses means what the documented precedence says
    for o1 in BINOPS:
        for o2 in BINOPS:
            for (a, b_, c) in ((7, 2, 3), (100, 9, 2)):
                l1, l2 = LEVEL[o1], LEVEL[o2]
                tree = ("bin", o2, ("bin", o1, ("lit", a), ("lit", b_)), ("lit", c)) if l1 >= l2 else ("bin", o1, ("lit", a), ("bin", o2, ("lit", b_), ("lit", c)))
                p = {"blocks": [("options", [(1, ("int", tree))])], "sections": [(("lit", 0, "d"), [])], "extern": [], "files": {}, "filedata": {}}
                text = f"options {{\n    v1 = {a} {o1} {b_} {o2} {c};\n}}\nsection (0) {{\n}}\n"
                cases.append(dict(stream="operator pair matrix a OP1 b OP2 c (exhaustive over OP1, OP2)", kind="program", text=text, extern=[],
                                  program=p, coq=coq_program(p)))
    for o1 in CMPOPS + ["&&", "||"]:
        for o2 in CMPOPS + ["&&", "||"]:
            a, b_, c = 1, 2, 0

            def mk(o, x, y):
                return ("and", x, y) if o == "&&" else ("or", x, y) if o == "||" else ("cmp", o, x, y)
            l1, l2 = LEVEL[o1], LEVEL[o2]
            A, B, C = ("int", ("lit", a)), ("int", ("lit", b_)), ("int", ("lit", c))
            tree = mk(o2, mk(o1, A, B), C) if l1 >= l2 else mk(o1, A, mk(o2, B, C))
            p = {"blocks": [("options", [(1, tree)])], "sections": [(("lit", 0, "d"), [])], "extern": [], "files": {}, "filedata": {}}
            text = f"options {{\n    v1 = {a} {o1} {b_} {o2} {c};\n}}\nsection (0) {{\n}}\n"
            cases.append(dict(stream="operator pair matrix a OP1 b OP2 c (exhaustive over OP1, OP2)", kind="program", text=text, extern=[],
                              program=p, coq=coq_program(p)))
    # memory names: exhaustive
    for nm in ALL_MEM_NAMES:
        for st in (("erase_all", ("name", nm)), ("enable", ("name", nm), ("lit", 0x1000, "x")),
                   ("erase", ("name", nm), ("range", ("lit", 0x1000, "x"), ("lit", 0x2000, "x")))):
            p = {"blocks": [("options", [])], "sections": [(("lit", 0, "d"), [st])], "extern": [], "files": {}, "filedata": {}}
            cases.append(dict(stream="memory names (exhaustive over the legacy table)", kind="program",
                              text=program_text(p, rng, "min", "lines"), extern=[], program=p, coq=coq_program(p)))
    ntok = 3000 if tier == "thorough" else 300
    for _ in range(ntok):
        text, toks = token_case(rng, g)
        cases.append(dict(stream="token sequences through the precedence parser", kind="tokens",
                          text=f"options {{\n    v1 = {text};\n}}\nsection (0) {{\n}}\n", extern=[], coq=f"run_tokens [] {toks}"))
    for kind, text in UNSUPPORTED:
        coq = f"vres (fun _ => VInt 0) (unsupported_outcome {kind})" if kind != "syntax" else "VErr 1%N"
        cases.append(dict(stream="unsupported constructs", kind="unsupported", ukind=kind, text=text, extern=[], coq=coq))

    files = {}
    for c in cases:
        if c["kind"] == "program":
            for n, d in c["program"]["files"].items():
                files[n] = bytes(d).hex()
    fdir = os.path.join(WORK, "files")
    impl = vlib.run_impl("c19_impl.py", {"workdir": fdir, "files": files,
                                         "cases": [{"text": c["text"], "extern": c["extern"]} for c in cases]}, timeout=3000)
    results = impl["results"]
    model_vals = None
    if model_ok:
        try:
            model_vals = eval_model([c["coq"] for c in cases], tier)
        except Exception as ex:  # noqa
            rep.obligation("correspondence:model evaluation", False, repr(ex))
    else:
        rep.obligation("correspondence:model builds", False, mout[-1500:])

    ndis, nunmod = 0, 0
    per_stream = {}
    for idx, (c, ir) in enumerate(zip(cases, results)):
        st = per_stream.setdefault(c["stream"], dict(n=0, accepted=0, distinct=set(), samples=[], oracle_checked=0, cmds=0))
        st["n"] += 1
        mv = model_vals[idx] if model_vals is not None else None
        accepted = not isinstance(ir["parse"], list) and not (isinstance(ir["load"], list) and ir["load"][:1] == ["e"])
        if accepted:
            st["accepted"] += 1
            st["distinct"].add(json.dumps([ir["parse"], ir["load"]], sort_keys=True))
            st["cmds"] += sum(len(s[1]) for s in ir["load"]) if isinstance(ir["load"], list) else 0
        if len(st["samples"]) < 3:
            st["samples"].append(c["text"][:400])
        dis = None
        if c["kind"] == "program":
            sp = spec_program(c["program"])
            hits, allf = oracle_program(c["program"], sp, ir)
            st["oracle_checked"] += 0 if sp["parse_unspecified"] else 1
            two_strings = lines_with_two_strings(c["text"])
            if mv is not None:
                dis = compare_model(ir, mv)
            for hit in hits:
                item, feats, msg = hit[0], hit[1], hit[2]
                feats = set(feats) | ({"quoted-literals-on-one-line"} if two_strings else set())
                # the class of repaired defect the case exercises goes into the signature: it tells which of them returned
                sig = ("bd:" + "+".join(sorted(feats)) + ":" + item) if feats else f"bd:unexpected:{item}"
                rep.failing(sig, "SPSDK does not give this BD program its specified meaning: " + msg,
                            {"kind": "impl-oracle", "signature": sig, "bd_text": c["text"], "extern": c["extern"],
                             "files": {n: bytes(d).hex() for n, d in c["program"]["files"].items()},
                             "spsdk_parse": ir["parse"], "spsdk_load": ir["load"], "message": msg,
                             "replay": "BDParser().parse(bd_text, extern) then BootImageV21.load_from_config(cfg, ...)"})
        elif c["kind"] == "tokens":
            parse = ir["parse"]
            if mv is not None:
                if isinstance(parse, list):
                    got = ("e", parse[1])
                else:
                    o = dict((k, tuple(v)) for k, v in parse["options"] or [])
                    got = o.get("v1", ("?",))
                    got = ("i", got[1]) if got[0] == "i" else ("?", got)
                want = mv
                if want[0] == "e" and want[1] == 9:
                    dis = "unmodelled"
                elif tuple(got) != tuple(want):
                    dis = f"value of the token sequence: SPSDK {got} model {want}"
        else:
            refused = isinstance(ir["parse"], list) or (isinstance(ir["load"], list) and ir["load"][:1] == ["e"])
            if not refused:
                sig = f"bd:unsupported-accepted:{c['ukind']}"          # U_section_options here = C19-F7 returned
                rep.failing(sig, f"an unsupported construct ({c['ukind']}) is not refused: " + c["text"].replace("\n", " "),
                            {"kind": "impl-oracle", "signature": sig, "bd_text": c["text"], "spsdk_parse": ir["parse"], "spsdk_load": ir["load"]})
            if mv is not None and c["ukind"] != "syntax":
                m_refused = mv[0] == "e"
                stage = ir["parse"] if isinstance(ir["parse"], list) else ir["load"]       # section options are refused by load_from_config
                kind = stage[1] if (isinstance(stage, list) and stage[:1] == ["e"]) else None
                if m_refused != refused or (m_refused and mv[1] != kind):
                    dis = f"unsupported construct {c['ukind']}: SPSDK {stage if refused else 'accepted'} model {mv}"
        if dis == "unmodelled":
            nunmod += 1
        elif dis:
            ndis += 1
            if ndis <= 8:
                vlib.log(f"  disagreement [{c['stream']}]: {dis}\n    text: {c['text'][:300]!r}")
            if ndis == 1:
                with open(os.path.join(vlib.VERIF, "replays", f"{PID}-first-disagreement.json"), "w") as f:
                    json.dump({"property": PID, "kind": "model-vs-implementation", "what": dis, "bd_text": c["text"], "extern": c["extern"],
                               "spsdk_parse": ir["parse"], "spsdk_load": ir["load"]}, f, indent=1, default=str)
    if model_vals is not None:
        rep.obligation("correspondence:model=implementation on every generated program (configuration, commands, error class)",
                       ndis == 0, f"{ndis} disagreements (first one in replays/{PID}-first-disagreement.json)" if ndis else "")
    for name, st in per_stream.items():
        rep.add_stream(name, st["n"], len(st["distinct"]), samples=st["samples"][1:3],
                       exhaustive=("exhaustive" in name),
                       extra={"accepted_by_spsdk": st["accepted"], "commands_built": st["cmds"], "oracle_applied": st["oracle_checked"]})
    return rep.finish(
        rule="programs are drawn from VERIF_SEED by a grammar-directed generator (docs/usage/elf2sb.md restricted to the supported subset); "
             "operator pairs and memory names are enumerated exhaustively; distinct_nontrivial counts distinct (configuration, command list) "
             "results of programs SPSDK accepted",
        trusted_base=["Coq 8.16.1 kernel + vm_compute", "tools/regen_c19.py (Python ast -> tables of Gen/GenBd.v, fail-closed)",
                      "hand model Model/BdModel.v of the parser actions / SB21Helper / command constructors, tied by correspondence",
                      "sly lexer regexes and LALR tables: exercised by the generated programs, not proved",
                      "cryptography (OpenSSL) AES for checking key-wrap / OTFAD payloads of keywrap / encrypt statements"],
        checker_cmd="coqc -R . V Props/C19/*.v (after make Proofs/BdProofs.vo)",
        assumptions=["identifiers are defined once and before use (the quantifier of the property)", "shift counts below 4096",
                     "quotient / remainder of negative operands: either floor or truncation is accepted by the oracle",
                     "BD text is ASCII; at most one string literal per line in the main streams (C19-F6 otherwise)"],
        extra_cov={"unmodelled_cases": nunmod})


def _clean_work():
    """scratch data lives under .work/C19 only; proposed_fix_*.diff (deliverables for the lead) are kept"""
    if not os.path.isdir(WORK):
        return
    for f in os.listdir(WORK):
        if f.startswith("proposed_fix"):
            continue
        pth = os.path.join(WORK, f)
        if os.path.isdir(pth):
            shutil.rmtree(pth, ignore_errors=True)
        else:
            os.remove(pth)


def run(tier):
    rep = vlib.Report(PID, tier)
    rng = vlib.Rng(vlib.seed())
    os.makedirs(WORK, exist_ok=True)
    _clean_work()
    try:
        return _run(rep, rng, tier)
    finally:
        _clean_work()


def _run(rep, rng, tier):
    # (T1) tables from the current source
    tables = None
    try:
        regen_c19.regen()
        tables = regen_c19.extract()
        rep.obligation("translate:sly_bd_parser.py+sly_bd_lexer.py+sb_21_helper.py->Gen/GenBd.v", True)
    except Exception as ex:  # noqa  (fail closed: any extractor problem is a broken obligation)
        rep.obligation("translate:sly_bd_parser.py+sly_bd_lexer.py+sb_21_helper.py->Gen/GenBd.v", False, repr(ex))
    # (P) proofs
    model_ok, mout = vlib.coq_make(["Model/BdModel.vo"])
    theorems = list(THEOREMS)
    built = vlib.check_theorems(rep, PID, theorems, ["Proofs/BdProofs.vo"])
    vlib.audit(rep)
    if tier == "thorough" and built and hasattr(vlib, "coqchk"):
        vlib.coqchk(rep, PID, theorems)
    # (T2) cases
    streams, g = build_streams(tier, rng)
    exprs = expression_cases(tier, rng, g)
    return correspondence(rep, rng, tier, streams, exprs, model_ok, mout, g)


if __name__ == "__main__":
    sys.exit(run(sys.argv[1] if len(sys.argv) > 1 else "quick"))
