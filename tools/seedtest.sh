#!/bin/bash
# seedtest.sh <PROP> <dir with patch.diff + demo.py> [suite]   -- confirm a seeded change in a scratch worktree and run the check on it
# (the worktree is created under /tmp and removed at the end; /repo itself is never modified)
P=$1; D=$(realpath $2); SUITE=$3
WT=/tmp/seedtest_$(echo $P | tr A-Z a-z)_$$
git -C /repo worktree add --detach $WT HEAD >/dev/null 2>&1 || exit 2
trap "git -C /repo worktree remove --force $WT >/dev/null 2>&1" EXIT
cp /repo/spsdk/__version__.py $WT/spsdk/ 2>/dev/null
export SPSDK_CACHE_FOLDER=$WT/.cache
echo "== demo on clean tree"; (cd $WT && PYTHONPATH=$WT /venv/bin/python $D/demo.py 2>&1 | tail -2); echo "rc=$?"
git -C $WT apply $D/patch.diff || { echo "patch does not apply"; exit 2; }
echo "== demo on patched tree"; (cd $WT && PYTHONPATH=$WT /venv/bin/python $D/demo.py 2>&1 | tail -2)
if [ -n "$SUITE" ]; then echo "== suite on patched tree"; N=${N:-8} /verif/tools/run_suite.sh $WT /verif/.work/suite_$$ | tail -3; rm -rf /verif/.work/suite_$$; fi
unset SPSDK_CACHE_FOLDER
echo "== check $P quick on patched tree"
(cd /verif && VERIF_REPO=$WT ./check $P ${TIER:-quick} 2>&1 | grep -E "VIOLATION|KNOWN-FINDING|obligation FAILED|violation:|^\[$P\]" | head -20)
# a run against a patched worktree must not leave its evidence / generated files behind: restore the evidence file of the
# last run on /repo from git and regenerate Gen/*.v from /repo
(cd /verif && git checkout -- evidence/$P.json 2>/dev/null; /venv/bin/python tools/regen_all.py >/dev/null 2>&1)
