"""Common machinery for the /verif checks (see DESIGN.md section 1).

Runs under /venv/bin/python.  The implementation under test is always executed in a
*subprocess* with PYTHONPATH=<repo> so that hangs and import-time side effects are contained.
"""
import glob
import hashlib
import json
import os
import random
import re
import shutil
import subprocess
import sys
import time

VERIF = os.path.dirname(os.path.dirname(os.path.abspath(__file__)))
REPO = os.environ.get("VERIF_REPO", "/repo")
COQ = os.path.join(VERIF, "coq")
WORK = os.path.join(VERIF, ".work")
PY = "/venv/bin/python"
FORBIDDEN = re.compile(
    r"\b(Admitted|admit|Axiom|Axioms|Parameter|Parameters|Conjecture|Conjectures|Hypothesis|Hypotheses|Variable|Variables|"
    r"Admit Obligations|Unset Guard Checking|Unset Positivity Checking|Unset Universe Checking|bypass_check|"
    r"type-in-type|impredicative-set|native_compute)\b")
# Variable/Hypothesis are allowed only inside a Section (checked separately)
SECTION_OK = {"Hypothesis", "Hypotheses", "Variable", "Variables"}
ALLOWED_AXIOMS = set()  # names of standard-library axioms a theorem may depend on (none needed so far)


def seed():
    try:
        return int(os.environ.get("VERIF_SEED", "20260926"))
    except ValueError:
        return 20260926


def log(msg):
    print(msg, flush=True)


def sh(cmd, timeout=1200, cwd=None, env=None, input=None):
    e = dict(os.environ)
    if env:
        e.update(env)
    try:
        p = subprocess.run(cmd, shell=isinstance(cmd, str), cwd=cwd, env=e, input=input,
                           stdout=subprocess.PIPE, stderr=subprocess.STDOUT, timeout=timeout, text=True)
        return p.returncode, p.stdout
    except subprocess.TimeoutExpired as ex:
        out = ex.stdout or ""
        if isinstance(out, bytes):
            out = out.decode("utf-8", "replace")
        return 124, out + "\n[timeout]"


# --------------------------------------------------------------------------------------
# Coq build
# --------------------------------------------------------------------------------------
def write_if_changed(path, text):
    os.makedirs(os.path.dirname(path), exist_ok=True)
    try:
        if open(path).read() == text:
            return False
    except FileNotFoundError:
        pass
    with open(path, "w") as f:
        f.write(text)
    return True


def coq_files():
    fs = []
    for d in ("Lib", "Crypto", "Gen", "Model", "Proofs", "Props", "Extract"):
        fs += sorted(glob.glob(os.path.join(COQ, d, "**", "*.v"), recursive=True))
    return [os.path.relpath(f, COQ) for f in fs]


def coq_project():
    """(Re)generate _CoqProject and Makefile when the file list changed."""
    files = coq_files()
    txt = "-R . V\n-arg -w -arg -all\n" + "\n".join(files) + "\n"
    write_if_changed(os.path.join(COQ, "_CoqProject"), txt)


def coq_make(targets=None, timeout=1800, jobs=16):
    """make the given .vo targets (relative to coq/). Returns (ok, log)."""
    coq_project()
    tg = " ".join(targets) if targets else ""
    os.makedirs(WORK, exist_ok=True)
    # serialised: several checks (or people) may build at the same time; builds are incremental
    rc, out = sh(f"flock {WORK}/make.lock sh -c 'coq_makefile -f _CoqProject -o Makefile >/dev/null 2>&1; "
                 f"timeout {timeout} make -j{jobs} {tg}'", cwd=COQ, timeout=3 * timeout + 30)
    return rc == 0, out


def coqc(path, timeout=600):
    """Compile one file (path relative to coq/), return (ok, output)."""
    rc, out = sh(f"timeout {timeout} coqc -R . V -w -all {path}", cwd=COQ, timeout=timeout + 30)
    return rc == 0, out


def parse_assumptions(out):
    """Parse the output of `Print Assumptions` commands: list of (closed:bool, axioms:list)."""
    res = []
    blocks = re.split(r"(?m)^(?=Closed under the global context|Axioms:|Section Variables:)", out)
    for b in blocks:
        if b.startswith("Closed under the global context"):
            res.append((True, []))
        elif b.startswith("Axioms:"):
            ax = re.findall(r"(?m)^([A-Za-z_][\w.']*)\s*:", b[len("Axioms:"):])
            res.append((False, ax))
    return res


def audit_sources():
    """Scan every .v file for forbidden constructs. Returns list of problems."""
    problems = []
    for rel in coq_files():
        txt = open(os.path.join(COQ, rel)).read()
        # strip comments (non-nested is enough for our sources; nested handled by loop)
        prev = None
        while prev != txt:
            prev = txt
            txt = re.sub(r"\(\*(?:(?!\(\*|\*\)).)*\*\)", " ", txt, flags=re.S)
        depth = 0
        for ln, line in enumerate(txt.split("\n"), 1):
            if re.match(r"\s*Section\b", line):
                depth += 1
            if re.match(r"\s*End\b", line) and depth > 0:
                depth -= 1
            for m in FORBIDDEN.finditer(line):
                w = m.group(1)
                if w in SECTION_OK and depth > 0:
                    continue
                problems.append(f"{rel}:{ln}: {w}")
    return problems


# --------------------------------------------------------------------------------------
# Values: python <-> Coq literal <-> Coq printed term
#   ('i', int) ('b', bytes) ('s', str) ('l', [values]) ('e', int)
# --------------------------------------------------------------------------------------
def VI(n): return ("i", int(n))
def VB(b): return ("b", bytes(b))
def VS(s): return ("s", s)
def VL(l): return ("l", list(l))
def VE(k): return ("e", int(k))


def coq_z(n):
    return f"({n})%Z" if n < 0 else f"{n}%Z"


def coq_lit(v):
    t, x = v
    if t == "i":
        return f"VInt {coq_z(x)}" if x >= 0 else f"VInt {coq_z(x)}"
    if t == "b":
        return "VBytes [" + "; ".join(f"{b}%N" for b in x) + "]"
    if t == "s":
        return "VStr [" + "; ".join(f"{ord(c)}%N" for c in x) + "]"
    if t == "l":
        return "VList [" + "; ".join("(" + coq_lit(y) + ")" for y in x) + "]"
    if t == "e":
        return f"VErr {x}%N"
    raise ValueError(t)


_TOK = re.compile(r"\s*(\[|\]|\(|\)|;|-?\d+(?:%[A-Za-z]+)?|[A-Za-z_][\w.]*)")


def _parse_value_tokens(toks):
    pos = [0]

    def peek():
        return toks[pos[0]] if pos[0] < len(toks) else None

    def nxt():
        t = toks[pos[0]]
        pos[0] += 1
        return t

    def num():
        t = nxt()
        if t == "(":
            t = nxt()
            assert nxt() == ")"
            if peek() and peek().startswith("%"):
                nxt()
        return int(t.split("%")[0])

    def lst(item):
        assert nxt() == "["
        out = []
        if peek() == "]":
            nxt()
            return out
        while True:
            out.append(item())
            t = nxt()
            if t == "]":
                return out
            assert t == ";", t

    def val():
        t = nxt()
        if t == "(":
            v = val()
            assert nxt() == ")"
            return v
        if t == "VInt":
            return ("i", num())
        if t == "VErr":
            return ("e", num())
        if t == "VBytes":
            return ("b", bytes(lst(num)))
        if t == "VStr":
            return ("s", "".join(chr(c) for c in lst(num)))
        if t == "VList":
            return ("l", lst(val))
        raise ValueError("unexpected token " + t)

    return val()


def parse_coq_values(text):
    """Parse the terms printed by a sequence of `Eval vm_compute in (e : value).` commands."""
    out = []
    for m in re.finditer(r"(?s)=\s*(.*?)\s*:\s*value\b", text):
        out.append(_parse_value_tokens(_TOK.findall(m.group(1))))
    return out


def run_model_cases(tag, imports, exprs, shard=400, timeout=600, jobs=16):
    """Evaluate Coq expressions of type `value` by vm_compute, sharded over coqc processes.

    exprs: list of Coq terms (strings). Returns list of parsed values (same order) or raises."""
    d = os.path.join(COQ, "Cases")
    os.makedirs(d, exist_ok=True)
    for f in glob.glob(os.path.join(d, f"{tag}_*")):
        os.remove(f)
    shards = [exprs[i:i + shard] for i in range(0, len(exprs), shard)]
    names = []
    for k, sh_ in enumerate(shards):
        name = f"{tag}_{k}"
        names.append(name)
        with open(os.path.join(d, name + ".v"), "w") as f:
            f.write(f"From Coq Require Import ZArith NArith List.\nRequire Import {imports}.\nImport ListNotations.\n"
                    "Set Printing Width 2000000000.\nSet Printing Depth 2000000000.\n"
                    + "".join(f"Eval vm_compute in ({e_}).\n" for e_ in sh_))
    procs = []
    results = [None] * len(names)
    idx = 0
    running = {}
    while idx < len(names) or running:
        while idx < len(names) and len(running) < jobs:
            n = names[idx]
            p = subprocess.Popen(
                f"ulimit -s unlimited 2>/dev/null; timeout {timeout} coqc -R . V -w -all Cases/{n}.v > Cases/{n}.out 2>&1",
                shell=True, cwd=COQ)
            running[idx] = p
            idx += 1
        done = [i for i, p in running.items() if p.poll() is not None]
        if not done:
            time.sleep(0.05)
            continue
        for i in done:
            p = running.pop(i)
            out = open(os.path.join(d, names[i] + ".out")).read()
            if p.returncode != 0:
                raise RuntimeError(f"model evaluation failed ({names[i]}): {out[-2000:]}")
            results[i] = parse_coq_values(out)
    flat = []
    for r, sh_ in zip(results, shards):
        if len(r) != len(sh_):
            raise RuntimeError("model returned wrong number of results")
        flat += r
    for f in glob.glob(os.path.join(d, f"{tag}_*")):
        os.remove(f)
    return flat


# --------------------------------------------------------------------------------------
# Implementation side
# --------------------------------------------------------------------------------------
def impl_env(extra=None):
    e = {"PYTHONPATH": REPO, "PYTHONHASHSEED": "0", "NXP_SPSDK_VERIF": "1",
         "SPSDK_CACHE_FOLDER": os.path.join(WORK, "spsdk_cache")}
    if extra:
        e.update(extra)
    return e


def run_impl(script, payload, timeout=1200, extra_env=None):
    """Run tools/impl/<script> under /venv python with PYTHONPATH=<repo>; JSON in, JSON out."""
    os.makedirs(os.path.join(WORK, "spsdk_cache"), exist_ok=True)
    path = os.path.join(VERIF, "tools", "impl", script)
    e = dict(os.environ)
    e.update(impl_env(extra_env))
    p = subprocess.run([PY, path], input=json.dumps(payload), env=e, cwd=WORK,
                       stdout=subprocess.PIPE, stderr=subprocess.PIPE, timeout=timeout, text=True)
    if p.returncode != 0:
        raise RuntimeError(f"impl runner {script} failed rc={p.returncode}: {p.stderr[-3000:]}")
    # last line is the JSON result (imports may print warnings earlier)
    line = p.stdout.strip().split("\n")[-1]
    return json.loads(line)


def jv(v):
    """value -> JSON-able"""
    t, x = v
    if t == "b":
        return ["b", x.hex()]
    if t == "l":
        return ["l", [jv(y) for y in x]]
    return [t, x]


def vj(j):
    t, x = j
    if t == "b":
        return ("b", bytes.fromhex(x))
    if t == "l":
        return ("l", [vj(y) for y in x])
    return (t, x)


# --------------------------------------------------------------------------------------
# Known findings, violations, evidence
# --------------------------------------------------------------------------------------
def known_findings(pid):
    try:
        data = json.load(open(os.path.join(VERIF, "known_findings.json")))
    except FileNotFoundError:
        data = {}
    out = [f for f in data.get("findings", []) if f.get("property") == pid]
    # per-property additions (merged into known_findings.json by the lead)
    extra = os.path.join(VERIF, "known_findings.d", pid.lower() + ".json")
    if os.path.exists(extra):
        out += [f for f in json.load(open(extra)).get("findings", []) if f.get("property") == pid]
    return out


class Report:
    """Collects the outcome of one check run and renders VIOLATION / KNOWN-FINDING lines + evidence."""

    def __init__(self, pid, tier):
        self.pid, self.tier = pid, tier
        self.t0 = time.time()
        self.obligations = []      # (name, ok, detail)
        self.axioms = set()
        self.violations = []       # dicts with 'what', 'replay'
        self.known_hits = {}       # finding id -> what
        self.broken = []           # names of broken obligations / correspondences
        self.coverage = {"evaluations": 0, "distinct_nontrivial": 0, "samples": [], "rule": "",
                         "streams": {}}
        self.assumptions = []
        self.findings = known_findings(pid)

    # ---- obligations
    def obligation(self, name, ok, detail=""):
        self.obligations.append((name, bool(ok), detail))
        if not ok:
            self.broken.append(name)
            log(f"  [obligation FAILED] {name}: {detail[-600:]}")

    # ---- concrete failing inputs
    def failing(self, sig, what, replay):
        """sig: signature string matched against known_findings[].signature (regex)."""
        for f in self.findings:
            if f.get("status") == "finding" and re.fullmatch(f["signature"], sig):
                self.known_hits.setdefault(f["id"], f["what"])
                return "known"
        self.violations.append({"sig": sig, "what": what, "replay": replay})
        return "violation"

    def add_stream(self, name, evaluations, distinct_nontrivial, samples=None, exhaustive=None, extra=None):
        c = self.coverage
        c["evaluations"] += int(evaluations)
        c["distinct_nontrivial"] += int(distinct_nontrivial)
        s = {"evaluations": int(evaluations), "distinct_nontrivial": int(distinct_nontrivial)}
        if exhaustive is not None:
            s["exhaustive"] = bool(exhaustive)
        if extra:
            s.update(extra)
        c["streams"][name] = s
        for x in (samples or [])[:3]:
            c["samples"].append({"stream": name, "case": x})

    def finish(self, rule, trusted_base, checker_cmd, assumptions=None, extra_cov=None):
        os.makedirs(os.path.join(VERIF, "evidence"), exist_ok=True)
        os.makedirs(os.path.join(VERIF, "replays"), exist_ok=True)
        rc = 0
        for fid, what in sorted(self.known_hits.items()):
            log(f"KNOWN-FINDING: property={self.pid} {fid}: {what}")
        seen = set()
        for v in self.violations:
            if v["sig"] in seen:
                continue
            seen.add(v["sig"])
            h = hashlib.sha1(json.dumps(v["replay"], sort_keys=True, default=str).encode()).hexdigest()[:10]
            path = os.path.join(VERIF, "replays", f"{self.pid}-{h}.json")
            with open(path, "w") as f:
                json.dump({"property": self.pid, "signature": v["sig"], "what": v["what"],
                           "replay": v["replay"]}, f, indent=1, default=str)
            log(f"  violation: {v['what']}")
            log(f"VIOLATION property={self.pid} replay={path}")
            rc = 1
        if self.broken and not self.violations:
            path = os.path.join(VERIF, "replays", f"{self.pid}-broken-obligation.json")
            with open(path, "w") as f:
                json.dump({"property": self.pid, "no_longer_checks": self.broken,
                           "details": {n: d[-3000:] for (n, ok, d) in self.obligations if not ok},
                           "searched": self.coverage["streams"]}, f, indent=1, default=str)
            log(f"VIOLATION property={self.pid} replay={path} no-failing-input-found")
            rc = 1
        cov = self.coverage
        cov["rule"] = rule
        cov["obligations"] = len(self.obligations)
        cov["discharged"] = sum(1 for (_, ok, _) in self.obligations if ok)
        cov["obligation_names"] = [n for (n, _, _) in self.obligations]
        cov["checker_cmd"] = checker_cmd
        cov["trusted_base"] = trusted_base + ([f"axioms reported by Print Assumptions: {sorted(self.axioms)}"]
                                              if self.axioms else
                                              ["Print Assumptions: every property theorem is closed under the global context"])
        cov["known_findings_reproduced"] = sorted(self.known_hits)
        if extra_cov:
            cov.update(extra_cov)
        if not cov["samples"]:
            cov["samples"] = [{"stream": "obligations", "case": cov["obligation_names"][:3]}]
        ev = {"property_id": self.pid, "tier": self.tier, "seed": seed(), "level": "proof", "coverage": cov,
              "assumptions": assumptions or [], "wall_s": round(time.time() - self.t0, 2),
              "violations": len(seen) + (1 if (self.broken and not self.violations) else 0)}
        with open(os.path.join(VERIF, "evidence", f"{self.pid}.json"), "w") as f:
            json.dump(ev, f, indent=1, default=str)
        log(f"[{self.pid}] {self.tier}: obligations {cov['discharged']}/{cov['obligations']}, "
            f"evaluations {cov['evaluations']}, violations {ev['violations']}, "
            f"known findings {len(self.known_hits)}, {ev['wall_s']} s")
        return rc


def check_theorems(rep, pid, theorems, deps):
    """Build deps (.vo targets), then compile every Props/<pid>/<name>.v capturing Print Assumptions.

    theorems: list of theorem file base names expected to compile. Returns True when all hold."""
    ok, out = coq_make(deps)
    rep.obligation(f"build:{'+'.join(os.path.basename(d) for d in deps)}", ok, out)
    if not ok:
        for t in theorems:
            rep.obligation(f"theorem:{t}", False, "dependencies did not build")
        return False
    allok = True
    # compile property theorem files in parallel
    procs = {}
    for t in theorems:
        rel = f"Props/{pid}/{t}.v"
        procs[t] = subprocess.Popen(f"timeout 900 coqc -R . V -w -all {rel}", shell=True, cwd=COQ,
                                    stdout=subprocess.PIPE, stderr=subprocess.STDOUT, text=True)
    for t, p in procs.items():
        out = p.communicate()[0]
        good = p.returncode == 0
        detail = out
        if good:
            ass = parse_assumptions(out)
            if not ass:
                good, detail = False, "no Print Assumptions output"
            for closed, ax in ass:
                for a in ax:
                    rep.axioms.add(a)
                    if a.split(".")[-1] not in ALLOWED_AXIOMS and a not in ALLOWED_AXIOMS:
                        good, detail = False, f"depends on axiom {a}"
        rep.obligation(f"theorem:{t}", good, detail)
        allok &= good
    return allok


def coqchk(rep, pid, theorems, timeout=3000):
    """Thorough tier: re-check the compiled property theorems and everything they depend on with the independent
    checker coqchk and record the axioms it reports (obligation fails on any axiom / type-in-type / unsafe fixpoint)."""
    mods = " ".join(f"V.Props.{pid}.{t}" for t in theorems)
    rc, out = sh(f"timeout {timeout} coqchk -silent -o -R . V {mods}", cwd=COQ, timeout=timeout + 30)
    summary = out[out.find("CONTEXT SUMMARY"):] if "CONTEXT SUMMARY" in out else out[-1500:]
    clean = rc == 0 and all(re.search(rf"\* {k}:\s*<none>", summary) for k in
                            ("Axioms", "Constants/Inductives relying on type-in-type",
                             "Constants/Inductives relying on unsafe \\(co\\)fixpoints", "Inductives whose positivity is assumed"))
    rep.coverage["coqchk"] = " ".join(summary.split())[:600]
    rep.obligation("coqchk:-o over the property theorems' closure reports no axioms", clean, summary)
    return clean


def audit(rep):
    probs = audit_sources()
    rep.obligation("audit:no-Admitted/Axiom/Parameter/unsafe-flags", not probs, "; ".join(probs))


class Rng(random.Random):
    pass
