"""T1 for C03: constants, layouts and database facts of the root-of-trust code -> coq/Gen/GenRot.v.

Everything is read from vlib.REPO's *current* source on every run:
  * class attributes / enums / struct formats / database entries through the public API, in the implementation
    subprocess (tools/impl/c03_impl.py, mode "extract");
  * the `signature_offset & MASK == MAGIC` heuristic of IskCertificate.parse through `ast` (a literal in the code).
Fail-closed: anything unexpected raises, which the check reports as a broken `translate:` obligation.
"""
import ast
import os
import sys

sys.path.insert(0, os.path.dirname(os.path.abspath(__file__)))
import vlib

ROT_IDS = {"cert_block_1": 1, "cert_block_21": 21, "srk_table_ahab": 3, "srk_table_ahab_v2": 4, "srk_table_hab": 5,
           "cert_block_x": 6}
ROT_CLASS_IDS = {"RotCertBlockv1": 1, "RotCertBlockv21": 21, "RotSrkTableAhab": 3, "RotSrkTableAhabV2": 4,
                 "RotSrkTableHab": 5, "": 0}
HASH_IDS = {"sha256": 0, "sha384": 1, "sha512": 2}
CURVE_BITS = {"secp256r1": 256, "secp384r1": 384, "secp521r1": 521}


class Unextractable(Exception):
    pass


def isk_heuristic(src):
    """Find, in IskCertificate.parse:  if signature_offset & MASK == MAGIC: ... signature_offset = K ; header_word_cnt = 2"""
    tree = ast.parse(open(src).read())
    for cls in [n for n in ast.walk(tree) if isinstance(n, ast.ClassDef) and n.name == "IskCertificate"]:
        for fn in [n for n in cls.body if isinstance(n, ast.FunctionDef) and n.name == "parse"]:
            hits = []
            for node in ast.walk(fn):
                if isinstance(node, ast.If) and isinstance(node.test, ast.Compare) and len(node.test.ops) == 1 \
                        and isinstance(node.test.ops[0], ast.Eq) and isinstance(node.test.left, ast.BinOp) \
                        and isinstance(node.test.left.op, ast.BitAnd) and isinstance(node.test.left.left, ast.Name) \
                        and node.test.left.left.id == "signature_offset" \
                        and isinstance(node.test.left.right, ast.Constant) and isinstance(node.test.comparators[0], ast.Constant):
                    off = [s.value.value for s in node.body if isinstance(s, ast.Assign) and isinstance(s.targets[0], ast.Name)
                           and s.targets[0].id == "signature_offset" and isinstance(s.value, ast.Constant)]
                    cnt = [s.value.value for s in node.body if isinstance(s, ast.Assign) and isinstance(s.targets[0], ast.Name)
                           and s.targets[0].id == "header_word_cnt" and isinstance(s.value, ast.Constant)]
                    if len(off) == 1 and cnt == [2]:
                        hits.append((node.test.left.right.value, node.test.comparators[0].value, off[0]))
            if len(hits) == 1:
                return hits[0]
            # no heuristic at all (repaired upstream): report mask 0 / magic 1 = never fires
            tests = [n for n in ast.walk(fn) if isinstance(n, ast.Name) and n.id == "header_word_cnt"]
            if not hits and not tests:
                return (0, 1, 0)
    raise Unextractable("IskCertificate.parse: offset-less heuristic not found in the expected shape")


def nl(xs):
    return "[" + "; ".join(str(int(x)) for x in xs) + "]"


def name_lit(s):
    return nl(ord(c) for c in s)


def pairs(d, keyf=int):
    return "[" + "; ".join(f"({keyf(k)}, {int(v)})" for k, v in sorted(d.items(), key=lambda kv: keyf(kv[0]))) + "]"


def regen():
    data = vlib.run_impl("c03_impl.py", {"mode": "extract"}, timeout=600)
    mask, magic, fallback = isk_heuristic(os.path.join(vlib.REPO, "spsdk/utils/crypto/cert_blocks.py"))
    L = []
    A = L.append
    A("(* GENERATED on every run by tools/regen_c03.py from spsdk/utils/crypto/{cert_blocks,rkht,rot}.py, "
      "spsdk/image/ahab/ahab_srk.py, spsdk/image/secret.py, spsdk/pfr/pfr.py and the device database -- do not edit. *)")
    A("From Coq Require Import ZArith NArith List.\nImport ListNotations.\nLocal Open Scope N_scope.\n")
    c1, c21 = data["cb1_header"], data["cb21_header"]
    for d in (c1, c21, data["hab"]):
        pass
    if c1["fmt"][0] != "<" or c21["fmt"][0] != "<" or data["hab"]["hdr_fmt"][0] != ">":
        raise Unextractable("unexpected byte order in a header format")
    A(f"Definition g_cb1_hdr_fmt : list N := {nl(c1['fmt'][1])}.")
    A(f"Definition g_cb1_hdr_size : N := {c1['size']}.")
    A(f"Definition g_cb1_sig : list N := {nl(bytes.fromhex(c1['sig']))}.")
    A(f"Definition g_cb1_align : N := {c1['align']}.")
    A(f"Definition g_rkht_size : N := {c1['rkht_size']}.")
    A(f"Definition g_rkh_size : N := {c1['rkh_size']}.")
    A(f"Definition g_cb21_hdr_fmt : list N := {nl(c21['fmt'][1])}.")
    A(f"Definition g_cb21_hdr_size : N := {c21['size']}.")
    A(f"Definition g_cb21_magic : list N := {nl(bytes.fromhex(c21['magic']))}.")
    maj, mnr = c21["version"].split(".")
    A(f"Definition g_cb21_version : N * N := ({int(maj)}, {int(mnr)}).")
    A(f"Definition g_isk_heur_mask : N := {mask}.\nDefinition g_isk_heur_magic : N := {magic}.\n"
      f"Definition g_isk_heur_offset : N := {fallback}.")
    A(f"Definition g_isk_lite_magic : N := {data['isk_lite']['magic']}.")
    for v in ("v1", "v2"):
        a = data["ahab"][v]
        p = "g_ahab" + v[1]
        if a["rec_fmt"] != ["<", [1, 2, 1, 1, 1, 1, 1, 4]] or a["tab_fmt"] != ["<", [1, 2, 1]]:
            raise Unextractable(f"AHAB {v} record/table format changed: {a['rec_fmt']} {a['tab_fmt']}")
        A(f"Definition {p}_rec_tag : N := {a['rec_tag']}.\nDefinition {p}_tab_tag : N := {a['tab_tag']}.")
        A(f"Definition {p}_tab_version : N := {a['tab_version']}.\nDefinition {p}_count : N := {a['count']}.")
        A(f"Definition {p}_hash : N := {HASH_IDS[a['hash']]}.\nDefinition {p}_ca_mask : N := {a['ca_mask']}.")
        A(f"Definition {p}_key_sizes : list (N * (N * N)) := ["
          + "; ".join(f"({int(k)}, ({v2[0]}, {v2[1]}))" for k, v2 in sorted(a["key_sizes"].items(), key=lambda kv: int(kv[0]))) + "].")
        A(f"Definition {p}_rsa_type : list (N * N) := {pairs(a['rsa_type'])}.")
        A(f"Definition {p}_ecc_type : list (N * N) := {pairs({CURVE_BITS[k]: v2 for k, v2 in a['ecc_type'].items()})}.")
        A(f"Definition {p}_alg_rsa_pss : N := {a['alg_rsa_pss']}.\nDefinition {p}_alg_ecdsa : N := {a['alg_ecdsa']}.")
        A(f"Definition {p}_hash_tags : list (N * N) := [(0, {a['h256']}); (1, {a['h384']}); (2, {a['h512']})].")
    A(f"Definition g_ahab2_crypto_params_len : N := {data['ahab']['v2']['crypto_params_len']}.")
    dd = data["ahab"]["data"]
    if dd["fmt"] != ["<", [1, 2, 1, 2, 1, 1]]:
        raise Unextractable(f"AHAB SRK data format changed: {dd['fmt']}")
    A(f"Definition g_ahab_data_tag : N := {dd['tag']}.\nDefinition g_ahab_data_version : N := {dd['version']}.")
    h = data["hab"]
    if h["hdr_fmt"] != [">", [1, 2, 1]]:
        raise Unextractable(f"HAB header format changed: {h['hdr_fmt']}")
    A(f"Definition g_hab_key_public : N := {h['key_public']}.\nDefinition g_hab_pkcs1 : N := {h['pkcs1']}.")
    A(f"Definition g_hab_ecdsa : N := {h['ecdsa']}.\nDefinition g_hab_crt : N := {h['crt']}.")
    A(f"Definition g_hab_ecc_type : list (N * N) := {pairs({CURVE_BITS[k]: v2 for k, v2 in h['ecc_type'].items()})}.")
    if data["curves"] != ["secp256r1", "secp384r1", "secp521r1"]:
        raise Unextractable(f"EccCurve enumeration changed: {data['curves']}")
    A(f"Definition g_rsa_sizes : list N := {nl(data['rsa_sizes'])}.")
    A(f"Definition g_rot_classes : list N := {nl(sorted(ROT_IDS[c] for c in data['rot_classes']))}.")
    rows = []
    for r in data["families"]:
        if r["rot_type"] not in ROT_IDS:
            raise Unextractable(f"unknown rot_type {r['rot_type']!r} for {r['family']}")
        rows.append(f"({name_lit(r['family'])}, ({ROT_IDS[r['rot_type']]}, ({ROT_CLASS_IDS[r['rot_class']]}, "
                    f"({r['isk_limit']}, {r['isk_align']}))))")
    A("(* family, (database rot_type, (Rot class selected by Rot.get_rot_class, (isk_data_limit, isk_data_alignment))) *)")
    A("Definition g_families : list (list N * (N * (N * (N * N)))) := [\n  " + ";\n  ".join(rows) + "].")
    prow = []
    for r in data["pfr"]:
        ver = {"RKHTv1": 1, "RKHTv21": 21, "": 0}[r["rkht"]]
        prow.append(f"({name_lit(r['family'])}, ({r['width']}, {ver}))")
    A("(* PFR family, (ROTKH register width in bits (0: no ROTKH register), RKHT class used by _calc_rotkh) *)")
    A("Definition g_pfr : list (list N * (N * N)) := [\n  " + ";\n  ".join(prow) + "].")
    text = "\n".join(L) + "\n"
    vlib.write_if_changed(os.path.join(vlib.COQ, "Gen", "GenRot.v"), text)
    return data


if __name__ == "__main__":
    regen()
    print(open(os.path.join(vlib.COQ, "Gen", "GenRot.v")).read()[:3000])
