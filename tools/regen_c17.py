"""T1 for C17: static pass over the files that can invent secrets -> coq/Gen/GenFresh.v (draw-site table).

For every file in FILES the pass finds
  * every *draw*: a call of an entropy primitive (random_bytes/random_hex/rand_below of spsdk.crypto.rng, anything of
    `secrets`, `random`, `os.urandom`), and
  * every expression evaluated at *import time* (module level, class body, default argument, decorator -- i.e. not inside
    the body of a def/lambda) that calls a callable which (transitively, name based) draws, or touches a drawing property,
and classifies each as ImportTime or PerCall.  Fail-closed (raises Unclassifiable) on
  * a reference to a primitive that is not the callee of a call (aliasing, default_factory=random_bytes, getattr ...),
  * a draw inside a function that carries a decorator other than staticmethod/classmethod/property/<p>.setter/abstractmethod
    (memoisation would turn a per-call draw into a shared one),
  * a draw whose value is stored anywhere but a local name / self.<attr> / the return value (class or module level caches),
  * a `global`/`nonlocal` name receiving a draw, star-imports, re-binding of a primitive name.
Also produced: the static import closure between the scanned modules (which module bodies run when one is imported) and a
shape check of spsdk/crypto/rng.py (random_bytes(n) = secrets.token_bytes(n)).
"""
import ast
import os
import sys

sys.path.insert(0, os.path.dirname(os.path.abspath(__file__)))
import vlib


class Unclassifiable(Exception):
    pass


# module id -> (dotted name, relative file).  0 is the package itself (imported by every session).
MODULES = {
    0: ("spsdk", "spsdk/__init__.py"),
    1: ("spsdk.crypto.rng", "spsdk/crypto/rng.py"),
    2: ("spsdk.sbfile.sb2.images", "spsdk/sbfile/sb2/images.py"),
    3: ("spsdk.image.mbi.mbi_mixin", "spsdk/image/mbi/mbi_mixin.py"),
    4: ("spsdk.utils.crypto.otfad", "spsdk/utils/crypto/otfad.py"),
    5: ("spsdk.utils.crypto.iee", "spsdk/utils/crypto/iee.py"),
    6: ("spsdk.image.bee", "spsdk/image/bee.py"),
    7: ("spsdk.image.hab.segments", "spsdk/image/hab/segments.py"),
    8: ("spsdk.sbfile.sb2.headers", "spsdk/sbfile/sb2/headers.py"),
    9: ("spsdk.utils.misc", "spsdk/utils/misc.py"),
    10: ("spsdk.image.mbi.mbi", "spsdk/image/mbi/mbi.py"),
    11: ("spsdk.image.hab.hab_container", "spsdk/image/hab/hab_container.py"),
}
ANCHORED = {1, 2, 3, 4, 5, 6, 7}
FILES = {rel: mid for mid, (_, rel) in MODULES.items() if mid != 0}
ENTROPY_MODULES = {"secrets", "random", "os"}            # os only through os.urandom / os.getrandom
RNG_FUNCS = {"random_bytes", "random_hex", "rand_below"}
OS_FUNCS = {"urandom", "getrandom"}
OK_DECORATORS = {"staticmethod", "classmethod", "property", "abstractmethod", "setter", "getter"}

# logical site ids used by Model/FreshModel.v: (file, scope, hint) -> id
EXPECTED = {
    ("spsdk/sbfile/sb2/images.py", "SBV2xAdvancedParams.__init__", "self._dek"): 1,
    ("spsdk/sbfile/sb2/images.py", "SBV2xAdvancedParams.__init__", "self._mac"): 2,
    ("spsdk/sbfile/sb2/images.py", "SBV2xAdvancedParams._create_nonce", "nonce"): 3,
    ("spsdk/sbfile/sb2/images.py", "SBV2xAdvancedParams.__init__", "self._padding"): 4,
    ("spsdk/sbfile/sb2/images.py", "BootImageV20.__init__", "nonce"): 5,
    ("spsdk/sbfile/sb2/images.py", "BootImageV20.export", "data"): 6,
    ("spsdk/sbfile/sb2/headers.py", "ImageHeaderV2.export", "padding"): 7,
    ("spsdk/image/mbi/mbi_mixin.py", "Mbi_MixinCtrInitVector.ctr_init_vector", "self._ctr_init_vector"): 8,
    ("spsdk/image/mbi/mbi_mixin.py", "Mbi_MixinCtrInitVector.ctr_init_vector.setter", "self._ctr_init_vector"): 9,
    ("spsdk/utils/crypto/otfad.py", "KeyBlob.__init__", "key"): 10,
    ("spsdk/utils/crypto/otfad.py", "KeyBlob.__init__", "counter_iv"): 11,
    ("spsdk/utils/crypto/otfad.py", "KeyBlob.plain_data", "result"): 12,
    ("spsdk/utils/crypto/iee.py", "IeeKeyBlob.__init__", "key1"): 13,
    ("spsdk/utils/crypto/iee.py", "IeeKeyBlob.__init__", "key2"): 14,
    ("spsdk/image/bee.py", "BeeProtectRegionBlock.__init__", "self.counter"): 15,
    ("spsdk/image/bee.py", "BeeKIB.__init__", "self.kib_key"): 16,
    ("spsdk/image/bee.py", "BeeKIB.__init__", "self.kib_iv"): 17,
    ("spsdk/image/bee.py", "BeeRegionHeader.__init__", "self._sw_key"): 18,
    ("spsdk/image/hab/segments.py", "CsfHabSegment.get_dek_from_config", "secret_key"): 19,
    ("spsdk/image/hab/segments.py", "CsfHabSegment.generate_nonce", "return"): 20,
    ("spsdk/utils/misc.py", "BinaryPattern.get_block", "return"): 21,
    ("spsdk/utils/misc.py", "load_hex_string", "return"): 22,
    # shapes that existed before the repairs 2a7f072 / 79f0ba3 (import-time when present)
    ("spsdk/sbfile/sb2/images.py", "BootImageV20.__init__", "default:advanced_params"): 31,
    ("spsdk/sbfile/sb2/images.py", "BootImageV21.__init__", "default:advanced_params"): 32,
    ("spsdk/image/mbi/mbi_mixin.py", "Mbi_MixinCtrInitVector", "NEEDED_MEMBERS"): 33,
    ("spsdk/crypto/rng.py", "random_bytes", "return"): 40,
    ("spsdk/crypto/rng.py", "random_hex", "return"): 41,
    ("spsdk/crypto/rng.py", "rand_below", "return"): 42,
}
# source order of the logical sites in the reference tree (used only for the positional fallback)
REF_ORDER = [40, 41, 42, 3, 1, 2, 4, 5, 6, 8, 9, 10, 11, 12, 13, 14, 15, 16, 17, 18, 19, 20, 7, 21, 22]
# sites the hand model relies on; 8 may be absent (then the model never draws in the getter)
REQUIRED = set(range(1, 5)) | {6, 7, 9} | set(range(10, 23)) | {40}


class FileScan:
    def __init__(self, rel, tree):
        self.rel, self.tree = rel, tree
        self.prim_names = {}       # local name -> description (names bound to an entropy function)
        self.entropy_mods = {}     # local alias -> module name (secrets / random / os / spsdk.crypto.rng)
        self.scopes = {}           # qualname -> FunctionDef
        self.scope_class = {}      # qualname -> class qualname or None
        self.draws = []            # dict(line, scope, hint, phase, what)
        self.calls = {}            # scope qualname -> list of (callee_simple_name, node)
        self.attrs = {}            # scope qualname -> set of attribute names touched
        self.import_calls = []     # (node, scope, hint) calls evaluated at import time
        self.import_attrs = []     # (attr, node, scope, hint)
        self.classes = {}          # class qualname -> ClassDef
        self.decorated = {}        # scope qualname -> list of decorator names
        self.props = set()         # names of properties (getter / setter functions)


def _decorator_name(d):
    if isinstance(d, ast.Call):
        d = d.func
    if isinstance(d, ast.Attribute):
        return d.attr
    if isinstance(d, ast.Name):
        return d.id
    return ast.unparse(d)


def _collect_imports(fs):
    for node in ast.walk(fs.tree):
        if isinstance(node, ast.ImportFrom):
            mod = node.module or ""
            for a in node.names:
                if a.name == "*":
                    if mod.split(".")[0] in ENTROPY_MODULES or mod.endswith("crypto.rng"):
                        raise Unclassifiable(f"{fs.rel}:{node.lineno}: star import from {mod}")
                    continue
                local = a.asname or a.name
                if mod in ("secrets", "random"):
                    fs.prim_names[local] = f"{mod}.{a.name}"
                elif mod == "os" and a.name in OS_FUNCS:
                    fs.prim_names[local] = f"os.{a.name}"
                elif mod.endswith("crypto.rng") and a.name in RNG_FUNCS:
                    fs.prim_names[local] = f"rng.{a.name}"
                elif mod.endswith("spsdk.crypto") and a.name == "rng":
                    fs.entropy_mods[local] = "spsdk.crypto.rng"
        elif isinstance(node, ast.Import):
            for a in node.names:
                local = a.asname or a.name.split(".")[0]
                if a.name in ("secrets", "random"):
                    fs.entropy_mods[local] = a.name
                elif a.name == "os":
                    fs.entropy_mods[local] = "os"
                elif a.name == "spsdk.crypto.rng" and a.asname:
                    fs.entropy_mods[local] = "spsdk.crypto.rng"


def _is_prim_ref(fs, node):
    """Return a description when `node` (Name/Attribute) denotes an entropy primitive, else None."""
    if isinstance(node, ast.Name) and node.id in fs.prim_names:
        return fs.prim_names[node.id]
    if isinstance(node, ast.Attribute) and isinstance(node.value, ast.Name) and node.value.id in fs.entropy_mods:
        mod = fs.entropy_mods[node.value.id]
        if mod == "os":
            return f"os.{node.attr}" if node.attr in OS_FUNCS else None
        if mod == "spsdk.crypto.rng":
            return f"rng.{node.attr}" if node.attr in RNG_FUNCS | {"token_bytes", "token_hex", "randbelow"} else None
        return f"{mod}.{node.attr}"
    # spsdk.crypto.rng.random_bytes(...) written in full
    if isinstance(node, ast.Attribute) and node.attr in RNG_FUNCS and ast.unparse(node.value).endswith("crypto.rng"):
        return f"rng.{node.attr}"
    return None


def _hint_of_stmt(stmt):
    if isinstance(stmt, ast.Assign):
        return ast.unparse(stmt.targets[0]), stmt.targets
    if isinstance(stmt, ast.AnnAssign):
        return ast.unparse(stmt.target), [stmt.target]
    if isinstance(stmt, ast.AugAssign):
        return ast.unparse(stmt.target), [stmt.target]
    if isinstance(stmt, ast.Return):
        return "return", []
    return None, None


def _scan(fs):
    rel = fs.rel

    def visit(node, scope, in_body, stmt, cls, globs, default_of=None):
        """scope: qualname of the enclosing def/class ('' = module); in_body: inside a def/lambda body;
        stmt: nearest enclosing simple statement; cls: enclosing class qualname; globs: names declared global/nonlocal."""
        if isinstance(node, (ast.FunctionDef, ast.AsyncFunctionDef)):
            decs = [_decorator_name(d) for d in node.decorator_list]
            q = (scope + "." if scope else "") + node.name
            if "setter" in decs:
                q += ".setter"
            if "property" in decs or "setter" in decs or "getter" in decs or "cached_property" in decs:
                fs.props.add(node.name)
            fs.scopes[q] = node
            fs.scope_class[q] = cls
            fs.decorated[q] = decs
            fs.calls.setdefault(q, [])
            fs.attrs.setdefault(q, set())
            for d in node.decorator_list:
                visit(d, scope, in_body, None, cls, globs)
            a = node.args
            params = a.posonlyargs + a.args
            for p, d in zip(params[len(params) - len(a.defaults):], a.defaults):
                visit(d, q, in_body, None, cls, globs, default_of=p.arg)
            for p, d in zip(a.kwonlyargs, a.kw_defaults):
                if d is not None:
                    visit(d, q, in_body, None, cls, globs, default_of=p.arg)
            g2 = set()
            for s in ast.walk(node):
                if isinstance(s, (ast.Global, ast.Nonlocal)):
                    g2 |= set(s.names)
            for s in node.body:
                visit(s, q, True, None, cls, g2)
            return
        if isinstance(node, ast.Lambda):
            for d in node.args.defaults + [x for x in node.args.kw_defaults if x is not None]:
                visit(d, scope, in_body, stmt, cls, globs, default_of)
            visit(node.body, scope, True, ast.Return(value=node.body), cls, globs)
            return
        if isinstance(node, ast.ClassDef):
            q = (scope + "." if scope else "") + node.name
            fs.classes[q] = node
            for d in node.decorator_list + node.bases:
                visit(d, scope, in_body, None, cls, globs)
            for s in node.body:
                visit(s, q, in_body, None, q, globs)
            return
        if isinstance(node, ast.stmt):
            stmt = node
        if isinstance(node, (ast.Import, ast.ImportFrom)):
            return
        # ---- references to primitives
        if isinstance(node, ast.Call):
            what = _is_prim_ref(fs, node.func)
            if what is not None:
                hint, targets = _hint_of_stmt(stmt) if stmt is not None else (None, None)
                if default_of is not None:
                    hint, targets = "default:" + default_of, []
                if hint is None:
                    raise Unclassifiable(f"{rel}:{node.lineno}: draw `{ast.unparse(node)}` in a statement that is neither an "
                                         f"assignment nor a return")
                if in_body:
                    for t in targets:
                        ok = (isinstance(t, ast.Name) and t.id not in globs) or (
                            isinstance(t, ast.Attribute) and isinstance(t.value, ast.Name) and t.value.id == "self")
                        if not ok:
                            raise Unclassifiable(f"{rel}:{node.lineno}: draw stored in `{ast.unparse(t)}` "
                                                 f"(not a local name or self.<attr>)")
                fs.draws.append({"line": node.lineno, "scope": scope, "hint": hint, "what": what,
                                 "phase": "P" if in_body else "I", "kind": "draw"})
                for x in node.args + [k.value for k in node.keywords]:
                    visit(x, scope, in_body, stmt, cls, globs, default_of)
                return
            # ordinary call: remember callee for the drawing-callable closure
            f = node.func
            name = None
            if isinstance(f, ast.Name):
                name = f.id
                if name == "cls" and cls:
                    name = cls.split(".")[-1]
            elif isinstance(f, ast.Attribute):
                name = f.attr
                if name == "__init__":
                    name = None
            if name and not (name.startswith("__") and name.endswith("__")):
                if in_body:
                    fs.calls.setdefault(scope, []).append((name, node))
                else:
                    hint = ("default:" + default_of) if default_of else (_hint_of_stmt(stmt)[0] if stmt is not None else None)
                    fs.import_calls.append((name, node, scope, hint or "expr"))
        elif isinstance(node, (ast.Name, ast.Attribute)):
            what = _is_prim_ref(fs, node)
            if what is not None:
                raise Unclassifiable(f"{rel}:{node.lineno}: `{ast.unparse(node)}` ({what}) is referenced without being called")
            if isinstance(node, ast.Attribute):
                if in_body:
                    fs.attrs.setdefault(scope, set()).add(node.attr)
                else:
                    hint = ("default:" + default_of) if default_of else (_hint_of_stmt(stmt)[0] if stmt is not None else None)
                    fs.import_attrs.append((node.attr, node, scope, hint or "expr"))
        # re-binding of a primitive name
        if isinstance(node, (ast.Assign, ast.AugAssign, ast.AnnAssign)):
            tg = node.targets if isinstance(node, ast.Assign) else [node.target]
            for t in tg:
                if isinstance(t, ast.Name) and t.id in fs.prim_names:
                    raise Unclassifiable(f"{rel}:{node.lineno}: entropy function name `{t.id}` is re-bound")
        for c in ast.iter_child_nodes(node):
            visit(c, scope, in_body, stmt, cls, globs, default_of)

    for s in fs.tree.body:
        visit(s, "", False, None, None, set())


def _callable_names(fs, q):
    """simple names under which the scope q can be called"""
    name = q.split(".")[-1] if not q.endswith(".setter") else q.split(".")[-2]
    if name == "__init__":
        return {q.split(".")[-2]} if "." in q else set()
    if name.startswith("__") and name.endswith("__"):
        return set()          # implicit protocol methods are not call sites
    return {name}


def scan_all(repo):
    scans = {}
    for rel in FILES:
        path = os.path.join(repo, rel)
        fs = FileScan(rel, ast.parse(open(path).read(), filename=rel))
        _collect_imports(fs)
        _scan(fs)
        scans[rel] = fs
    # ---- drawing callables (name based, across the scanned files), least fixed point
    drawing_scopes = set()
    for rel, fs in scans.items():
        for d in fs.draws:
            if d["phase"] == "P":
                drawing_scopes.add((rel, d["scope"]))
    names, props = set(), set()
    changed = True
    while changed:
        changed = False
        for rel, q in list(drawing_scopes):
            fs = scans[rel]
            base = q[:-len(".setter")] if q.endswith(".setter") else q
            if base.split(".")[-1] in fs.props:
                if base.split(".")[-1] not in props:
                    props.add(base.split(".")[-1]); changed = True
            for n in _callable_names(fs, q):
                if n not in names:
                    names.add(n); changed = True
        for rel, fs in scans.items():
            for q in fs.scopes:
                if (rel, q) in drawing_scopes:
                    continue
                if any(n in names for (n, _) in fs.calls.get(q, [])) or (fs.attrs.get(q, set()) & props):
                    drawing_scopes.add((rel, q)); changed = True
    # ---- decorators on scopes that draw directly
    direct = {(rel, d["scope"]) for rel, fs in scans.items() for d in fs.draws if d["phase"] == "P"}
    for rel, q in direct:
        for dec in scans[rel].decorated.get(q, []):
            if dec not in OK_DECORATORS:
                raise Unclassifiable(f"{rel}: `{q}` draws entropy and carries decorator @{dec}")
        # enclosing scopes (nested defs) are not expected
    # ---- import-time uses of drawing callables / properties
    rows = []
    for rel, fs in scans.items():
        for d in fs.draws:
            rows.append((rel, d["line"], d["phase"], d["scope"], d["hint"], d["what"]))
        for (n, node, scope, hint) in fs.import_calls:
            if n in names:
                rows.append((rel, node.lineno, "I", scope, hint, "call " + ast.unparse(node.func)))
        for (a, node, scope, hint) in fs.import_attrs:
            if a in props:
                rows.append((rel, node.lineno, "I", scope, hint, "property " + a))
    rows = sorted(set(rows), key=lambda r: (FILES[r[0]], r[1]))
    return rows, sorted(names), sorted(props)


# ------------------------------------------------------------------ static import closure
def _module_file(repo, dotted):
    p = os.path.join(repo, *dotted.split("."))
    if os.path.isfile(p + ".py"):
        return p + ".py"
    if os.path.isfile(os.path.join(p, "__init__.py")):
        return os.path.join(p, "__init__.py")
    return None


def import_closure(repo):
    """For each scanned module: ordered list of scanned modules whose bodies run when it is imported first in a fresh
    interpreter that has already imported the `spsdk` package (entry 0 = the package itself)."""
    cache = {}

    def top_imports(dotted):
        if dotted in cache:
            return cache[dotted]
        path = _module_file(repo, dotted)
        out = []
        if path is None:
            cache[dotted] = out
            return out
        tree = ast.parse(open(path).read())
        is_pkg = path.endswith("__init__.py")
        pkg = dotted if is_pkg else dotted.rpartition(".")[0]

        def walk(stmts):
            for s in stmts:
                if isinstance(s, ast.Import):
                    for a in s.names:
                        out.append(a.name)
                elif isinstance(s, ast.ImportFrom):
                    base = s.module or ""
                    if s.level:
                        parts = pkg.split(".")
                        parts = parts[:len(parts) - (s.level - 1)]
                        base = ".".join(parts + ([s.module] if s.module else []))
                    out.append(base)
                    for a in s.names:
                        if _module_file(repo, base + "." + a.name):
                            out.append(base + "." + a.name)
                elif isinstance(s, ast.If):
                    t = ast.unparse(s.test)
                    if "TYPE_CHECKING" in t:
                        walk(s.orelse)
                    else:
                        walk(s.body); walk(s.orelse)
                elif isinstance(s, ast.Try):
                    walk(s.body); walk(s.orelse); walk(s.finalbody)
                    for h in s.handlers:
                        walk(h.body)
                elif isinstance(s, (ast.With,)):
                    walk(s.body)
        walk(tree.body)
        cache[dotted] = out
        return out

    def run(dotted, visited, order):
        if not dotted.startswith("spsdk"):
            return
        # parents first
        parts = dotted.split(".")
        for i in range(1, len(parts) + 1):
            m = ".".join(parts[:i])
            if m in visited or _module_file(repo, m) is None:
                continue
            visited.add(m)
            for dep in top_imports(m):
                run(dep, visited, order)
            order.append(m)

    by_name = {name: mid for mid, (name, _) in MODULES.items()}
    base_visited, base_order = set(), []
    run("spsdk", base_visited, base_order)
    clo = {0: [by_name[m] for m in base_order if m in by_name]}
    for mid, (name, _) in MODULES.items():
        if mid == 0:
            continue
        visited, order = set(base_visited), []
        run(name, visited, order)
        clo[mid] = [by_name[m] for m in order if m in by_name]
    return clo


# ------------------------------------------------------------------ rng.py shape
def rng_shape(repo):
    rel = MODULES[1][1]
    tree = ast.parse(open(os.path.join(repo, rel)).read())
    from_secrets = set()
    fn = None
    for s in tree.body:
        if isinstance(s, ast.ImportFrom) and s.module == "secrets" and s.level == 0:
            from_secrets |= {a.asname or a.name for a in s.names if (a.asname or a.name) == a.name}
        elif isinstance(s, ast.FunctionDef) and s.name == "random_bytes":
            fn = s
        elif isinstance(s, (ast.Assign, ast.AugAssign, ast.AnnAssign)):
            raise Unclassifiable(f"{rel}:{s.lineno}: module-level assignment in rng.py")
    if fn is None or "token_bytes" not in from_secrets:
        raise Unclassifiable(f"{rel}: random_bytes / `from secrets import token_bytes` not found")
    if fn.decorator_list or len(fn.args.args) != 1 or fn.args.defaults or fn.args.vararg or fn.args.kwarg:
        raise Unclassifiable(f"{rel}:{fn.lineno}: unexpected signature/decorator of random_bytes")
    body = [s for s in fn.body if not (isinstance(s, ast.Expr) and isinstance(s.value, ast.Constant))]
    p = fn.args.args[0].arg
    ok = (len(body) == 1 and isinstance(body[0], ast.Return) and isinstance(body[0].value, ast.Call)
          and isinstance(body[0].value.func, ast.Name) and body[0].value.func.id == "token_bytes"
          and len(body[0].value.args) == 1 and not body[0].value.keywords
          and isinstance(body[0].value.args[0], ast.Name) and body[0].value.args[0].id == p)
    if not ok:
        raise Unclassifiable(f"{rel}:{fn.lineno}: random_bytes is not `return token_bytes({p})`")
    # token_bytes must not be defined / shadowed in the module
    for s in ast.walk(tree):
        if isinstance(s, (ast.FunctionDef, ast.ClassDef)) and s.name in ("token_bytes", "token_hex", "randbelow"):
            raise Unclassifiable(f"{rel}:{s.lineno}: {s.name} re-defined")
    return True


# ------------------------------------------------------------------ output
HEADER = """(* GENERATED on every run by tools/regen_c17.py from the current source -- do not edit.
   gen_sites: every entropy draw / import-time use of a drawing callable found in the scanned files:
   (module id, line, per_call?, logical site id used by Model/FreshModel.v; 0 = not referenced by the model).
   gen_closure: static import closure between the scanned modules.  gen_rng_direct: shape of spsdk/crypto/rng.py. *)
From Coq Require Import NArith List Bool.
Import ListNotations.
Local Open Scope N_scope.

"""


def analyse(repo=None, strict=True):
    repo = repo or vlib.REPO
    rows, names, props = scan_all(repo)
    table = []
    seen_logical = {}
    # logical ids: by (file, scope, assigned name); when a scope's assigned names do not match (renamed local) but the
    # number of draws in the scope is the expected one, by position in source order
    by_scope, exp_scope = {}, {}
    for (rel, line, phase, scope, hint, what) in rows:
        by_scope.setdefault((rel, scope), []).append((line, hint))
    for (rel, scope, hint), lid in EXPECTED.items():
        if lid not in (31, 32, 33):
            exp_scope.setdefault((rel, scope), []).append((lid, hint))
    positional = {}
    for key, found in by_scope.items():
        exp = exp_scope.get(key)
        if not exp:
            continue
        hints = sorted(h for _, h in found)
        if hints != sorted(h for _, h in exp) and len(found) == len(exp):
            # expected entries are listed in EXPECTED in source order of the reference tree: order them by logical id of
            # their first appearance there (ids 1..4 are out of source order: nonce helper comes first)
            order = sorted(exp, key=lambda e: REF_ORDER.index(e[0]))
            for (line, _), (lid, _) in zip(sorted(found), order):
                positional[(key[0], line)] = lid
    for (rel, line, phase, scope, hint, what) in rows:
        logical = positional.get((rel, line), EXPECTED.get((rel, scope, hint), 0))
        if logical:
            if logical in seen_logical and strict:
                raise Unclassifiable(f"{rel}:{line}: second site for logical id {logical} (first at line {seen_logical[logical]})")
            seen_logical[logical] = line
        table.append({"module": FILES[rel], "file": rel, "line": line, "per_call": phase == "P", "logical": logical,
                      "scope": scope, "hint": hint, "what": what})
    missing = sorted(REQUIRED - set(seen_logical))
    if missing and strict:
        raise Unclassifiable(f"draw sites the model relies on were not found: logical ids {missing}")
    clo = import_closure(repo)
    try:
        rng_ok = rng_shape(repo)
    except Unclassifiable:
        if strict:
            raise
        rng_ok = False
    return {"table": table, "closure": clo, "rng_direct": rng_ok, "drawing_names": names, "drawing_props": props}


def render(an):
    t = HEADER
    t += "Definition gen_sites : list (N * N * bool * N) :=\n  [ "
    items = []
    for r in an["table"]:
        items.append(f"(({r['module']}, {r['line']}), {'true' if r['per_call'] else 'false'}, {r['logical']})"
                     f"   (* {r['file']}:{r['line']} {r['scope'] or '<module>'} -> {r['hint']} : {r['what']} *)")
    t += "\n  ; ".join(items) + "\n  ].\n\n"
    t += "Definition gen_closure : list (N * list N) :=\n  [ "
    t += "\n  ; ".join(f"({m}, [{'; '.join(str(x) for x in an['closure'][m])}])" for m in sorted(an["closure"])) + "\n  ].\n\n"
    t += f"Definition gen_rng_direct : bool := {'true' if an['rng_direct'] else 'false'}.\n"
    return t


def regen():
    """Writes Gen/GenFresh.v.  When the source cannot be classified the file is still rewritten from what could be
    extracted, with one extra import-time row (0, 0) so that every theorem about the generated table fails closed,
    and the exception is re-raised."""
    try:
        an = analyse()
    except Exception as ex:
        try:
            an = analyse(strict=False)
        except Exception:
            an = {"table": [], "closure": {m: [m] for m in MODULES}, "rng_direct": False}
        an["table"].append({"module": 0, "file": "<unclassifiable>", "line": 0, "per_call": False, "logical": 0,
                            "scope": "", "hint": "", "what": "fail-closed: " + str(ex).replace("*)", "* )")[:200]})
        an["rng_direct"] = False
        vlib.write_if_changed(os.path.join(vlib.COQ, "Gen", "GenFresh.v"), render(an))
        raise
    vlib.write_if_changed(os.path.join(vlib.COQ, "Gen", "GenFresh.v"), render(an))
    return an


if __name__ == "__main__":
    a = regen()
    print(render(a))
    print(a["drawing_names"], a["drawing_props"])
