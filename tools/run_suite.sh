#!/bin/bash
# run the repository baseline suite (guard off) and print a summary; $1 = log file
LOG=${1:-/tmp/suite.log}
cd /repo && /venv/bin/python -m pytest -q -p no:cacheprovider --timeout=900 --continue-on-collection-errors -n ${2:-8} > $LOG 2>&1
echo "exit $?" >> $LOG
tail -3 $LOG
