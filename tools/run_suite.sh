#!/bin/bash
# run the repository baseline suite (guard off) in parallel and compare with BASELINE.json stable_pass; $1 = repo dir (default /repo)
R=${1:-/repo}
OUT=${2:-/verif/.work/suite}
mkdir -p $OUT
cd $R && env -u NXP_SPSDK_VERIF PYTHONPATH=$R /venv/bin/python -m pytest -q -p no:cacheprovider --timeout=900 --continue-on-collection-errors -n ${N:-8} --junitxml=$OUT/junit.xml > $OUT/log 2>&1
echo "exit $?" >> $OUT/log
tail -2 $OUT/log
/venv/bin/python - $OUT/junit.xml <<'P'
import json, sys, xml.etree.ElementTree as ET
sp = set(json.load(open('/root/.vp/BASELINE.json'))['stable_pass'])
ok = set()
for tc in ET.parse(sys.argv[1]).getroot().iter('testcase'):
    if not any(c.tag in ('failure', 'error', 'skipped') for c in tc):
        ok.add(f"{tc.get('classname')}::{tc.get('name')}")
missing = sorted(sp - ok)
print(f"stable_pass {len(sp)}; passing now {len(sp & ok)}; missing {len(missing)}")
for m in missing[:40]:
    print("  MISSING", m)
P
